/*
 * C03/jbd2_ref.h -- reference model of JBD2 recovery, written from the on-disk
 * format (Documentation/filesystems/ext4/journal.rst).  It indexes the BYTES of
 * the journal image; it shares no struct, macro or helper with recovery.c /
 * revoke.c / kernel-jbd.h.  All numbers on disk are big-endian.
 *
 *   block header   : +0 magic c0 3b 39 98, +4 type (1 descriptor, 2 commit, 5 revoke), +8 sequence
 *   descriptor     : tags from +12; tag = +0 blocknr(lo) | +4 csum16 +6 flags16 (csum v3: +4 flags32) |
 *                    [+8 blocknr(hi) if 64bit] [v3: +12 csum32]; flags 1 escaped, 2 same-uuid (else a
 *                    16-byte uuid follows the tag), 8 last tag; csum v2/v3: last 4 bytes = block checksum
 *   revoke         : +12 r_count = bytes used incl. the 16-byte header, records (4 or 8 bytes) from +16
 *   commit (v1 csum): +12 chksum_type, +13 chksum_size, +16 chksum[0]; +48 commit seconds (64 bit)
 *
 * Semantics: starting at s_start with sequence s_sequence, a transaction is the run of
 * descriptor(+its data blocks)/revoke blocks carrying the expected sequence up to a commit
 * block with that sequence; the log ends at the first block that has no magic, another
 * sequence or an unknown type.  Only transactions closed by their commit count.  A logged
 * block is copied to the filesystem unless a revoke record for its number exists in the same
 * or a later committed transaction; transactions are applied in log order (later wins).
 *
 * The harness provides: REF_J (journal bytes), REF_FIRST, REF_LAST, REF_START.
 * Transactions are identified by their ORDINAL (0 = the one carrying s_sequence), so the
 * model never compares wrapped 32-bit sequence numbers.
 */
#ifndef REF_MAXWALK
#define REF_MAXWALK (2 * (NJ - 1))
#endif
#ifndef REF_MAXREV		/* BOUND: records per revoke block */
#define REF_MAXREV 2
#endif
#ifndef REF_MAXRB		/* BOUND: revoke blocks in committed transactions */
#define REF_MAXRB 2
#endif
#define REF_MAXR (REF_MAXREV * REF_MAXRB)

#if FEAT_CSUM == 3
#define REF_TB 16
#elif FEAT_CSUM == 2
#define REF_TB (FEAT_64BIT ? 14 : 10)
#else
#define REF_TB (FEAT_64BIT ? 12 : 8)
#endif
#define REF_TAIL (FEAT_CSUM >= 2 ? 4 : 0)
#define REF_RL (FEAT_64BIT ? 8 : 4)
#define REF_MAXT ((B - REF_TAIL - 12) / REF_TB)
#define REF_OSTEP ((REF_TB % 4) ? 2 : 4)	/* every reachable tag offset is 12 + a*TB + b*16 */

struct ref_step { unsigned pos; unsigned char type; unsigned char nt; unsigned ord; };
static struct ref_step ref_steps[REF_MAXWALK];
static unsigned ref_nsteps;		/* header blocks accepted by the walk */
static unsigned ref_ncommitted_steps;	/* steps up to and including the last commit block */
static unsigned ref_ncommits;		/* committed transactions */
static int ref_terminated;		/* the walk found the end of the log within REF_MAXWALK header blocks */
static int ref_bound_ok = 1;		/* the journal stays inside the stated bounds */
static int ref_bad_revoke;		/* a committed revoke block claims more bytes than a block has */
static unsigned ref_nrevoke_records, ref_nreplayed;

static unsigned long long ref_log_blk[REF_MAXR];	/* the records in log order */
static unsigned ref_log_ord[REF_MAXR];
static unsigned long long ref_rev_blk[REF_MAXR];
static unsigned ref_rev_ord[REF_MAXR];
static unsigned ref_nrev;

static unsigned char ref_fs[NFS * B];

struct ref_tag { unsigned long long blk; unsigned char esc; __u32 csum; };

static __u32 ref_be32(const unsigned char *p)
{
	return ((__u32) p[0] << 24) | ((__u32) p[1] << 16) | ((__u32) p[2] << 8) | p[3];
}

static void ref_load(unsigned pos, unsigned char *out)
{
	unsigned p, i;
	for (p = 0; p < NJ; p++)
		if (p == pos)
			for (i = 0; i < B; i++)
				out[i] = REF_J[p * B + i];
}

/* position k blocks after pos inside the circular log [first, last) */
static unsigned ref_adv(unsigned pos, unsigned k)
{
	unsigned p = pos + k;
	if (p >= REF_LAST)
		p -= REF_LAST - REF_FIRST;
	if (p >= REF_LAST) {
		ref_bound_ok = 0;	/* a descriptor claiming at least as many blocks as the log has */
		p = REF_FIRST;
	}
	return p;
}

static unsigned ref_parse_tags(const unsigned char *d, struct ref_tag *tags)
{
	unsigned off = 12, n = 0, o, q, flags;
	int done = 0;

	for (o = 12; o + REF_TB <= B - REF_TAIL; o += REF_OSTEP) {
		if (done || o != off)
			continue;
		flags = ((unsigned) d[o + 6] << 8) | d[o + 7];
		for (q = 0; q < REF_MAXT; q++)
			if (q == n) {
				tags[q].blk = ref_be32(d + o);
#if FEAT_64BIT
				tags[q].blk |= (unsigned long long) ref_be32(d + o + 8) << 32;
#endif
				tags[q].esc = (flags & 1) != 0;
#if FEAT_CSUM == 3
				tags[q].csum = ref_be32(d + o + 12);
#elif FEAT_CSUM == 2
				tags[q].csum = ((__u32) d[o + 4] << 8) | d[o + 5];
#else
				tags[q].csum = 0;
#endif
			}
		n++;
		off = o + REF_TB + ((flags & 2) ? 0 : 16);
		if (flags & 8)
			done = 1;
	}
	return n;
}


#if FEAT_CSUM
/*
 * Checksummed journals.  REF_CSUM(k) is "the checksum of journal block k" (the harness's T-stub of the crc primitive
 * returns the same symbolic word), so validity of every stored checksum is a free predicate per block.
 *   v1 (COMPAT_CHECKSUM): a running value, seeded with ~0 at the start of every transaction, is folded over each
 *      descriptor block and then each of its data blocks in log order (revoke blocks are not covered); the commit block
 *      is valid iff (+12 type == 1, +13 size == 4, +16 == running value) or all three are zero (checksum unused).
 *   v2/v3: descriptor and revoke blocks carry their checksum in the last 4 bytes, commit blocks at +16.
 * A commit block whose checksum is wrong but whose commit time (+48, 64 bit) is older than the previous transaction's is
 * a stale block of an older log: the log simply ends there.  Otherwise the transaction is the END OF THE LOG: neither it
 * nor anything after it is replayed, with or without async_commit.  Without async_commit it is reported as a failed
 * commit and the scan stops looking; with async_commit the scan looks further: v1: a later commit block proves
 * corruption (failed commit = the transaction with the bad checksum); v2/v3: nothing more is reported (recovery.c
 * never sets j_failed_commit there), later transactions are walked over but stay outside the replayed set.  v2/v3: a descriptor / revoke block
 * with a wrong checksum makes the next commit block decisive: newer commit time = corruption (recovery fails), older =
 * stale (log ends).
 */
static __u32 ref_fold(__u32 crc, __u32 w) { return ((crc << 1) | (crc >> 31)) ^ w; }	/* the T-stub's fold, restated */
static __u32 ref_blk_csum(unsigned pos)
{
	unsigned p;
	__u32 r = 0;
	for (p = 0; p < NJ; p++)
		if (p == pos)
			r = REF_CSUM(p);
	return r;
}
static unsigned long long ref_be64(const unsigned char *p)
{
	return ((unsigned long long) ref_be32(p) << 32) | ref_be32(p + 4);
}
#endif
static unsigned ref_end_ord;		/* transactions 0 .. ref_end_ord-1 are to be applied */
static int ref_scan_error;		/* the scan itself must fail (corruption proven) */
static int ref_failed_commit;		/* a transaction that looks committed failed its checksum */
static unsigned ref_failed_ord;

/* find the end of the log */
static void ref_walk(__u32 s_sequence)
{
	unsigned pos = REF_START, ord = 0, n;
	static unsigned char d[B];
	static struct ref_tag tags[REF_MAXT + 1];
#if FEAT_CSUM
	int end_set = 0, need_time = 0, strict = 0;
	unsigned long long last_time = 0;
	__u32 crc = 0xffffffffu;
	unsigned t;
#endif

	for (n = 0; n < REF_MAXWALK; n++) {
		__u32 type;
		if (ref_terminated)
			continue;
		ref_load(pos, d);
		if (ref_be32(d) != 0xc03b3998u || ref_be32(d + 8) != s_sequence + ord) {
			ref_terminated = 1;
			continue;
		}
		type = ref_be32(d + 4);
		if (type != 1 && type != 2 && type != 5) {
			ref_terminated = 1;
			continue;
		}
#if FEAT_CSUM
		if (strict) {
			/* ASSUME: the block that follows a commit block reported as failed does not carry that same transaction id again
			 * (do_one_pass() leaves only the switch there, keeps the id and walks on; what it then does with duplicates of the
			 * failed transaction -- including spinning forever on a ring of them -- is outside) */
			ref_bound_ok = 0;
			ref_terminated = 1;
			continue;
		}
		if (type == 2) {
			unsigned long long ctime = ref_be64(d + 48);
			int bad = 0;
#if FEAT_CSUM >= 2
			if (need_time) {
				if (ctime >= last_time)
					ref_scan_error = 1;
				ref_terminated = 1;
				continue;
			}
			if (ref_be32(d + 16) != ref_blk_csum(pos))
				bad = 1;
#else
			if (end_set) {
				ref_failed_commit = 1;
				ref_failed_ord = ref_end_ord;
				strict = 1;
				pos = ref_adv(pos, 1);
				continue;
			}
			if (!((d[12] == 1 && d[13] == 4 && ref_be32(d + 16) == crc) ||
			      (d[12] == 0 && d[13] == 0 && ref_be32(d + 16) == 0)))
				bad = 1;
			else
				crc = 0xffffffffu;
#endif
			if (bad) {
				if (ctime < last_time) {
					ref_terminated = 1;
					continue;
				}
				if (end_set) {
					/* ASSUME (async_commit, v2/v3): at most ONE commit block of the log fails its checksum.  do_one_pass() (and the
					 * kernel) would move end_transaction forward to the later failure and so replay the first checksum-invalid
					 * transaction; the rule decided here is "nothing from the first failed commit on is replayed". */
					ref_bound_ok = 0;
					ref_terminated = 1;
					continue;
				}
				end_set = 1;
				ref_end_ord = ord;	/* the log ends here whether or not the scan looks further (async_commit) */
#if !FEAT_ASYNC
				ref_failed_commit = 1;
				ref_failed_ord = ord;
				strict = 1;
				pos = ref_adv(pos, 1);
				continue;
#endif
			}
			last_time = ctime;
		}
#if FEAT_CSUM >= 2
		if ((type == 1 || type == 5) && ref_be32(d + B - 4) != ref_blk_csum(pos))
			need_time = 1;
#endif
#endif
		ref_steps[n].pos = pos;
		ref_steps[n].type = (unsigned char) type;
		ref_steps[n].ord = ord;
		ref_steps[n].nt = 0;
		ref_nsteps = n + 1;
		if (type == 1) {
			unsigned nt = ref_parse_tags(d, tags);
			ref_steps[n].nt = (unsigned char) nt;
			/* BOUND: a descriptor never claims the whole log (it needs room for itself and a commit block) */
			if (nt + 1 > REF_LAST - REF_FIRST)
				ref_bound_ok = 0;
#if FEAT_CSUM == 1
			if (!end_set) {
				crc = ref_fold(crc, ref_blk_csum(pos));
				for (t = 0; t < REF_MAXT; t++)
					if (t < nt)
						crc = ref_fold(crc, ref_blk_csum(ref_adv(pos, 1 + t)));
			}
#endif
			pos = ref_adv(pos, 1 + nt);
		} else if (type == 2) {
			ord++;
			ref_ncommits = ord;
			ref_ncommitted_steps = n + 1;
			pos = ref_adv(pos, 1);
		} else {
			pos = ref_adv(pos, 1);
		}
	}
#if FEAT_CSUM
	if (!end_set)
		ref_end_ord = ord;
#else
	ref_end_ord = ord;
#endif
}
/* does step n belong to a transaction that is to be applied? */
#define REF_COMMITTED(n) ((n) < ref_nsteps && ref_steps[n].ord < ref_end_ord)

/* collect the revoke records of committed transactions: block -> ordinal of the latest transaction revoking it */
static void ref_collect_revokes(void)
{
	unsigned n, o, k, nrb = 0;
	static unsigned char d[B];

	for (n = 0; n < REF_MAXWALK; n++) {
		__u32 used;
		unsigned cnt = 0;
		if (!REF_COMMITTED(n) || ref_steps[n].type != 5 || ref_bad_revoke)
			continue;
		ref_load(ref_steps[n].pos, d);
		used = ref_be32(d + 12);
		if (used > B - REF_TAIL) {
			ref_bad_revoke = 1;
			continue;
		}
		if (++nrb > REF_MAXRB)
			ref_bound_ok = 0;
		for (o = 16; o + REF_RL <= B; o += REF_RL) {
			unsigned long long blk;
			int found = 0;
			if (o + REF_RL > used)
				continue;
			if (++cnt > REF_MAXREV) {
				ref_bound_ok = 0;
				continue;
			}
			blk = ref_be32(d + o);
#if FEAT_64BIT
			blk = (blk << 32) | ref_be32(d + o + 4);
#endif
			for (k = 0; k < REF_MAXR; k++)
				if (k == ref_nrevoke_records) {
					ref_log_blk[k] = blk;
					ref_log_ord[k] = ref_steps[n].ord;
				}
			ref_nrevoke_records++;
			for (k = 0; k < REF_MAXR; k++)
				if (k < ref_nrev && ref_rev_blk[k] == blk) {
					found = 1;
					if (ref_steps[n].ord > ref_rev_ord[k])
						ref_rev_ord[k] = ref_steps[n].ord;
				}
			if (!found) {
				for (k = 0; k < REF_MAXR; k++)
					if (k == ref_nrev) {
						ref_rev_blk[k] = blk;
						ref_rev_ord[k] = ref_steps[n].ord;
					}
				ref_nrev++;
			}
		}
	}
}

/* is block blk, logged by the transaction with ordinal ord, cancelled? */
static int ref_revoked_by_table(unsigned long long blk, unsigned ord)
{
	unsigned k;
	int r = 0;
	for (k = 0; k < REF_MAXR; k++)
		if (k < ref_nrev && ref_rev_blk[k] == blk && ref_rev_ord[k] >= ord)
			r = 1;
	return r;
}
#ifndef REF_REVOKED
#define REF_REVOKED(blk, ord) ref_revoked_by_table(blk, ord)
#endif


static int ref_data_csum_failed;

/* apply the committed transactions in log order */
static void ref_replay(void)
{
	unsigned n, t, p, i;
	static unsigned char d[B], data[B];
	static struct ref_tag tags[REF_MAXT + 1];

	for (n = 0; n < REF_MAXWALK; n++) {
		unsigned nt;
		if (!REF_COMMITTED(n) || ref_steps[n].type != 1)
			continue;
		ref_load(ref_steps[n].pos, d);
		nt = ref_parse_tags(d, tags);
		for (t = 0; t < REF_MAXT; t++) {
			if (t >= nt)
				continue;
			if (REF_REVOKED(tags[t].blk, ref_steps[n].ord))
				continue;
#if FEAT_CSUM >= 2
			/* v2/v3: the tag stores the checksum of (transaction sequence as 4 big-endian bytes, then the logged block); v2 keeps the low 16 bits.
			 * T-stub restated: checksum(block k, after the sequence prefix) = REF_CSUM(k) ^ (the prefix read as a native word) */
			{
				__u32 sq = REF_SEQ0 + ref_steps[n].ord;
				__u32 sqbe = (sq >> 24) | ((sq >> 8) & 0xff00u) | ((sq << 8) & 0xff0000u) | (sq << 24);
				__u32 want = ref_blk_csum(ref_adv(ref_steps[n].pos, 1 + t)) ^ sqbe;
#if FEAT_CSUM == 2
				want &= 0xffffu;
#endif
				if (tags[t].csum != want) {
					ref_data_csum_failed = 1;	/* a logged block that fails its checksum is not written; recovery reports failure */
					continue;
				}
			}
#endif
			ref_load(ref_adv(ref_steps[n].pos, 1 + t), data);
			if (tags[t].esc) {
				data[0] = 0xc0; data[1] = 0x3b; data[2] = 0x39; data[3] = 0x98;
			}
			ref_nreplayed++;
			for (p = 0; p < NFS; p++)
				if (p == tags[t].blk)
					for (i = 0; i < B; i++)
						ref_fs[p * B + i] = data[i];
		}
	}
}
