/*
 * C03/revoke_pass: PASS_REVOKE of the real do_one_pass() + scan_revoke_records()
 * (recovery.c) filling the real revoke hash table (revoke.c), on an ARBITRARY
 * journal image, given the end of the log computed by the reference (scan.c
 * proves PASS_SCAN computes the same).  Afterwards, for an ARBITRARY block number
 * and an ARBITRARY transaction of the log, jbd2_journal_test_revoke() answers
 * exactly what the reference's revoke set says: "a revoke record for this block
 * exists in this or a later committed transaction".  Then the table is cleared
 * and destroyed (J_ASSERTs of revoke.c must hold).
 */
#include "jcfg.h"
struct vf_in {
	unsigned char j[NJ * B];
	unsigned int s_start, s_sequence, s_first;
	unsigned long long qblk;	/* the question asked of the table */
	unsigned int qord;
};
VF_DECLARE_INPUT(struct vf_in, IN)
#include "vf_input.inc"
#include "jgeom.h"
#include "jenv.h"
#include "jbd2_ref.h"

int main(void)
{
	static struct recovery_info info;
	int rc, q;

	VF_INPUT(IN);
	VF_ASSUME_GEOMETRY();
	vf_make_journal(VF_FIRST, IN.s_sequence, VF_START);

	ref_walk(IN.s_sequence);
	ref_collect_revokes();
	/* ASSUME: the log walk ends within REF_MAXWALK header blocks */
	ASSUME(ref_terminated);
	/* BOUND: at most REF_MAXRB revoke blocks in committed transactions, each with at most REF_MAXREV records */
	ASSUME(ref_bound_ok);

	/* as recover_ext3_journal() / ext2fs_run_ext3_journal() set the table up (HASHSZ buckets instead of 1024) */
	rc = jbd2_journal_init_revoke_record_cache();
	PROP(rc == 0, "record cache");
	rc = jbd2_journal_init_revoke_table_cache();
	PROP(rc == 0, "table cache");
	rc = jbd2_journal_init_revoke(&vf_journal, HASHSZ);
	PROP(rc == 0, "init revoke");

	info.start_transaction = IN.s_sequence;
	info.end_transaction = IN.s_sequence + ref_ncommits;
	rc = do_one_pass(&vf_journal, &info, PASS_REVOKE);

	if (ref_bad_revoke) {
		PROP(rc != 0, "a revoke block claiming more bytes than a block holds aborts recovery");
	} else {
		PROP(rc == 0, "revoke pass succeeds");
		PROP(info.nr_revokes == (int) ref_nrevoke_records, "every revoke record of a committed transaction is scanned, none else");
		/* BOUND: the question is about a transaction within 16 ids of s_sequence */
		ASSUME(IN.qord < 16);
		q = jbd2_journal_test_revoke(&vf_journal, IN.qblk, IN.s_sequence + IN.qord);
		PROP((q != 0) == (ref_revoked_by_table(IN.qblk, IN.qord) != 0),
		     "a block is revoked for transaction T iff a revoke record for it exists in T or a later committed transaction");
	}
	PROP(vf_fs_writes == 0 && vf_fs_oob_writes == 0 && vf_j_writes == 0, "the revoke pass writes nothing");
	PROP(vf_j_oob_reads == 0 && vf_jheld == 0, "reads stay inside the journal, buffers are released");

	jbd2_journal_clear_revoke(&vf_journal);
	PROP(jbd2_journal_test_revoke(&vf_journal, IN.qblk, IN.s_sequence + IN.qord) == 0, "cleared table revokes nothing");
	jbd2_journal_destroy_revoke(&vf_journal);	/* J_ASSERT(list_empty) inside */
	VF_END();
	return 0;
}
