/*
 * C03/revoke_pass: PASS_REVOKE of the real do_one_pass() + scan_revoke_records()
 * (recovery.c) on an ARBITRARY journal image, given the end of the log computed
 * by the reference (scan.c proves PASS_SCAN computes the same).  The revoke table
 * is cut at its interface: jbd2_journal_set_revoke() is a logging stub, and the
 * claim is that the pass hands it exactly the (block, transaction) records of
 * the revoke blocks of COMMITTED transactions, in log order, and nothing else.
 * revoke_table.c proves that the real table turns such a sequence of calls into
 * the predicate "revoked in this or a later transaction".
 */
#include "jcfg.h"
struct vf_in {
	unsigned char j[NJ * B];
	unsigned int s_start, s_sequence, s_first;
};
VF_DECLARE_INPUT(struct vf_in, IN)
#include "vf_input.inc"
#define VF_NO_REVOKE
#include "jgeom.h"
#include "jenv.h"
#define REF_LOG_REVOKES
#include "jbd2_ref.h"

#define MAXLOG (REF_MAXR + 1)
static unsigned long long vf_log_blk[MAXLOG];
static unsigned int vf_log_seq[MAXLOG];
static int vf_nlog;

/* STUB: jbd2_journal_set_revoke logs its arguments (the real table: revoke_table.c) */
int jbd2_journal_set_revoke(journal_t *j, unsigned long long b, tid_t s)
{
	(void) j;
	if (vf_nlog < MAXLOG) {
		vf_log_blk[vf_nlog] = b;
		vf_log_seq[vf_nlog] = s;
	}
	vf_nlog++;
	return 0;
}
int jbd2_journal_test_revoke(journal_t *j, unsigned long long b, tid_t s) { (void) j; (void) b; (void) s; PROP(0, "PASS_REVOKE does not query the revoke table"); return 0; }
void jbd2_journal_clear_revoke(journal_t *j) { (void) j; }

int main(void)
{
	static struct recovery_info info;
	int rc, k;

	VF_INPUT(IN);
	VF_ASSUME_GEOMETRY();
	vf_make_journal(VF_FIRST, IN.s_sequence, VF_START);

	ref_walk(IN.s_sequence);
	ref_collect_revokes();
	/* ASSUME: the log walk ends within REF_MAXWALK header blocks */
	ASSUME(ref_terminated);
	/* BOUND: at most REF_MAXRB revoke blocks in committed transactions, each with at most REF_MAXREV records */
	ASSUME(ref_bound_ok);

	info.start_transaction = IN.s_sequence;
	info.end_transaction = IN.s_sequence + ref_end_ord;
	rc = do_one_pass(&vf_journal, &info, PASS_REVOKE);

	if (ref_bad_revoke) {
		PROP(rc != 0, "a revoke block claiming more bytes than a block holds aborts recovery");
	} else {
		PROP(rc == 0, "revoke pass succeeds");
		PROP(info.nr_revokes == (int) ref_nrevoke_records, "every revoke record of a committed transaction is scanned, none else");
		PROP(vf_nlog == (int) ref_nrevoke_records, "one set_revoke per record");
		for (k = 0; k < REF_MAXR; k++)
			if (k < vf_nlog)
				PROP(vf_log_blk[k] == ref_log_blk[k] && vf_log_seq[k] == IN.s_sequence + ref_log_ord[k],
				     "set_revoke receives the record's block number and the sequence of the transaction holding the revoke block");
	}
	PROP(vf_fs_writes == 0 && vf_fs_oob_writes == 0 && vf_j_writes == 0, "the revoke pass writes nothing");
	PROP(vf_j_oob_reads == 0 && vf_jheld == 0, "reads stay inside the journal, buffers are released");
	VF_END();
	return 0;
}
