/* C03/jgeom.h -- geometry macros shared by the harnesses (after VF_DECLARE_INPUT) */
/* discrete geometry is compile-time where a config gives it (rule 2) */
#ifdef FIRST
#define VF_FIRST ((unsigned) FIRST)
#else
#define VF_FIRST IN.s_first
#endif
#ifdef START
#define VF_START ((unsigned) START)
#else
#define VF_START IN.s_start
#endif
#define REF_J IN.j
#define REF_FIRST VF_FIRST
#define REF_LAST ((unsigned) NJ)
#define REF_START VF_START
#define VF_JDEV IN.j
/* ASSUME: journal geometry is valid: 1 <= s_first < s_maxlen - 1, s_first <= s_start < s_maxlen (e2fsck_journal_load does not check this; invalid geometry is outside) */
#define VF_ASSUME_GEOMETRY() do { \
	ASSUME(VF_FIRST >= 1 && VF_FIRST < NJ - 1); \
	ASSUME(VF_START >= VF_FIRST && VF_START < NJ); } while (0)
