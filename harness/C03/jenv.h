/*
 * C03/jenv.h -- environment shared by the journal-recovery harnesses.
 *
 * Real code: e2fsck/recovery.c (+ e2fsck/revoke.c unless VF_NO_REVOKE), compiled
 * in the e2fsck flavour or, with -DDEBUGFS, in the libext2fs/debugfs flavour
 * (jfs_user.h switches struct layouts).  The buffer layer that e2fsck/journal.c
 * resp. debugfs/journal.c provide (getblk / ll_rw_block / brelse / ...) is
 * restated here over two byte arrays (journal device, filesystem device); like
 * the real one it has NO cache: every getblk is a fresh buffer, a dirty buffer is
 * written when it is released.
 *
 * Geometry: journal of NJ blocks of B bytes (block 0 = journal superblock, log
 * blocks s_first..NJ-1), filesystem of NFS blocks of B bytes.
 */
#include "jcfg.h"

/* as e2fsck/journal.c and debugfs/journal.c do: this unit carries the external definitions of the inline helpers of jfs_user.h / kernel-jbd.h */
#define E2FSCK_INCLUDE_INLINE_FUNCS
#include "e2fsck/recovery.c"
#ifndef VF_NO_REVOKE
/* STUB: hash_64() (jfs_user.h: 64-bit golden-ratio multiply, SAT-hostile) is replaced inside revoke.c by stub_hash_64():
 * by default the low bits of the block number; revoke_table.c substitutes an ARBITRARY function and hash_range checks the real one's range */
static __u32 stub_hash_64(__u64 val, unsigned int bits);
#ifndef VF_REAL_HASH
#define hash_64(v, b) stub_hash_64(v, b)
#endif
#include "e2fsck/revoke.c"
#undef hash_64
#ifndef VF_OWN_HASH
static __u32 stub_hash_64(__u64 val, unsigned int bits)
{
	return (__u32) (val & ((1u << bits) - 1));
}
#endif
#endif

/* ------------------------------------------------------------------ devices */
/* journal device (read by recovery): the harness defines VF_JDEV (its symbolic input array) */
static unsigned char vf_fsdev[NFS * B];		/* filesystem device: what a write reaches first */
#ifdef VF_DURABLE
static unsigned char vf_durable[NFS * B];	/* filesystem device: stable storage */
static int vf_unsynced;				/* writes since the last flush */
#endif
static int vf_fs_writes, vf_fs_oob_writes, vf_j_writes, vf_syncs, vf_writes_after_sync;
static int vf_j_oob_reads, vf_j_range_viol;
#ifdef VF_WRITE_FAULT
static int vf_fail_write_at = -1, vf_failed_writes;
#endif

static struct kdev_s vf_kdev_fs, vf_kdev_j;
/* BOUND: at most 3 buffers are alive at once (descriptor, logged block, target block): one slot per role.
 * Like the real getblk() a buffer is allocated TRUNCATED to the block size (sizeof(*bh) + blocksize - sizeof(bh->b_data)).
 * recovery.c only touches b_data and b_size; the dirty/uptodate/device state of a slot is private to this buffer layer
 * and kept in plain scalars so that it constant-propagates. */
/* BOUND: with blocks smaller than a commit header (60 bytes) the buffer is still 64 bytes long: do_one_pass() reads the commit time at b_data+48 of every commit block; with B < 64 that field is padding (zero), which recovery without checksum features never uses */
#define VF_BDATA (B < 64 ? 64 : B)
#define VF_BHSZ ((offsetof(struct buffer_head, b_data) + VF_BDATA + 7) & ~7u)
static unsigned char vf_bhmem0[VF_BHSZ] __attribute__((aligned(8)));
static unsigned char vf_bhmem1[VF_BHSZ] __attribute__((aligned(8)));
static unsigned char vf_bhmem2[VF_BHSZ] __attribute__((aligned(8)));
#define VF_BH(k) ((struct buffer_head *) vf_bhmem##k)
static int vf_jheld;
struct vf_slot { int dirty, uptodate; unsigned long long blocknr; };
static struct vf_slot vf_s0, vf_s1, vf_s2;

static struct vf_slot *vf_slot_of(struct buffer_head *bh)
{
	if (bh == VF_BH(0)) return &vf_s0;
	if (bh == VF_BH(1)) return &vf_s1;
	return &vf_s2;
}

/* STUB: jbd2_journal_bmap is the identity (external journal, or an internal journal seen through its block map) */
int jbd2_journal_bmap(journal_t *journal, unsigned long block, unsigned long long *phys)
{
	if (block < journal->j_first || block >= journal->j_last)
		vf_j_range_viol++;	/* jread() for a block outside the circular log [j_first, j_last) */
	*phys = block;
	return 0;
}

/* STUB: getblk returns a fresh buffer (no cache, as in e2fsck/journal.c and debugfs/journal.c); b_data is not zeroed here: every use fills all B bytes first (journal read / memcpy of the logged block) */
struct buffer_head *getblk(kdev_t kdev, unsigned long long blocknr, int blocksize)
{
	struct buffer_head *bh;
	struct vf_slot *s;

	if (kdev->k_dev == K_DEV_FS) {
		bh = VF_BH(2);
		s = &vf_s2;
	} else {
		bh = vf_jheld ? VF_BH(1) : VF_BH(0);
		s = vf_jheld ? &vf_s1 : &vf_s0;
		vf_jheld++;
	}
	bh->b_size = blocksize;
	s->dirty = 0;
	s->uptodate = 0;
	s->blocknr = blocknr;
	return bh;
}

/* STUB: device read: journal block k -> buffer (reads of the fs device do not occur in recovery) */
static void stub_dev_read(struct buffer_head *bh, struct vf_slot *s)
{
	unsigned p, i;
	static unsigned char tmp[B];

	if (s == &vf_s2)
		return;
	if (s->blocknr >= NJ) {
		vf_j_oob_reads++;
		return;
	}
	for (p = 0; p < NJ; p++)
		if (p == s->blocknr)
			for (i = 0; i < B; i++)
				tmp[i] = VF_JDEV[p * B + i];
	memcpy(bh->b_data, tmp, B);
}

/* STUB: device write: buffer -> filesystem block; a block number beyond the device is refused (the real io manager returns a short write, which brelse ignores) */
static int stub_dev_write(struct buffer_head *bh, struct vf_slot *s)
{
	unsigned p, i;

	if (s != &vf_s2) {
		vf_j_writes++;
		return 0;
	}
#ifdef VF_WRITE_FAULT
	if (vf_fs_writes + vf_fs_oob_writes == vf_fail_write_at) {
		vf_failed_writes++;
		vf_fs_writes++;
		return 1;
	}
#endif
	if (s->blocknr >= NFS) {
		vf_fs_oob_writes++;
		return 0;
	}
	vf_fs_writes++;
	if (vf_syncs)
		vf_writes_after_sync++;
#ifdef VF_DURABLE
	vf_unsynced++;
#endif
	for (p = 0; p < NFS; p++)
		if (p == s->blocknr)
			for (i = 0; i < B; i++)
				vf_fsdev[p * B + i] = (unsigned char) bh->b_data[i];
	return 0;
}

/* STUB: ll_rw_block / brelse / mark_buffer_* / wait_on_buffer restate e2fsck/journal.c (identical in debugfs/journal.c) over the arrays */
void ll_rw_block(int rw, int op_flags, int nr, struct buffer_head *bhp[])
{
	struct buffer_head *bh = bhp[0];
	struct vf_slot *s = vf_slot_of(bh);

	(void) op_flags; (void) nr;	/* recovery only ever passes nr == 1 */
	if (rw == REQ_OP_READ && !s->uptodate) {
		stub_dev_read(bh, s);
		s->uptodate = 1;
	} else if (rw == REQ_OP_WRITE && s->dirty) {
		if (stub_dev_write(bh, s))
			return;		/* the real layer records the error in b_err, which nobody reads */
		s->dirty = 0;
		s->uptodate = 1;
	}
}
void mark_buffer_dirty(struct buffer_head *bh) { vf_slot_of(bh)->dirty = 1; }
void mark_buffer_uptodate(struct buffer_head *bh, int val) { vf_slot_of(bh)->uptodate = val; }
int buffer_uptodate(struct buffer_head *bh) { return vf_slot_of(bh)->uptodate; }
void wait_on_buffer(struct buffer_head *bh)
{
	if (!vf_slot_of(bh)->uptodate)
		ll_rw_block(REQ_OP_READ, 0, 1, &bh);
}
void brelse(struct buffer_head *bh)
{
	if (vf_slot_of(bh)->dirty)
		ll_rw_block(REQ_OP_WRITE, 0, 1, &bh);
	if (bh != VF_BH(2))
		vf_jheld--;
}
/* STUB: sync_blockdev = io_channel_flush of the device: everything written so far becomes durable */
int sync_blockdev(kdev_t kdev)
{
	if (kdev->k_dev == K_DEV_FS) {
		vf_syncs++;
		vf_writes_after_sync = 0;
#ifdef VF_DURABLE
		{
			int i;
			for (i = 0; i < NFS * B; i++)
				vf_durable[i] = vf_fsdev[i];
			vf_unsynced = 0;
		}
#endif
	}
	return 0;
}

#ifndef DEBUGFS
e2fsck_t e2fsck_global_ctx;
/* STUB: fatal_error (only reachable from J_ASSERT) is a property violation */
void fatal_error(e2fsck_t ctx, const char *msg)
{
	(void) ctx; (void) msg;
	PROP(0, "J_ASSERT does not fire");
#ifdef VF_REPLAY
	abort();
#else
	__CPROVER_assume(0);
#endif
}
#endif

/* ------------------------------------------------------------------ checksum T-stubs */
#if FEAT_CSUM
static int vf_csum_partial;	/* a checksum call that did not cover exactly one whole journal block */
/* which journal block does this buffer hold? (descriptor/commit/revoke: slot 0, logged data block: slot 1) */
static __u32 stub_word_of(unsigned char const *buf)
{
	unsigned long long k = ((const char *) buf == VF_BH(0)->b_data) ? vf_s0.blocknr : vf_s1.blocknr;
	unsigned p;
	__u32 r = 0;
	for (p = 0; p < NJ; p++)
		if (p == k)
			r = VF_CSUM_WORD(p);
	return r;
}
#endif
#if FEAT_CSUM == 1
/* STUB: ext2fs_crc32_be (checksum v1: running crc over descriptor and data blocks) is the T-stub crc' = rotl(crc,1) ^ word(block), word(block) = one symbolic 32-bit value per journal block: order- and seed-sensitive, and "the commit block carries the right value" is a free predicate */
__u32 ext2fs_crc32_be(__u32 crc, unsigned char const *buf, size_t len)
{
	if (len != B)
		vf_csum_partial++;
	return ((crc << 1) | (crc >> 31)) ^ stub_word_of(buf);
}
#endif
#if FEAT_CSUM >= 2
#define VF_SEED 0x5eed0001u
/* STUB: ext2fs_crc32c_le (checksum v2/v3) over a whole journal block returns that block's symbolic word (T-stub: validity of every stored checksum is a free predicate per block); the running value (seed, or seed ^ sequence prefix for data blocks) is mixed in, so the wrong seed or sequence shows */
__u32 ext2fs_crc32c_le(__u32 crc, unsigned char const *buf, size_t len)
{
	if (len == 4)	/* the 4-byte sequence prefix of a data-block checksum: mixed into the running value */
		return crc ^ ((__u32) buf[0] | ((__u32) buf[1] << 8) | ((__u32) buf[2] << 16) | ((__u32) buf[3] << 24));
	if (len != B)
		vf_csum_partial++;
	return stub_word_of(buf) ^ (crc ^ VF_SEED);
}
#endif

/* ------------------------------------------------------------------ journal constructor */
static journal_t vf_journal;
static journal_superblock_t vf_jsb;

static void vf_put32(unsigned off, __u32 v)
{
	unsigned char *p = (unsigned char *) &vf_jsb;
	p[off] = (unsigned char) (v >> 24);
	p[off + 1] = (unsigned char) (v >> 16);
	p[off + 2] = (unsigned char) (v >> 8);
	p[off + 3] = (unsigned char) v;
}

#define VF_INCOMPAT ((FEAT_64BIT ? 2u : 0u) | (FEAT_ASYNC ? 4u : 0u) | \
	(FEAT_CSUM == 2 ? 8u : 0u) | (FEAT_CSUM == 3 ? 0x10u : 0u) | 1u)
#define VF_COMPAT (FEAT_CSUM == 1 ? 1u : 0u)

/* the state e2fsck_get_journal() + e2fsck_journal_load() (debugfs: ext2fs_get_journal + ext2fs_journal_load) leave behind
 * for a version-2 journal superblock written at the documented byte offsets */
static void vf_make_journal(__u32 s_first, __u32 s_sequence, __u32 s_start)
{
	vf_put32(0x00, 0xc03b3998u);
	vf_put32(0x04, 4);		/* JBD2_SUPERBLOCK_V2 */
	vf_put32(0x0c, B);
	vf_put32(0x10, NJ);		/* s_maxlen */
	vf_put32(0x14, s_first);
	vf_put32(0x18, s_sequence);
	vf_put32(0x1c, s_start);
	vf_put32(0x24, VF_COMPAT);
	vf_put32(0x28, VF_INCOMPAT);
	vf_put32(0x2c, 0);
	vf_kdev_fs.k_dev = K_DEV_FS;
	vf_kdev_j.k_dev = K_DEV_JOURNAL;
	vf_journal.j_superblock = &vf_jsb;
	vf_journal.j_format_version = 2;
	vf_journal.j_blocksize = B;
	vf_journal.j_total_len = NJ;
	vf_journal.j_dev = &vf_kdev_j;
	vf_journal.j_fs_dev = &vf_kdev_fs;
	vf_journal.j_tail_sequence = s_sequence;
	vf_journal.j_transaction_sequence = s_sequence;
	vf_journal.j_tail = s_start;
	vf_journal.j_first = s_first;
	vf_journal.j_last = NJ;
#if FEAT_CSUM >= 2
	vf_journal.j_csum_seed = VF_SEED;
#endif
}
