META = {
    "assumptions": ["allocation failure out of scope (--no-malloc-may-fail)"],
    "outside": [],
}

B = 64
FS = ["--max-field-sensitivity-array-size", "128", "--object-bits", "10"]

def tagbytes(cfg):
    cs, b64 = cfg.get("FEAT_CSUM", 0), cfg.get("FEAT_64BIT", 0)
    if cs == 3:
        return 16
    if cs == 2:
        return 14 if b64 else 10
    return 12 if b64 else 8

def uw(cfg, nmain=6):
    """loop bounds derived from the geometry of the query"""
    nj, nfs = cfg.get("NJ", 6), cfg.get("NFS", 4)
    walk = cfg.get("REF_MAXWALK", 2 * (nj - 1))
    tail = 4 if cfg.get("FEAT_CSUM", 0) >= 2 else 0
    maxt = (B - tail - 12) // tagbytes(cfg)
    maxrev = cfg.get("REF_MAXREV", 2)
    maxr = maxrev * cfg.get("REF_MAXRB", 2)
    big = max(nj, nfs) * B + 1
    l = ["main.%d:%d" % (i, big) for i in range(nmain)]
    l += ["ref_walk.0:%d" % (walk + 1), "ref_parse_tags.0:%d" % (maxt + 2), "ref_parse_tags.1:%d" % (B // 2),
          "ref_load.0:%d" % (B + 1), "ref_load.1:%d" % (nj + 1),
          "ref_collect_revokes.0:%d" % (maxr + 1), "ref_collect_revokes.1:%d" % (maxr + 1),
          "ref_collect_revokes.2:%d" % (maxr + 1), "ref_collect_revokes.3:%d" % (B // 4), "ref_collect_revokes.4:%d" % (walk + 1),
          "ref_revoked_by_table.0:%d" % (maxr + 1),
          "ref_replay.0:%d" % (B + 1), "ref_replay.1:%d" % (nfs + 1), "ref_replay.2:%d" % (maxt + 2),
          "ref_replay.3:%d" % (walk + 1),
          "stub_dev_write.0:%d" % (B + 1), "stub_dev_write.1:%d" % (nfs + 1),
          "stub_dev_read.0:%d" % (B + 1), "stub_dev_read.1:%d" % (nj + 1), "getblk.0:%d" % (B + 1),
          "sync_blockdev.0:%d" % (nfs * B + 1),
          "do_one_pass.19:%d" % (walk + 1), "do_one_pass.14:%d" % (maxt + 1), "count_tags.0:%d" % (maxt + 1),
          "calc_chksums.1:%d" % (maxt + 1), "scan_revoke_records.0:%d" % (maxrev + 1)]
    return l

def rt_uw(nset, hs):
    return ["stub_hash_64.0:%d" % (nset + 1), "main.0:%d" % (nset + 1), "main.1:%d" % (nset + 1), "find_revoke_record.0:%d" % (nset + 1),
            "jbd2_journal_init_revoke_table.0:%d" % (hs + 1), "jbd2_journal_init_revoke_table.2:%d" % (hs + 1),
            "jbd2_journal_clear_revoke.0:%d" % (nset + 1), "jbd2_journal_clear_revoke.1:%d" % (hs + 1),
            "jbd2_journal_destroy_revoke_table.1:%d" % (hs + 1)]

def rv_uw(maxr, hs):
    return ["find_revoke_record.0:%d" % (maxr + 1),
            "jbd2_journal_init_revoke_table.0:%d" % (hs + 1), "jbd2_journal_init_revoke_table.2:%d" % (hs + 1),
            "jbd2_journal_clear_revoke.0:%d" % (maxr + 1), "jbd2_journal_clear_revoke.1:%d" % (hs + 1),
            "jbd2_journal_destroy_revoke_table.1:%d" % (hs + 1)]

def cfgs(base_list):
    out = []
    for c in base_list:
        c = dict(c)
        c["_unwindset"] = uw(c) + c.get("_unwindset", [])
        out.append(c)
    return out

HARNESSES = [
    dict(name="scan", src="scan.c",
         funcs=["do_one_pass", "count_tags", "jread"],
         configs=cfgs([{"FEAT_64BIT": 0, "REF_MAXWALK": 4}, {"FEAT_64BIT": 1, "REF_MAXWALK": 6}]),
         unwind=3, cbmc_flags=FS,
         backends=["default", "kissat"],
         bound="journal of 6 blocks of 64 bytes, every byte symbolic; s_first, s_start, s_sequence symbolic; log walk <= 10 header blocks"),
    dict(name="revoke_table", src="revoke_table.c",
         funcs=["jbd2_journal_set_revoke", "jbd2_journal_test_revoke", "find_revoke_record", "insert_revoke_hash",
                "jbd2_journal_clear_revoke", "jbd2_journal_init_revoke", "jbd2_journal_destroy_revoke"],
         configs=[{"NSET": 3, "HASHSZ": 2, "_unwindset": rt_uw(3, 2)}],
         unwind=3, cbmc_flags=FS,
         backends=["default", "kissat"],
         bound="3 set_revoke calls with arbitrary block/sequence, 2 hash buckets"),
    dict(name="revoke_pass", src="revoke_pass.c",
         funcs=["do_one_pass", "scan_revoke_records", "count_tags", "jread"],
         configs=cfgs([{"FEAT_64BIT": 0, "FIRST": 1, "REF_MAXWALK": 4}]),
         unwind=3, cbmc_flags=FS,
         backends=["default", "kissat"],
         bound=""),
    dict(name="replay_pass", src="replay_pass.c",
         funcs=["do_one_pass", "read_tag_block", "jread"],
         configs=cfgs([{"FEAT_64BIT": 0, "FIRST": 1, "REF_MAXWALK": 4, "_unwindset": ["ref_revoked_in.0:3", "jbd2_journal_test_revoke.0:3"]}]),
         unwind=3, cbmc_flags=FS,
         backends=["default", "kissat"],
         bound=""),
]
MANIFEST = {"text": "", "note": ""}
