META = {
    "assumptions": [
        "allocation failure out of scope (--no-malloc-may-fail)",
        "buffer layer (getblk/ll_rw_block/brelse/mark_buffer_*/sync_blockdev/jbd2_journal_bmap) is the harness's restatement of "
        "e2fsck/journal.c / debugfs/journal.c over byte arrays (no cache, dirty buffer written on release, bmap = identity); "
        "device reads and writes succeed",
        "journal geometry valid: version-2 journal superblock, 1 <= s_first < s_maxlen-1, s_first <= s_start < s_maxlen, "
        "s_maxlen == j_total_len (what e2fsck_journal_load leaves behind; it does not check s_first / s_start)",
        "no replayed block number falls inside the journal itself (journal and filesystem are separate arrays)",
        "the log walk terminates (reference finds the end of the log within REF_MAXWALK header blocks) and no descriptor claims "
        "as many data blocks as the log has blocks",
        "composition: scan (end of log) + revoke_pass (records handed to the table) + revoke_table (table == 'revoked in this or a "
        "later transaction') + replay_pass (replay given end of log and revoke predicate) imply the three-pass property; recover checks "
        "the real three-pass glue end to end at a smaller bound with the table replaced by its specification",
    ],
    "outside": [
        "checksummed journals are decided per pass only (scan: v1 sync+async, v2, v3 with the commit-time rule for stale blocks; replay: v1, "
        "v2, v3 tag checksums, thorough tier) with the crc primitives as T-stubs (one symbolic word per journal block); NOT covered: the "
        "async_commit with MORE THAN ONE checksum-invalid commit block in the log (v2/v3: a later failure moves end_transaction forward, "
        "so the first invalid transaction would be replayed; assumed away, reported), the three-pass recover harness with checksums only "
        "at the small bound in the thorough tier (v2 and v1 with async_commit), what do_one_pass does with further blocks carrying the id of a commit it just reported as failed (it leaves only the "
        "switch, not the loop), transaction id 0 (used as 'unset' for end_transaction / j_failed_commit), real CRC values",
        "fast commit (j_fc_replay_callback == NULL), version-1 journal superblocks, external-journal device plumbing, jbd2_journal_bmap through an inode",
        "block sizes >= 1024 (tag capacity per descriptor > 6), logs longer than 7 blocks, more than 2 revoke blocks x 3 records",
        "e2fsck_journal_load / ext2fs_journal_load / *_get_journal (journal location, superblock validation); the e2fsck front-end's "
        "ordering is harness C04/protocol, the debugfs front-end's is dbg_protocol here (event-level: flush / recover / reset / free / "
        "re-open order, flags, error propagation), both over the specification of jbd2_journal_recover that order/recover establish",
        "the real revoke hash table inside the three-pass query (memory): replaced there by its specification, proven separately",
        "the real hash_64 value (only its range is decided; revoke_table holds for every hash function)",
        "I/O errors during recovery (a failed replay write is recorded in b_err, which nobody reads)",
        "termination on cyclic logs: a ring of descriptor/revoke blocks that all carry the expected sequence and contain no commit "
        "block makes do_one_pass() loop forever (same in the kernel); assumed away, reported as an observation",
    ],
}

FS = ["--max-field-sensitivity-array-size", "128", "--object-bits", "10"]

def tagbytes(cfg):
    cs, b64 = cfg.get("FEAT_CSUM", 0), cfg.get("FEAT_64BIT", 0)
    if cs == 3:
        return 16
    if cs == 2:
        return 14 if b64 else 10
    return 12 if b64 else 8

def uw(cfg, nmain=6):
    """loop bounds derived from the geometry of the query"""
    B = cfg.get("B", 64)
    nj, nfs = cfg.get("NJ", 6), cfg.get("NFS", 4)
    walk = cfg.get("REF_MAXWALK", 2 * (nj - 1))
    tail = 4 if cfg.get("FEAT_CSUM", 0) >= 2 else 0
    maxt = (B - tail - 12) // tagbytes(cfg)
    maxrev = cfg.get("REF_MAXREV", 2)
    maxr = maxrev * cfg.get("REF_MAXRB", 2)
    big = max(nj, nfs) * B + 1
    l = ["main.%d:%d" % (i, big) for i in range(nmain)]
    l += ["ref_walk.0:%d" % (max(walk, maxt + 1) + 1), "ref_walk.1:%d" % (max(walk, maxt + 1) + 1),
          "ref_blk_csum.0:%d" % (nj + 1), "stub_word_of.0:%d" % (nj + 1), "ref_parse_tags.0:%d" % (maxt + 2), "ref_parse_tags.1:%d" % (B // 2),
          "ref_load.0:%d" % (B + 1), "ref_load.1:%d" % (nj + 1),
          "ref_collect_revokes.0:%d" % (maxr + 1), "ref_collect_revokes.1:%d" % (maxr + 1),
          "ref_collect_revokes.2:%d" % (maxr + 1), "ref_collect_revokes.3:%d" % (B // 4), "ref_collect_revokes.4:%d" % (walk + 1),
          "ref_revoked_by_table.0:%d" % (maxr + 1),
          "ref_replay.0:%d" % (B + 1), "ref_replay.1:%d" % (nfs + 1), "ref_replay.2:%d" % (maxt + 2),
          "ref_replay.3:%d" % (walk + 1),
          "stub_dev_write.0:%d" % (B + 1), "stub_dev_write.1:%d" % (nfs + 1),
          "stub_dev_read.0:%d" % (B + 1), "stub_dev_read.1:%d" % (nj + 1), "getblk.0:%d" % (B + 1),
          "sync_blockdev.0:%d" % (nfs * B + 1),
          "do_one_pass.19:%d" % (walk + 1), "do_one_pass.14:%d" % (maxt + 1),
          # -DDEBUGFS: J_ASSERT is assert(), not a do-while(0): the two real loops are numbered one lower
          "do_one_pass.18:%d" % (walk + 1), "do_one_pass.13:%d" % (maxt + 1), "count_tags.0:%d" % (maxt + 1),
          "calc_chksums.1:%d" % (maxt + 1), "calc_chksums.0:%d" % (maxt + 1), "scan_revoke_records.0:%d" % (maxrev + 1)]
    return l

def rt_uw(nset, hs):
    return ["stub_hash_64.0:%d" % (nset + 1), "main.0:%d" % (nset + 1), "main.1:%d" % (nset + 1), "find_revoke_record.0:%d" % (nset + 1),
            "jbd2_journal_init_revoke_table.0:%d" % (hs + 1), "jbd2_journal_init_revoke_table.2:%d" % (hs + 1),
            "jbd2_journal_clear_revoke.0:%d" % (nset + 1), "jbd2_journal_clear_revoke.1:%d" % (hs + 1),
            "jbd2_journal_destroy_revoke_table.1:%d" % (hs + 1)]

def rv_uw(maxr, hs):
    return ["find_revoke_record.0:%d" % (maxr + 1),
            "jbd2_journal_init_revoke_table.0:%d" % (hs + 1), "jbd2_journal_init_revoke_table.2:%d" % (hs + 1),
            "jbd2_journal_clear_revoke.0:%d" % (maxr + 1), "jbd2_journal_clear_revoke.1:%d" % (hs + 1),
            "jbd2_journal_destroy_revoke_table.1:%d" % (hs + 1)]

def rm_uw(maxr):
    return ["jbd2_journal_set_revoke.0:%d" % (maxr + 2), "jbd2_journal_set_revoke.1:%d" % (maxr + 2),
            "jbd2_journal_test_revoke.0:%d" % (maxr + 2)]

RQ = ["ref_revoked_in.0:3", "jbd2_journal_test_revoke.0:3"]

def cfgs(base_list):
    out = []
    for c in base_list:
        c = dict(c)
        c["_unwindset"] = uw(c) + c.get("_unwindset", [])
        out.append(c)
    return out

Q = {"FIRST": 1}
T = {"_tier": "thorough"}

HARNESSES = [
    dict(name="scan", src="scan.c",
         funcs=["do_one_pass", "count_tags", "jread"],
         configs=cfgs([dict(Q, FEAT_64BIT=0, REF_MAXWALK=4),
                       dict(Q, FEAT_64BIT=1, REF_MAXWALK=4),
                       # checksummed journals: v1 (COMPAT_CHECKSUM, PASS_SCAN walks data blocks in calc_chksums), v2, v3
                       dict(Q, FEAT_64BIT=0, FEAT_CSUM=1, REF_MAXWALK=3),
                       dict(Q, FEAT_64BIT=0, FEAT_CSUM=1, REF_MAXWALK=4, **T),
                       dict(Q, FEAT_64BIT=0, FEAT_CSUM=1, FEAT_ASYNC=1, REF_MAXWALK=4, **T),
                       dict(Q, FEAT_64BIT=0, FEAT_CSUM=2, REF_MAXWALK=4),
                       # async_commit: the scan looks past a checksum-invalid commit block, the log still ends there
                       dict(Q, FEAT_64BIT=0, FEAT_CSUM=2, FEAT_ASYNC=1, REF_MAXWALK=4),
                       dict(Q, FEAT_64BIT=1, FEAT_CSUM=3, FEAT_ASYNC=1, REF_MAXWALK=4, **T),
                       dict(Q, FEAT_64BIT=1, FEAT_CSUM=3, REF_MAXWALK=4, **T),
                       dict(Q, FEAT_64BIT=0, REF_MAXWALK=6, **T),
                       dict(FEAT_64BIT=0, REF_MAXWALK=4, **T),          # s_first symbolic
                       dict(Q, FEAT_64BIT=0, NJ=8, REF_MAXWALK=5, **T)]),
         unwind=3, cbmc_flags=FS, backends=["default", "kissat"], cap_quick=200,
         bound="journal of 6 (thorough: 8) blocks of 64 bytes, every byte symbolic (up to 6 tags per descriptor); s_start, s_sequence "
               "symbolic, s_first 1 (thorough: symbolic); log walk <= 4 (thorough: 6) header blocks; tag size 8 and 12 (64bit); "
               "checksum v1 (walk 3; thorough 4, async), v2 (10-byte tags; also with async_commit), v3 (16-byte tags; thorough, also async) "
               "with one symbolic checksum word per block"),
    dict(name="revoke_table", src="revoke_table.c",
         funcs=["jbd2_journal_set_revoke", "jbd2_journal_test_revoke", "find_revoke_record", "insert_revoke_hash",
                "jbd2_journal_clear_revoke", "jbd2_journal_init_revoke", "jbd2_journal_destroy_revoke"],
         configs=[{"NSET": 3, "HASHSZ": 2, "_unwindset": rt_uw(3, 2)},
                  {"NSET": 4, "HASHSZ": 4, "_unwindset": rt_uw(4, 4), "_tier": "thorough"}],
         unwind=3, cbmc_flags=FS, backends=["default", "kissat"],
         bound="3 (thorough: 4) set_revoke calls with arbitrary 64-bit block numbers and sequence numbers, 2 (4) hash buckets, arbitrary hash function"),
    dict(name="hash_range", src="hash_range.c", funcs=["hash"],
         unwind=3, cbmc_flags=FS, backends=["default", "z3"],
         bound="every 64-bit block number, table sizes 2^1..2^20"),
    dict(name="revoke_pass", src="revoke_pass.c",
         funcs=["do_one_pass", "scan_revoke_records", "count_tags", "jread"],
         configs=cfgs([dict(Q, FEAT_64BIT=0, REF_MAXWALK=4),
                       dict(Q, FEAT_64BIT=1, REF_MAXWALK=4, **T),
                       dict(Q, FEAT_64BIT=0, REF_MAXWALK=5, REF_MAXREV=3, **T)]),
         unwind=3, cbmc_flags=FS, backends=["default", "kissat"], cap_quick=200,
         bound="journal of 6 blocks of 64 bytes, every byte symbolic; log walk <= 4 header blocks; <= 2 revoke blocks in committed "
               "transactions with <= 2 (thorough: 3) records each; 4- and 8-byte records"),
    dict(name="replay_pass", src="replay_pass.c",
         funcs=["do_one_pass", "read_tag_block", "jread"],
         configs=cfgs([dict(Q, FEAT_64BIT=0, START=1, B=40, REF_MAXWALK=3, _unwindset=RQ),
                       dict(Q, FEAT_64BIT=0, START=4, B=40, REF_MAXWALK=3, _unwindset=RQ, **T),
                       dict(Q, FEAT_64BIT=1, START=1, B=40, REF_MAXWALK=3, _unwindset=RQ, **T),
                       dict(Q, FEAT_64BIT=0, B=40, REF_MAXWALK=3, _unwindset=RQ, **T),
                       dict(Q, FEAT_64BIT=0, START=1, B=64, REF_MAXWALK=3, _unwindset=RQ, **T),
                       # checksummed journals (64-byte blocks: a commit header must fit); v2/v3: per-block tag checksums
                       dict(Q, FEAT_64BIT=0, FEAT_CSUM=1, START=4, B=64, REF_MAXWALK=3, _unwindset=RQ, **T),
                       dict(Q, FEAT_64BIT=0, FEAT_CSUM=2, START=1, B=64, REF_MAXWALK=3, _unwindset=RQ, **T),
                       dict(Q, FEAT_64BIT=1, FEAT_CSUM=3, START=1, B=64, REF_MAXWALK=3, _unwindset=RQ, **T)]),
         unwind=3, cbmc_flags=FS, backends=["kissat", "default"], cap_quick=200,
         bound="journal of 6 blocks of 40 bytes (<= 3 tags per descriptor; thorough: 64 bytes, 6 tags), filesystem of 4 blocks, every byte "
               "symbolic; log walk <= 3 header blocks (two transactions); revoke set of 2 arbitrary (block, transaction) pairs; "
               "s_start 1 (thorough: 4 = data blocks wrap, and symbolic)"),
    dict(name="recover", src="recover.c",
         funcs=["jbd2_journal_recover", "do_one_pass", "scan_revoke_records", "count_tags", "read_tag_block", "jread"],
         # the e2fsck flavour runs in the quick tier as harness "order" (same source + durable store, every assertion of recover included)
         configs=cfgs([dict(Q, FEAT_64BIT=0, START=1, B=32, NFS=3, REF_MAXWALK=3, REF_MAXREV=1, REF_MAXRB=1, DEBUGFS=None, _unwindset=rm_uw(1)),
                       dict(Q, FEAT_64BIT=0, START=1, B=32, NFS=3, REF_MAXWALK=3, REF_MAXREV=1, REF_MAXRB=1, _unwindset=rm_uw(1), **T),
                       dict(Q, FEAT_64BIT=0, START=3, B=40, NFS=3, REF_MAXWALK=4, REF_MAXREV=2, REF_MAXRB=1, _unwindset=rm_uw(2), **T),
                       dict(Q, FEAT_64BIT=1, START=1, B=32, NFS=3, REF_MAXWALK=3, REF_MAXREV=1, REF_MAXRB=1, _unwindset=rm_uw(1), **T),
                       # checksummed + async_commit, whole three-pass function (64-byte blocks: a commit header must fit)
                       dict(Q, FEAT_64BIT=0, FEAT_CSUM=2, FEAT_ASYNC=1, START=1, B=64, NFS=3, REF_MAXWALK=3, REF_MAXREV=1, REF_MAXRB=1, _unwindset=rm_uw(1), **T),
                       dict(Q, FEAT_64BIT=0, FEAT_CSUM=1, FEAT_ASYNC=1, START=1, B=64, NFS=3, REF_MAXWALK=3, REF_MAXREV=1, REF_MAXRB=1, _unwindset=rm_uw(1), **T)]),
         unwind=3, cbmc_flags=FS, backends=["kissat", "default"], cap_quick=300,
         bound="journal of 6 blocks of 40 bytes, filesystem of 3 blocks, every byte symbolic; log walk <= 3 header blocks; <= 1 revoke "
               "block with 1 record; s_start 1; e2fsck and DEBUGFS flavours"),
    dict(name="order", src="order.c",
         funcs=["jbd2_journal_recover", "do_one_pass", "scan_revoke_records", "count_tags", "read_tag_block", "jread"],
         configs=cfgs([dict(Q, FEAT_64BIT=0, START=1, B=32, NFS=3, REF_MAXWALK=3, REF_MAXREV=1, REF_MAXRB=1, _unwindset=rm_uw(1))]),
         unwind=3, cbmc_flags=FS, backends=["kissat", "default"], cap_quick=300,
         bound="as recover; filesystem device split into volatile and durable stores"),
    dict(name="dbg_protocol", src="dbg_protocol.c", defs=["DEBUGFS"],
         cut_statics={"debugfs/journal.c": ["ext2fs_get_journal", "ext2fs_journal_load"]},
         funcs=["ext2fs_run_ext3_journal", "recover_ext3_journal", "ext2fs_journal_release", "ext2fs_clear_recover",
                "ext2fs_check_ext3_journal", "brelse", "ll_rw_block"],
         unwind=4, unwindset=["main.%d:22" % i for i in range(6)] + ["vf_log.0:22", "jbd2_journal_recover.0:5", "ll_rw_block.0:3"],
         backends=["default", "kissat"],
         bound="0..3 replay writes; dirty/clean, read-only/read-write handle; outcome of journal load, recovery, re-open and final "
               "journal check symbolic; journal on the filesystem channel or on its own channel"),
]
MANIFEST = {
    "text": "Bounded-exhaustive differential check of JBD2 journal recovery (recovery.c / revoke.c, e2fsck and debugfs flavours) against a "
            "reference model that reads the bytes of the journal image: for every journal content within the stated bounds (every byte "
            "of every block symbolic, symbolic log head and first sequence number, log wrap, 32/64-bit tags, escaped blocks, "
            "uncommitted / wrongly-sequenced suffixes, revoke records) the end of the log, the revoke set and the replayed filesystem "
            "bytes equal the reference's, blocks outside committed unrevoked transactions are untouched, the log restarts past the "
            "first uncommitted id, and all replayed data is flushed before recovery returns. Decided per pass at the larger bound and "
            "for the whole three-pass function at a smaller one. Checksummed journals (v1/v2/v3) per pass with the CRC as a per-block "
            "symbolic word. The debugfs front-end's effect order (flush of the stale handle before the replay, journal reset after "
            "the synced replay, stale handle dropped without a flush, re-open, flags, errors) is decided on the real ext2fs_run_ext3_journal.",
    "note": "Trusted: CBMC's C semantics, the array-backed buffer layer, the reference model (jbd2_ref.h, written from the on-disk format). "
            "Real CRC values, fast commit, journal loading/validation are outside. "
            "Blocks are 32-64 bytes, logs <= 7 blocks; bounds per harness in the evidence.",
}
