/*
 * C03/revoke_model.h -- specification stub of the revoke table interface
 * (jbd2_journal_set_revoke / test_revoke / clear_revoke), used where the real
 * pointer-linked hash table of revoke.c makes the whole-recovery query too large.
 * revoke_table.c proves that the real table implements exactly this behaviour.
 */
#ifndef VF_RM_MAX
#define VF_RM_MAX (REF_MAXR_CFG + 1)
#endif
static unsigned long long stub_rm_blk[VF_RM_MAX];
static tid_t stub_rm_seq[VF_RM_MAX];
static int stub_rm_n, stub_rm_overflow, stub_rm_cleared;

/* STUB: jbd2_journal_set_revoke keeps, per block, the newest sequence (array-backed model of the hash table) */
int jbd2_journal_set_revoke(journal_t *j, unsigned long long b, tid_t s)
{
	int k, found = 0;
	(void) j;
	for (k = 0; k < VF_RM_MAX; k++)
		if (k < stub_rm_n && stub_rm_blk[k] == b) {
			found = 1;
			if ((int) (s - stub_rm_seq[k]) > 0)
				stub_rm_seq[k] = s;
		}
	if (!found) {
		if (stub_rm_n >= VF_RM_MAX)
			stub_rm_overflow = 1;
		for (k = 0; k < VF_RM_MAX; k++)
			if (k == stub_rm_n) {
				stub_rm_blk[k] = b;
				stub_rm_seq[k] = s;
			}
		stub_rm_n++;
	}
	return 0;
}
/* STUB: jbd2_journal_test_revoke: revoked iff a record for the block exists whose sequence is not older than the asked one */
int jbd2_journal_test_revoke(journal_t *j, unsigned long long b, tid_t s)
{
	int k, r = 0;
	(void) j;
	for (k = 0; k < VF_RM_MAX; k++)
		if (k < stub_rm_n && stub_rm_blk[k] == b && (int) (s - stub_rm_seq[k]) <= 0)
			r = 1;
	return r;
}
/* STUB: jbd2_journal_clear_revoke empties the table */
void jbd2_journal_clear_revoke(journal_t *j)
{
	(void) j;
	stub_rm_n = 0;
	stub_rm_cleared++;
}
