/*
 * C03/replay_pass: PASS_REPLAY of the real do_one_pass() (recovery.c) on an
 * ARBITRARY journal image and an ARBITRARY filesystem, given (a) the end of the
 * log computed by the reference (scan.c proves PASS_SCAN computes the same) and
 * (b) an ARBITRARY revoke set behind jbd2_journal_test_revoke() (revoke_pass.c +
 * revoke_table.c prove which set the real table holds).  Afterwards every byte
 * of the filesystem equals the reference's replay: each block logged by a
 * committed transaction carries its image from the last such transaction that is
 * not cancelled by a revoke in the same or a later transaction (escaped blocks
 * get the magic number back), everything else is untouched.
 */
#include "jcfg.h"
#ifndef NREVQ
#define NREVQ 2
#endif
struct vf_in {
	unsigned char j[NJ * B];
	unsigned char fs[NFS * B];
	unsigned int s_start, s_sequence, s_first;
#if FEAT_CSUM
	unsigned int csum[NJ];		/* "the checksum of journal block k" */
#endif
	unsigned long long rblk[NREVQ];		/* the revoke set: block rblk[k] is revoked up to transaction ordinal rord[k] */
	unsigned int rord[NREVQ];
};
VF_DECLARE_INPUT(struct vf_in, IN)
#include "vf_input.inc"
#define VF_NO_REVOKE
#define VF_CSUM_WORD(k) IN.csum[k]
#define REF_CSUM(k) IN.csum[k]
#define REF_SEQ0 IN.s_sequence
#include "jgeom.h"
#include "jenv.h"

static int ref_revoked_in(unsigned long long blk, unsigned ord)
{
	int k, r = 0;
	for (k = 0; k < NREVQ; k++)
		if (IN.rblk[k] == blk && IN.rord[k] >= ord)
			r = 1;
	return r;
}
#define REF_REVOKED(blk, ord) ref_revoked_in(blk, ord)
#include "jbd2_ref.h"

/* STUB: jbd2_journal_test_revoke answers from the symbolic revoke set (specification of the table: revoked iff a record for the block exists with a sequence not older than the asked one) */
int jbd2_journal_test_revoke(journal_t *j, unsigned long long b, tid_t s)
{
	int k, r = 0;
	(void) j;
	for (k = 0; k < NREVQ; k++)
		if (IN.rblk[k] == b && (int) (s - (IN.s_sequence + IN.rord[k])) <= 0)
			r = 1;
	return r;
}
int jbd2_journal_set_revoke(journal_t *j, unsigned long long b, tid_t s) { (void) j; (void) b; (void) s; PROP(0, "PASS_REPLAY does not modify the revoke table"); return 0; }
void jbd2_journal_clear_revoke(journal_t *j) { (void) j; }

int main(void)
{
	static struct recovery_info info;
	int rc, i;

	VF_INPUT(IN);
	VF_ASSUME_GEOMETRY();
	for (i = 0; i < NFS * B; i++) {
		vf_fsdev[i] = IN.fs[i];
		ref_fs[i] = IN.fs[i];
	}
	/* BOUND: revoke records belong to transactions within 2^30 ids of s_sequence */
	for (i = 0; i < NREVQ; i++)
		ASSUME(IN.rord[i] < (1u << 30));
#if FEAT_CSUM
	/* ASSUME: transaction ids in the log are not 0 (see scan.c) */
	ASSUME(IN.s_sequence >= 1 && IN.s_sequence < 0xffffff00u);
#endif
	vf_make_journal(VF_FIRST, IN.s_sequence, VF_START);

	ref_walk(IN.s_sequence);
	/* ASSUME: the log walk ends within REF_MAXWALK header blocks */
	ASSUME(ref_terminated);
	ASSUME(ref_bound_ok);
#if FEAT_CSUM
	/* the scan did not fail (else recovery stops before the replay pass) */
	ASSUME(!ref_scan_error);
#endif
	ref_replay();

	info.start_transaction = IN.s_sequence;
	info.end_transaction = IN.s_sequence + ref_end_ord;
	rc = do_one_pass(&vf_journal, &info, PASS_REPLAY);

	if (ref_data_csum_failed)
		PROP(rc != 0, "a logged block failing its checksum makes recovery report failure");
	else
		PROP(rc == 0, "replay pass succeeds");
	for (i = 0; i < NFS * B; i++)
		PROP(vf_fsdev[i] == ref_fs[i], "filesystem after replay == reference (committed, unrevoked, last image wins; everything else untouched)");
	PROP(info.nr_replays == (int) ref_nreplayed, "number of replayed blocks");
	PROP(vf_fs_writes + vf_fs_oob_writes == (int) ref_nreplayed, "one device write per replayed block");
	PROP(vf_j_writes == 0, "the journal is not written");
	PROP(vf_j_oob_reads == 0 && vf_jheld == 0, "reads stay inside the journal, buffers are released");
	VF_END();
	return 0;
}
