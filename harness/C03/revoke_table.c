/*
 * C03/revoke_table: the real revoke hash table of revoke.c as used by recovery:
 * jbd2_journal_init_revoke, jbd2_journal_set_revoke (find_revoke_record /
 * insert_revoke_hash), jbd2_journal_test_revoke, jbd2_journal_clear_revoke,
 * jbd2_journal_destroy_revoke.  NSET arbitrary (block, sequence) records are set
 * in an arbitrary order, then an arbitrary (block, sequence) question is asked:
 * the answer is "revoked" iff some record for that block has a sequence that is
 * not older than the question's (sequence numbers compared modulo 2^32 as the
 * journal does: a is newer than b iff 0 < a - b < 2^31).
 */
#include "jcfg.h"
#ifndef NSET
#define NSET 3
#endif
struct vf_in {
	unsigned long long blk[NSET];
	unsigned int seq[NSET];
	unsigned long long qblk;
	unsigned int qseq;
	unsigned int base;
	unsigned char h[NSET + 1];	/* the hash function: one arbitrary value per distinct block number */
};
VF_DECLARE_INPUT(struct vf_in, IN)
#include "vf_input.inc"
static unsigned char vf_nojournal[NJ * B];
#define VF_JDEV vf_nojournal
#define VF_OWN_HASH
#include "jenv.h"

/* STUB: the hash is an ARBITRARY function of the block number with values below 2^bits: the value is taken from a symbolic table at the first position where this block number occurs among the blocks of the run */
static __u32 stub_hash_64(__u64 val, unsigned int bits)
{
	int k;
	__u32 r = IN.h[NSET];
	for (k = NSET - 1; k >= 0; k--)
		if (IN.blk[k] == val)
			r = IN.h[k];
	return r & ((1u << bits) - 1);
}

int main(void)
{
	int rc, k, q, ref = 0;

	VF_INPUT(IN);
	vf_make_journal(1, 0, 0);
	rc = jbd2_journal_init_revoke_record_cache();
	PROP(rc == 0, "record cache");
	rc = jbd2_journal_init_revoke_table_cache();
	PROP(rc == 0, "table cache");
	rc = jbd2_journal_init_revoke(&vf_journal, HASHSZ);
	PROP(rc == 0, "init revoke");
#if !FEAT_64BIT
	/* BOUND: without the 64bit feature block numbers are 32 bit */
	ASSUME(IN.qblk <= 0xffffffffu);
#endif
	/* ASSUME: all sequence numbers of one recovery lie within 2^30 of each other (a log holds far fewer transactions), so the modular order is a total order */
	ASSUME(IN.qseq - IN.base < (1u << 30));
	for (k = 0; k < NSET; k++) {
		ASSUME(IN.seq[k] - IN.base < (1u << 30));
#if !FEAT_64BIT
		ASSUME(IN.blk[k] <= 0xffffffffu);
#endif
		rc = jbd2_journal_set_revoke(&vf_journal, IN.blk[k], IN.seq[k]);
		PROP(rc == 0, "set_revoke succeeds");
		if (IN.blk[k] == IN.qblk && IN.seq[k] - IN.base >= IN.qseq - IN.base)
			ref = 1;
	}
	q = jbd2_journal_test_revoke(&vf_journal, IN.qblk, IN.qseq);
	PROP((q != 0) == ref, "revoked iff a record for the block exists in the same or a later transaction");
	jbd2_journal_clear_revoke(&vf_journal);
	PROP(jbd2_journal_test_revoke(&vf_journal, IN.qblk, IN.qseq) == 0, "cleared table revokes nothing");
	jbd2_journal_destroy_revoke(&vf_journal);	/* J_ASSERT(list_empty) inside */
	VF_END();
	return 0;
}
