/*
 * C03/dbg_protocol: the order of effects of the libext2fs/debugfs journal
 * recovery front-end (pattern P).  Real code (debugfs/journal.c, -DDEBUGFS):
 * ext2fs_run_ext3_journal(), recover_ext3_journal(), ext2fs_journal_release(),
 * ext2fs_clear_recover(), ext2fs_check_ext3_journal(), brelse(), ll_rw_block(),
 * mark_buffer_dirty().
 *
 * Everything below that front-end is an event log: ext2fs_flush / ext2fs_free /
 * ext2fs_close / ext2fs_open / ext2fs_mmp_stop record an event; the io channel
 * records journal-superblock writes; jbd2_journal_recover() is replaced by its
 * SPECIFICATION (harness order / recover: replay writes, then a sync, then
 * return 0 -- or a symbolic failure after some writes, without a sync).
 * Decided for every dirty/clean handle, every outcome of loading, recovering and
 * re-opening:
 *   - pending modifications of the open handle are flushed BEFORE the replay
 *     starts, with a SYNCING flush (no EXT2_FLAG_FLUSH_NO_SYNC), and never afterwards: no ext2fs_flush / ext2fs_close of the stale
 *     handle after jbd2_journal_recover() was entered (its in-memory group
 *     descriptors, bitmaps and superblock would overwrite replayed blocks);
 *   - the journal superblock is never written before recovery has returned, and
 *     when it is written with s_start == 0 after a successful recovery every
 *     replay write is already followed by a sync;
 *   - afterwards the stale handle is freed WITHOUT a flush and the filesystem is
 *     re-opened; the caller gets the new handle (or NULL and the error);
 *     needs_recovery is cleared in the new superblock, which is marked dirty
 *     (MASTER_SB_ONLY), VALID_FS is dropped iff recovery failed, a failed commit
 *     ends up as EXT2_ERROR_FS;
 *   - a read-only handle is refused without any effect; errors of recovery,
 *     re-open and the final journal check are returned.
 */
#include "config.h"
#include <stdio.h>
#include <stdlib.h>
#include <string.h>
#include "ext2fs/ext2_fs.h"
#include "ext2fs/ext2fs.h"
#define E2FSCK_INCLUDE_INLINE_FUNCS
#include "debugfs/journal.h"
static errcode_t ext2fs_get_journal(ext2_filsys fs, journal_t **ret_journal);
static errcode_t ext2fs_journal_load(journal_t *journal);
#include "debugfs/journal.c"

struct vf_in {
	long load_rc, recover_rc, open_rc, load2_rc;
	unsigned char nreplay;		/* replay writes issued by recovery (0..3) */
	unsigned char fail_after;	/* on failure: writes issued before giving up */
	unsigned char dirty, rw, separate_io, needs_recovery;
	__u32 seq, jstart, failed_commit;
	__u16 new_state;		/* s_state of the superblock read back by the re-open */
	__u16 old_state;
};
VF_DECLARE_INPUT(struct vf_in, IN)
#include "vf_input.inc"

#define EV_REPLAY 1
#define EV_SYNC 2
#define EV_JSB 3
#define EV_FLUSH_OLD 4
#define EV_RECOVER_ENTER 5
#define EV_RECOVER_EXIT 6
#define EV_FREE_OLD 7
#define EV_OPEN 8
#define EV_CLOSE 9
#define EV_MMP_STOP 10
#define EV_FLUSH_NEW 11
#define MAXEV 20
static int vf_ev[MAXEV], vf_nev, vf_jsb_start[MAXEV];
static __u32 vf_jsb_seq[MAXEV];

static void vf_log(int e, __u32 start, __u32 seq)
{
	int k;
	for (k = 0; k < MAXEV; k++)
		if (k == vf_nev) {
			vf_ev[k] = e;
			vf_jsb_start[k] = start;
			vf_jsb_seq[k] = seq;
		}
	vf_nev++;
}

static struct struct_ext2_filsys vf_fs_old, vf_fs_new;
static struct ext2_super_block vf_sb_old, vf_sb_new;
static struct struct_io_channel vf_fsio, vf_jio, vf_fsio_new;
static struct struct_io_manager vf_mgr;
/* the journal superblock "on disk": what the last write left there */
static __u32 vf_disk_start, vf_disk_seq;
static __s32 vf_disk_errno;
static int vf_get_journal_calls;

/* STUB: a write through a journal buffer's channel is a journal-superblock write (the only buffer this front-end owns): logged and remembered as the on-disk state */
errcode_t io_channel_write_blk64(io_channel ch, unsigned long long blk, int cnt, const void *data)
{
	const journal_superblock_t *jsb = data;
	(void) ch; (void) blk; (void) cnt;
	vf_log(EV_JSB, jsb->s_start, ntohl(jsb->s_sequence));
	vf_disk_start = ntohl(jsb->s_start);
	vf_disk_seq = ntohl(jsb->s_sequence);
	vf_disk_errno = jsb->s_errno;
	return 0;
}
errcode_t io_channel_read_blk64(io_channel ch, unsigned long long blk, int cnt, void *data)
{ (void) ch; (void) blk; (void) cnt; (void) data; return 0; }
static errcode_t stub_close(io_channel ch) { (void) ch; return 0; }

/* STUB: ext2fs_get_journal builds the journal handle with its superblock buffer holding the current on-disk journal superblock */
static errcode_t ext2fs_get_journal(ext2_filsys fs, journal_t **ret)
{
	journal_t *j = calloc(1, sizeof(*j));
	struct buffer_head *bh = calloc(1, sizeof(*bh));
	journal_superblock_t *jsb;
	ASSUME(j && bh);
	vf_get_journal_calls++;
	bh->b_fs = fs;
	bh->b_io = (fs == &vf_fs_old && IN.separate_io) ? &vf_jio : fs->io;
	bh->b_uptodate = 1;
	jsb = (journal_superblock_t *) bh->b_data;
	jsb->s_header.h_magic = htonl(JBD2_MAGIC_NUMBER);
	jsb->s_header.h_blocktype = htonl(JBD2_SUPERBLOCK_V2);
	jsb->s_start = htonl(vf_disk_start);
	jsb->s_sequence = htonl(vf_disk_seq);
	jsb->s_errno = vf_disk_errno;
	j->j_sb_buffer = bh;
	j->j_superblock = jsb;
	j->j_format_version = 2;
	j->j_tail_sequence = vf_disk_seq;
	fs->journal_io = bh->b_io;
	*ret = j;
	return 0;
}
/* STUB: ext2fs_journal_load: symbolic outcome (first load: before recovery; second: the final sanity check on the re-opened handle) */
static errcode_t ext2fs_journal_load(journal_t *journal)
{
	(void) journal;
	return vf_get_journal_calls <= 1 ? IN.load_rc : IN.load2_rc;
}

/* STUB: revoke caches/tables succeed */
int jbd2_journal_init_revoke_record_cache(void) { return 0; }
int jbd2_journal_init_revoke_table_cache(void) { return 0; }
void jbd2_journal_destroy_revoke_record_cache(void) { }
void jbd2_journal_destroy_revoke_table_cache(void) { }
int jbd2_journal_init_revoke(journal_t *j, int n) { (void) j; (void) n; return 0; }
void jbd2_journal_destroy_revoke(journal_t *j) { (void) j; }

/* STUB (specification proved for the real function by the order / recover harnesses): replay writes, then sync, then return 0; on failure some writes may have been issued and no sync is guaranteed */
int jbd2_journal_recover(journal_t *journal)
{
	int i, n = IN.recover_rc ? IN.fail_after : IN.nreplay;
	vf_log(EV_RECOVER_ENTER, 0, 0);
	for (i = 0; i < 3; i++)
		if (i < n)
			vf_log(EV_REPLAY, 0, 0);
	if (!IN.recover_rc) {
		vf_log(EV_SYNC, 0, 0);
		journal->j_transaction_sequence = IN.seq + IN.nreplay + 1;
		journal->j_failed_commit = IN.failed_commit;
	}
	vf_log(EV_RECOVER_EXIT, 0, 0);
	return IN.recover_rc ? -(int) IN.recover_rc : 0;
}

/* STUB: ext2fs_flush / ext2fs_close / ext2fs_free / ext2fs_mmp_stop / ext2fs_open record which handle they were applied to */
static int vf_last_flush_nosync = -1, vf_last_flush_recover = -1;
/* STUB: ext2fs_flush2 (and ext2fs_flush = flags 0) records the handle, its flags argument and the needs_recovery bit of the superblock image it writes; flush_sync (C04) decides that the real one ends with a device sync iff FLUSH_NO_SYNC is absent */
errcode_t ext2fs_flush2(ext2_filsys fs, int flags)
{
	vf_log(fs == &vf_fs_old ? EV_FLUSH_OLD : EV_FLUSH_NEW, (__u32) flags, 0);
	if (fs == &vf_fs_old) {
		vf_last_flush_nosync = (flags & EXT2_FLAG_FLUSH_NO_SYNC) != 0;
		vf_last_flush_recover = (fs->super->s_feature_incompat & EXT3_FEATURE_INCOMPAT_RECOVER) != 0;
	}
	fs->flags &= ~EXT2_FLAG_DIRTY;
	return 0;
}
errcode_t ext2fs_flush(ext2_filsys fs) { return ext2fs_flush2(fs, 0); }
errcode_t ext2fs_close(ext2_filsys fs) { (void) fs; vf_log(EV_CLOSE, 0, 0); return 0; }
errcode_t ext2fs_close2(ext2_filsys fs, int flags) { (void) fs; (void) flags; vf_log(EV_CLOSE, 0, 0); return 0; }
void ext2fs_free(ext2_filsys fs)
{
	PROP(fs == &vf_fs_old, "only the stale handle is freed");
	vf_log(EV_FREE_OLD, 0, 0);
}
errcode_t ext2fs_mmp_stop(ext2_filsys fs) { (void) fs; vf_log(EV_MMP_STOP, 0, 0); return 0; }
static int vf_open_flags;
errcode_t ext2fs_open(const char *name, int flags, int superblock, unsigned int block_size,
		      io_manager manager, ext2_filsys *ret_fs)
{
	(void) name; (void) superblock; (void) block_size;
	vf_log(EV_OPEN, 0, 0);
	PROP(manager == &vf_mgr, "re-open uses the io manager of the old handle");
	vf_open_flags = flags;
	if (IN.open_rc)
		return IN.open_rc;
	vf_fs_new.flags = flags & ~EXT2_FLAG_DIRTY;
	*ret_fs = &vf_fs_new;
	return 0;
}
int uuid_is_null(const uuid_t uu) { (void) uu; return 0; }

int main(void)
{
	errcode_t rc;
	ext2_filsys fsp = &vf_fs_old;
	int k, replay_unsynced = 0, recover_entered = 0, recover_exited = 0, freed = 0, opened = 0;
	int flushes_old_before = 0, jsb_writes_empty = 0;

	VF_INPUT(IN);
	ASSUME(IN.nreplay <= 3 && IN.fail_after <= 3);
	ASSUME(IN.load_rc >= 0 && IN.load_rc < 1000 && IN.recover_rc >= 0 && IN.recover_rc < 1000);
	ASSUME(IN.open_rc >= 0 && IN.open_rc < 1000 && IN.load2_rc >= 0 && IN.load2_rc < 1000);
	ASSUME(IN.dirty <= 1 && IN.rw <= 1 && IN.separate_io <= 1);
	/* ASSUME: the journal needs recovery (s_start != 0): that is when debugfs "jr" / ext2fs_run_ext3_journal is used */
	ASSUME(IN.jstart != 0);
	vf_disk_start = IN.jstart;
	vf_disk_seq = IN.seq;
	vf_mgr.close = stub_close;
	vf_fsio.manager = &vf_mgr;
	vf_jio.manager = &vf_mgr;
	vf_fsio_new.manager = &vf_mgr;
	vf_sb_old.s_feature_compat = EXT3_FEATURE_COMPAT_HAS_JOURNAL;
	vf_sb_old.s_feature_incompat = IN.needs_recovery ? EXT3_FEATURE_INCOMPAT_RECOVER : 0;
	vf_sb_old.s_state = IN.old_state;
	vf_fs_old.super = &vf_sb_old;
	vf_fs_old.io = &vf_fsio;
	vf_fs_old.blocksize = 1024;
	vf_fs_old.flags = (IN.rw ? EXT2_FLAG_RW : 0) | (IN.dirty ? EXT2_FLAG_DIRTY | EXT2_FLAG_CHANGED : 0);
	vf_fs_old.device_name = malloc(2);
	ASSUME(vf_fs_old.device_name != 0);
	vf_fs_old.device_name[0] = 'd'; vf_fs_old.device_name[1] = 0;
	/* the superblock the re-open reads back: still has_journal + needs_recovery (nothing cleared it on disk) */
	vf_sb_new.s_feature_compat = EXT3_FEATURE_COMPAT_HAS_JOURNAL;
	vf_sb_new.s_feature_incompat = EXT3_FEATURE_INCOMPAT_RECOVER;
	vf_sb_new.s_state = IN.new_state;
	vf_fs_new.super = &vf_sb_new;
	vf_fs_new.io = &vf_fsio_new;
	vf_fs_new.blocksize = 1024;

	rc = ext2fs_run_ext3_journal(&fsp);

	PROP(vf_nev <= MAXEV, "event log large enough");
	if (!IN.rw) {
		PROP(rc == EXT2_ET_FILE_RO && vf_nev == 0 && fsp == &vf_fs_old, "a read-only handle is refused without any effect");
		VF_END();
		return 0;
	}
	for (k = 0; k < MAXEV; k++) {
		if (k >= vf_nev) continue;
		switch (vf_ev[k]) {
		case EV_RECOVER_ENTER: recover_entered = 1; break;
		case EV_RECOVER_EXIT: recover_exited = 1; break;
		case EV_REPLAY: replay_unsynced = 1; break;
		case EV_SYNC: replay_unsynced = 0; break;
		case EV_FLUSH_OLD:
			PROP(!recover_entered, "the stale handle is never flushed once the replay has started (it would overwrite replayed blocks)");
			if (!recover_entered) flushes_old_before++;
			break;
		case EV_CLOSE:
			PROP(0, "the stale handle is not closed (close flushes)");
			break;
		case EV_FLUSH_NEW:
			break;
		case EV_FREE_OLD:
			PROP(!IN.load_rc ? recover_exited : 1, "the stale handle is released after recovery");
			freed++;
			break;
		case EV_OPEN:
			PROP(freed == 1, "the filesystem is re-opened after the stale handle was released");
			opened++;
			break;
		case EV_JSB:
			if (!IN.load_rc)
				PROP(recover_entered && recover_exited, "the journal superblock is not written before recovery has returned");
			if (!IN.load_rc && !IN.recover_rc && vf_jsb_start[k] == 0) {
				PROP(!replay_unsynced, "journal marked empty only after every replay write has been followed by a sync");
				if (!opened) {
					jsb_writes_empty++;
					PROP(vf_jsb_seq[k] == IN.seq + IN.nreplay + 1, "the journal restarts at the sequence number recovery computed");
				}
			}
			break;
		default:
			break;
		}
	}
	PROP(flushes_old_before == (IN.dirty ? 1 : 0), "pending modifications of a dirty handle are flushed exactly once, before the replay");
	if (IN.dirty) {
		PROP(vf_last_flush_nosync == 0, "the flush before the replay is a syncing one: the pending state (needs_recovery flag, cached journal blocks) is durable before the first replayed block is written");
		PROP(vf_last_flush_recover == (IN.needs_recovery != 0), "the flushed superblock image carries the in-memory needs_recovery flag");
	}
	PROP(freed == 1 && opened == 1, "the stale handle is dropped and the filesystem re-opened exactly once");
	PROP((vf_open_flags & EXT2_FLAG_RW) != 0, "the re-open is read-write");
	if (!IN.load_rc && !IN.recover_rc)
		PROP(jsb_writes_empty == 1, "after a successful recovery the journal superblock is written once, marked empty, before the re-open");
	if (IN.open_rc) {
		PROP(rc == IN.open_rc && fsp == 0, "a failed re-open is returned and the caller is left without a handle");
		VF_END();
		return 0;
	}
	PROP(fsp == &vf_fs_new, "the caller receives the re-opened handle");
	PROP(!(vf_sb_new.s_feature_incompat & EXT3_FEATURE_INCOMPAT_RECOVER), "needs_recovery is cleared in the re-opened superblock");
	PROP((vf_fs_new.flags & EXT2_FLAG_DIRTY) && (vf_fs_new.flags & EXT2_FLAG_MASTER_SB_ONLY), "the re-opened superblock is marked dirty (master superblock only)");
	if (IN.load_rc || IN.recover_rc)
		PROP(!(vf_sb_new.s_state & EXT2_VALID_FS), "after a failed recovery the filesystem is marked not valid (full check needed)");
	else
		PROP((vf_sb_new.s_state & EXT2_VALID_FS) == (IN.new_state & EXT2_VALID_FS), "a successful recovery leaves the valid flag alone");
	if (IN.old_state & EXT2_ERROR_FS)
		PROP(vf_sb_new.s_state & EXT2_ERROR_FS, "an error state recorded in the stale handle is carried over");
	if (!IN.load_rc && !IN.recover_rc && IN.failed_commit && !IN.load2_rc)
		PROP(vf_sb_new.s_state & EXT2_ERROR_FS, "a failed commit found by recovery ends up as EXT2_ERROR_FS");
	if (IN.load_rc)
		PROP(rc != 0, "a failed journal load is reported");
	else if (IN.recover_rc)
		PROP(rc != 0, "a failed recovery is reported");
	else if (IN.load2_rc)
		PROP(rc == IN.load2_rc, "a failed final journal check is reported");
	else
		PROP(rc == 0, "successful recovery is reported as success");
	VF_END();
	return 0;
}
