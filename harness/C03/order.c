/* C04 core (registered by the lead under C04): durable/volatile split of the filesystem device around the real jbd2_journal_recover(); see recover.c */
#define VF_DURABLE
#include "recover.c"
