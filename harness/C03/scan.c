/*
 * C03/scan: PASS_SCAN of the real do_one_pass() (recovery.c) on an ARBITRARY
 * journal image: the end of the valid log it reports equals the reference's
 * (sequence of the first transaction that is not closed by its commit block),
 * and scanning writes nothing.  (Rung 2 of the C03 ladder: passes separately.)
 */
#include "jcfg.h"
struct vf_in {
	unsigned char j[NJ * B];
	unsigned int s_start, s_sequence, s_first;
#if FEAT_CSUM
	unsigned int csum[NJ];		/* "the checksum of journal block k" */
#endif
};
VF_DECLARE_INPUT(struct vf_in, IN)
#include "vf_input.inc"

#define VF_NO_REVOKE
#define VF_CSUM_WORD(k) IN.csum[k]
#define REF_CSUM(k) IN.csum[k]
#define REF_SEQ0 IN.s_sequence
#include "jgeom.h"
#include "jenv.h"

#include "jbd2_ref.h"

/* STUB: the revoke table is not touched by PASS_SCAN: reaching it is a violation */
int jbd2_journal_set_revoke(journal_t *j, unsigned long long b, tid_t s) { (void) j; (void) b; (void) s; PROP(0, "PASS_SCAN does not touch the revoke table"); return 0; }
int jbd2_journal_test_revoke(journal_t *j, unsigned long long b, tid_t s) { (void) j; (void) b; (void) s; PROP(0, "PASS_SCAN does not touch the revoke table"); return 0; }
void jbd2_journal_clear_revoke(journal_t *j) { (void) j; }

int main(void)
{
	static struct recovery_info info;
	int rc;

	VF_INPUT(IN);
	VF_ASSUME_GEOMETRY();
#if FEAT_CSUM
	/* ASSUME: transaction ids in the log are not 0 (recovery.c uses end_transaction == 0 / j_failed_commit == 0 as "unset": reported as an observation) */
	ASSUME(IN.s_sequence >= 1 && IN.s_sequence < 0xffffff00u);
#endif
	vf_make_journal(VF_FIRST, IN.s_sequence, VF_START);

	ref_walk(IN.s_sequence);
	/* ASSUME: the log walk ends within REF_MAXWALK header blocks (a ring of same-sequence descriptor/revoke blocks without any commit block makes do_one_pass() spin forever: reported as an observation) */
	ASSUME(ref_terminated);
	ASSUME(ref_bound_ok);

	rc = do_one_pass(&vf_journal, &info, PASS_SCAN);

#if FEAT_CSUM
	if (ref_scan_error) {
		PROP(rc != 0, "a checksum-invalid descriptor/revoke block followed by a newer commit block fails recovery");
	} else {
		PROP(rc == 0, "scan succeeds");
		PROP(info.end_transaction == IN.s_sequence + ref_end_ord, "end of log = first transaction without a (checksum-)valid commit, wherever the log wraps");
		PROP(vf_journal.j_failed_commit == (ref_failed_commit ? IN.s_sequence + ref_failed_ord : 0),
		     "failed commit reported iff a transaction that looks committed failed its checksum");
	}
	PROP(vf_csum_partial == 0, "checksums cover whole journal blocks");
#else
	PROP(rc == 0, "scan succeeds");
	PROP(info.end_transaction == IN.s_sequence + ref_ncommits, "end of log = first transaction without a commit block");
#endif
	PROP(vf_j_range_viol == 0, "every block read by the scan lies inside the circular log [j_first, j_last)");
	PROP(info.start_transaction == IN.s_sequence, "start transaction is the superblock's sequence");
	PROP(vf_fs_writes == 0 && vf_fs_oob_writes == 0 && vf_j_writes == 0, "scanning writes nothing");
	PROP(vf_j_oob_reads == 0, "scan stays inside the journal");
	PROP(vf_jheld == 0, "every buffer is released");
	VF_END();
	return 0;
}
