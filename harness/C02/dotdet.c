/*
 * C02/dotdet: detector completeness of check_dot() / check_dotdot() (pass2.c) under
 * e2fsck -n (every question answered no).
 *
 * Independent predicate from the on-disk format: the first entry of a directory's
 * block 0 is (inode == the directory, name "."), the second is (inode != 0, name "..").
 * For EVERY entry content: an entry violating the predicate makes the kernel raise at
 * least one problem (so the -n run cannot exit 0, see C01/fixproblem), and with the
 * answer "no" the kernel modifies nothing and reports "not modified".
 */
#include "e2fsck/pass2.c"

#define BLK 48
#ifndef OFF
#define OFF 0
#endif
struct vf_in { unsigned char buf[BLK]; __u32 ino; __u32 feature_incompat; };
VF_DECLARE_INPUT(struct vf_in, IN)
#include "vf_input.inc"

static struct e2fsck_struct vf_ctx;
static struct struct_ext2_filsys vf_fs;
static struct ext2_super_block vf_sb;
static unsigned char vf_buf[BLK + 8] __attribute__((aligned(8)));
static int vf_nprob, vf_nset;

/* STUB: fix_problem() records and answers no (e2fsck -n; the protocol itself is decided in C01/fixproblem) */
int fix_problem(e2fsck_t ctx, problem_t code, struct problem_context *pctx)
{ (void) ctx; (void) pctx; (void) code; vf_nprob++; return 0; }
/* STUB: e2fsck_dir_info_set_dotdot() records the call and succeeds */
int e2fsck_dir_info_set_dotdot(e2fsck_t ctx, ext2_ino_t ino, ext2_ino_t dotdot)
{ (void) ctx; (void) ino; (void) dotdot; vf_nset++; return 0; }

int main(void)
{
	struct problem_context pctx;
	unsigned int ino, nl, rl;
	int i, r, wf;

	VF_INPUT(IN);
	memset(&pctx, 0, sizeof(pctx));
	vf_fs.super = &vf_sb;
	vf_fs.blocksize = BLK;
	vf_sb.s_feature_incompat = IN.feature_incompat;
	vf_ctx.fs = &vf_fs;
	for (i = 0; i < BLK; i++)
		vf_buf[i] = IN.buf[i];
	ASSUME(IN.ino != 0);
	ino = IN.buf[OFF] | (IN.buf[OFF + 1] << 8) | (IN.buf[OFF + 2] << 16) | ((unsigned) IN.buf[OFF + 3] << 24);
	rl = IN.buf[OFF + 4] | (IN.buf[OFF + 5] << 8);
	nl = IN.buf[OFF + 6];
	/* ASSUME: check_dir_block() calls the kernel only on an entry that passed its validity test */
	ASSUME(rl >= 12 && !(rl & 3) && OFF + rl <= BLK && 8 + nl <= rl);
#if KERNEL == 0
	wf = ino == IN.ino && nl == 1 && IN.buf[OFF + 8] == '.';
	r = check_dot(&vf_ctx, (struct ext2_dir_entry *) (vf_buf + OFF), IN.ino, &pctx);
#else
	wf = ino != 0 && nl == 2 && IN.buf[OFF + 8] == '.' && IN.buf[OFF + 9] == '.';
	r = check_dotdot(&vf_ctx, (struct ext2_dir_entry *) (vf_buf + OFF), IN.ino, &pctx);
#endif
	if (!wf)
		PROP(vf_nprob > 0, "an entry violating the format predicate makes the kernel raise a problem");
	PROP(r == 0, "with every answer no the kernel reports nothing modified");
	for (i = 0; i < BLK; i++)
		PROP(vf_buf[i] == IN.buf[i], "with every answer no the kernel modifies nothing");
#if KERNEL == 1
	PROP((vf_nset == 1) == (vf_nprob == 0), "'..' is recorded in dir_info exactly when the entry is accepted");
#endif
	VF_END();
	return 0;
}
