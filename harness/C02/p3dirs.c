/*
 * C02/p3dirs (ANSWER 0, e2fsck -n) and C01/p3dirs (ANSWER 1, e2fsck -y + second run): the REAL
 * check_directory() of e2fsck/pass3.c, run over the whole directory table the way e2fsck_pass3() does
 * (root marked done, then every table entry that is still in inode_dir_map, in table order):
 * "every directory is connected to the root, and its '..' names its parent".
 *
 * ND = 6 directories: root (inode 2), lost+found (3), 4, 5, 6, 7 (pass 3 attaches no meaning to the numbers).  Symbolic for each: the parent pass 2
 * recorded (0 = none, or any directory of the table), the inode its '..' entry names (any 32-bit
 * value), membership in inode_dir_map.
 *
 * Independent reference: follow parent[] from D for at most ND hops: CONNECTED if the root is met,
 * DANGLING at X if a directory X != root with parent 0 is met, LOOP otherwise.
 *   PR_3_UNCONNECTED_DIR is raised exactly once for every X that is the dangling end of the chain of some
 *       directory still in inode_dir_map (naming X), and for nothing else;
 *   PR_3_BAD_DOT_DOT exactly for the directories whose '..' differs from their parent (-y: after a
 *       reconnect has set both to lost+found);
 *   the parent walk terminates within ND + 1 steps for EVERY parent function (unwinding assertion on the
 *       real while(1) loop), so the 2048-deep fallback with inode_loop_detect is never entered;
 *   silence => no directory dangles and every '..' equals the parent;
 *   -DLOOPCHECK: silence => no directory's chain is a LOOP either (a cycle of directories that does not
 *       contain the root is unreachable from the root).
 *       GENUINE FINDING (known_findings.txt, query p3dirs[ANSWER=0,ND=4,LOOPCHECK=None]): this fails on the pinned tree: the walk
 *       stops at the first inode in inode_done_map, including those it marked itself, so a cycle of parents is accepted silently
 *       (whole-tool demo: demo_p3_dir_cycle.sh).  The C01 (ANSWER 1) queries therefore do NOT assert anything about looped
 *       directories: PR_3_LOOPED_DIR is unreachable on this tree, convergence is asserted for dangling chains and '..' only.
 *   ANSWER 0: nothing is modified.   ANSWER 1: every dangling X is reconnected (parent = '..' =
 *       lost+found), every wrong '..' is rewritten to the parent, afterwards no chain dangles and every
 *       '..' equals its parent; a second run over the table raises nothing and changes nothing.
 */
#ifndef ANSWER
#define ANSWER 0
#endif
#ifndef ND
#define ND 6
#endif
#define ROOT 2
#define LNF 3
#define VF_NPOS (ND + 2)	/* inode numbers 1 .. ND + 1 */

#include "e2fsck/pass3.c"
#include "env.c"
#include "p5model.h"

struct vf_in {
	__u32 parent[ND], dotdot[ND];
	unsigned char isdir[ND];
	__u32 fsflags;
};
VF_DECLARE_INPUT(struct vf_in, IN)
#include "vf_input.inc"

static struct e2fsck_struct vf_ctx;
static struct struct_ext2_filsys vf_fs;
static struct ext2_super_block vf_sb;
static struct vf_bm vf_done, vf_loop, vf_dirmap;
static __u32 vf_parent[ND], vf_dotdot[ND];
static int vf_nprob, vf_nother, vf_badarg, vf_nreconnect, vf_nfixdd, vf_fixdd_bad, vf_loop_alloc;
static unsigned char vf_unconn_at[ND], vf_looped_at[ND], vf_baddd_at[ND], vf_reconn_at[ND];
static __u32 vf_baddd_ino2[ND], vf_baddd_dir[ND];

#define VF_INO(k) ((k) + 2)		/* table slot -> inode number: root 2, lost+found 3, ... */

/* STUB: fix_problem() records code and directory and answers ANSWER */
int fix_problem(e2fsck_t ctx, problem_t code, struct problem_context *pctx)
{
	int k, hit = 0;
	(void) ctx;
	vf_nprob++;
	for (k = 0; k < ND; k++)
		if (pctx->ino == (ext2_ino_t) VF_INO(k)) {
			hit = 1;
			switch (code) {
			case PR_3_UNCONNECTED_DIR: vf_unconn_at[k]++; break;
			case PR_3_LOOPED_DIR: vf_looped_at[k]++; break;
			case PR_3_BAD_DOT_DOT: vf_baddd_at[k]++; vf_baddd_ino2[k] = pctx->ino2; vf_baddd_dir[k] = pctx->dir; break;
			default: vf_nother++;
			}
		}
	if (!hit)
		vf_badarg++;
	return ANSWER;
}
/* STUB: dir_info table (dirinfo.c) = two arrays indexed by table slot; unknown inode -> error */
int e2fsck_dir_info_get_parent(e2fsck_t ctx, ext2_ino_t ino, ext2_ino_t *parent)
{
	int k, r = 1;
	(void) ctx;
	for (k = 0; k < ND; k++)
		if (ino == (ext2_ino_t) VF_INO(k)) { *parent = vf_parent[k]; r = 0; }
	return r;
}
int e2fsck_dir_info_get_dotdot(e2fsck_t ctx, ext2_ino_t ino, ext2_ino_t *dotdot)
{
	int k, r = 1;
	(void) ctx;
	for (k = 0; k < ND; k++)
		if (ino == (ext2_ino_t) VF_INO(k)) { *dotdot = vf_dotdot[k]; r = 0; }
	return r;
}
/* STUB: ext2fs_mark_generic_bmap() / ext2fs_clear_inode_bitmap() on the set model */
int ext2fs_mark_generic_bmap(ext2fs_generic_bitmap b, __u64 a)
{
	struct vf_bm *m = (struct vf_bm *) b;
	int i, r = 0;
	if (a < m->start || a > m->end) { vf_range_err = 1; return 0; }
	for (i = 0; i < VF_NPOS; i++)
		if ((__u64) i == a) { r = m->bit[i]; m->bit[i] = 1; }
	return r;
}
void ext2fs_clear_inode_bitmap(ext2fs_inode_bitmap b)
{
	int i;
	for (i = 0; i < VF_NPOS; i++)
		((struct vf_bm *) b)->bit[i] = 0;
}
/* STUB: e2fsck_allocate_inode_bitmap() hands out the (empty) loop-detection map and is counted */
errcode_t e2fsck_allocate_inode_bitmap(ext2_filsys fs, const char *descr, int default_type, const char *profile_name, ext2fs_inode_bitmap *ret)
{
	(void) fs; (void) descr; (void) default_type; (void) profile_name;
	vf_loop_alloc++;
	*ret = (ext2fs_inode_bitmap) &vf_loop;
	return 0;
}
/* STUB: ext2fs_lookup(dir, "..") (only used to fill the message) returns the recorded '..' */
errcode_t ext2fs_lookup(ext2_filsys fs, ext2_ino_t dir, const char *name, int namelen, char *buf, ext2_ino_t *inode)
{
	(void) fs; (void) name; (void) namelen; (void) buf;
	if (inode)
		e2fsck_dir_info_get_dotdot(&vf_ctx, dir, inode);
	return 0;
}
/* STUB: e2fsck_reconnect_file() (cut out of pass3.c) succeeds and is recorded: the directory gets an entry in lost+found */
int e2fsck_reconnect_file(e2fsck_t ctx, ext2_ino_t ino)
{
	int k;
	(void) ctx;
	vf_nreconnect++;
	for (k = 0; k < ND; k++)
		if (ino == (ext2_ino_t) VF_INO(k))
			vf_reconn_at[k]++;
	return 0;
}
/* STUB: fix_dotdot() (cut out of pass3.c) rewrites the '..' entry and, as the real one, records parent and '..' in the dir_info table */
static void fix_dotdot(e2fsck_t ctx, ext2_ino_t ino, ext2_ino_t parent)
{
	int k, hit = 0;
	(void) ctx;
	vf_nfixdd++;
	for (k = 0; k < ND; k++)
		if (ino == (ext2_ino_t) VF_INO(k)) {
			vf_parent[k] = parent;
			vf_dotdot[k] = parent;
			hit = 1;
		}
	if (!hit)
		vf_fixdd_bad++;
}

enum { REF_CONNECTED = 0, REF_DANGLING = 1, REF_LOOP = 2 };
/* independent reference: where the parent chain of table slot k ends (*end = slot of the dangling directory) */
static int ref_chain(const __u32 *parent, int k, int *end)
{
	int cur = k, step, j, nxt, verdict = REF_LOOP, open = 1;
	__u32 pc;
	*end = -1;
	for (step = 0; step <= ND; step++) {
		if (!open)
			continue;
		if (cur == 0) { verdict = REF_CONNECTED; open = 0; continue; }	/* slot 0 is the root */
		pc = 0;
		for (j = 0; j < ND; j++)
			if (j == cur)
				pc = parent[j];
		if (pc == 0) { verdict = REF_DANGLING; *end = cur; open = 0; continue; }
		nxt = -1;
		for (j = 0; j < ND; j++)
			if (pc == (__u32) VF_INO(j))
				nxt = j;
		cur = nxt;
	}
	return verdict;
}

static void vf_run_pass3(void)
{
	struct problem_context pctx;
	int k;
	/* STUB: e2fsck_pass3()'s driver restated: fresh done map with the root marked, then check_directory() for every table entry still in inode_dir_map */
	clear_problem_context(&pctx);
	for (k = 0; k < VF_NPOS; k++)
		vf_done.bit[k] = 0;
	vf_done.bit[ROOT] = 1;
	inode_done_map = (ext2fs_inode_bitmap) &vf_done;
	inode_loop_detect = 0;
	for (k = 0; k < ND; k++)
		if (ext2fs_test_inode_bitmap2(vf_ctx.inode_dir_map, VF_INO(k)))
			if (check_directory(&vf_ctx, VF_INO(k), &pctx))
				vf_badarg++;
}

int main(void)
{
	int k, j, e, v, nexp = 0;
	int want_unconn[ND], verdict[ND], endof[ND];
	unsigned int f0;

	VF_INPUT(IN);
	for (k = 0; k < ND; k++) {
		int ok = IN.parent[k] == 0;
		ASSUME(IN.isdir[k] <= 1);
		/* ASSUME: pass 2 records as parent only a directory it scanned (an entry of the table), or nothing */
		for (j = 0; j < ND; j++)
			if (IN.parent[k] == (__u32) VF_INO(j))
				ok = 1;
		ASSUME(ok);
		/* ASSUME: no directory other than the root is its own parent (pass 2 rejects an entry naming its own directory: PR_2_LINK_DOT) */
		ASSUME(k == 0 || IN.parent[k] != (__u32) VF_INO(k));
		vf_parent[k] = IN.parent[k];
		vf_dotdot[k] = IN.dotdot[k];
	}
#if ANSWER == 1
	/* ASSUME: lost+found is (made) a directory entered in the root before anything is reconnected (e2fsck_get_lost_and_found) */
	ASSUME(IN.parent[1] == ROOT && IN.dotdot[1] == ROOT && IN.isdir[1] == 1);
#endif
#ifdef SECOND
	/*
	 * SECOND: the table the next run's passes 1-2 rebuild from what a finished e2fsck -y left on disk, i.e. any table with the
	 * properties the ANSWER 1 query establishes ("yes: afterwards ..."): no live directory's chain ends short of the root, every
	 * live directory's '..' names its parent.  ASSUME: passes 1-2 rebuild parent = the directory holding the entry, '..' as rewritten.
	 */
	for (k = 0; k < ND; k++)
		if (IN.isdir[k]) {
			ASSUME(ref_chain(IN.parent, k, &e) != REF_DANGLING);
			ASSUME(IN.dotdot[k] == IN.parent[k]);
		}
#endif
#ifdef LOOPCHECK
	/* BOUND (LOOPCHECK only): every table entry is a live directory */
	for (k = 0; k < ND; k++)
		ASSUME(IN.isdir[k] == 1);
#endif
	vf_dirmap.start = vf_done.start = vf_loop.start = 1;
	vf_dirmap.end = vf_done.end = vf_loop.end = VF_NPOS - 1;
	for (k = 0; k < ND; k++)
		for (j = 0; j < VF_NPOS; j++)
			if (j == VF_INO(k))
				vf_dirmap.bit[j] = IN.isdir[k];
	vf_fs.super = &vf_sb;
	vf_fs.flags = IN.fsflags;
	f0 = IN.fsflags;
	vf_sb.s_inodes_count = VF_NPOS - 1;
	vf_ctx.fs = &vf_fs;
	vf_ctx.inode_dir_map = (ext2fs_inode_bitmap) &vf_dirmap;
	vf_ctx.lost_and_found = LNF;

	vf_run_pass3();

	/* ---- independent reference ---- */
	for (k = 0; k < ND; k++) {
		want_unconn[k] = 0;
		verdict[k] = ref_chain(IN.parent, k, &endof[k]);
	}
	for (k = 0; k < ND; k++)
		if (IN.isdir[k] && verdict[k] == REF_DANGLING)
			for (j = 1; j < ND; j++)
				if (j == endof[k])
					want_unconn[j] = 1;
	PROP(!vf_range_err && vf_badarg == 0 && vf_nother == 0, "only pass-3 problems naming a directory of the table");
	/* OUTSIDE: directories on (or leading into) a cycle of parents: reported by nothing on this tree (see LOOPCHECK); no repair / convergence claim for them */
	PROP(vf_loop_alloc == 0, "with at most 6 directories the parent walk never reaches the 2048-deep loop-detection fallback");
	for (k = 0; k < ND; k++) {
		if (want_unconn[k])
			PROP(vf_unconn_at[k] == 1, "a directory whose chain of parents ends without reaching the root is reported: PR_3_UNCONNECTED_DIR names the parentless directory");
		PROP(vf_unconn_at[k] == want_unconn[k], "PR_3_UNCONNECTED_DIR exactly once for every parentless end of a directory's chain, for nothing else");
		nexp += want_unconn[k];
	}
	for (k = 0; k < ND; k++) {
		/* -y: a reconnected directory has parent = '..' = lost+found by the time its '..' is compared */
		__u32 par = (ANSWER && want_unconn[k]) ? LNF : IN.parent[k];
		__u32 dd = (ANSWER && want_unconn[k]) ? LNF : IN.dotdot[k];
		int bad = IN.isdir[k] && dd != par;
		if (bad)
			PROP(vf_baddd_at[k] == 1 && vf_baddd_ino2[k] == dd && vf_baddd_dir[k] == par, "a '..' entry that does not name the parent raises PR_3_BAD_DOT_DOT (showing both)");
		PROP(vf_baddd_at[k] == bad, "PR_3_BAD_DOT_DOT exactly for the directories whose '..' differs from the parent");
		nexp += bad;
		PROP(vf_looped_at[k] == 0, "PR_3_LOOPED_DIR needs the fallback, which is never entered here");
	}
	PROP((vf_nprob == 0) == (nexp == 0), "silence iff the reference expects no problem");
	if (vf_nprob == 0)
		for (k = 0; k < ND; k++)
			if (IN.isdir[k]) {
				PROP(verdict[k] != REF_DANGLING, "silent => no directory's chain of parents ends short of the root");
				PROP(IN.dotdot[k] == IN.parent[k], "silent => every directory's '..' names its parent");
#ifdef LOOPCHECK
				PROP(verdict[k] == REF_CONNECTED, "silent => every directory is reachable from the root (its chain of parents is not a cycle)");
#endif
			}
#if ANSWER == 0
	PROP(vf_nreconnect == 0 && vf_nfixdd == 0, "answer no: nothing is reconnected, no '..' rewritten");
	for (k = 0; k < ND; k++)
		PROP(vf_parent[k] == IN.parent[k] && vf_dotdot[k] == IN.dotdot[k], "answer no: the directory table is unchanged");
	PROP(vf_fs.flags == f0, "answer no: check_directory itself leaves fs->flags alone (fix_problem un-marks valid: C01/fixproblem)");
#else
	PROP(vf_fixdd_bad == 0, "yes: '..' is rewritten only in directories of the table");
	for (k = 0; k < ND; k++) {
		PROP(vf_reconn_at[k] == want_unconn[k], "yes: exactly the parentless directories are reconnected to lost+found");
		if (want_unconn[k])
			PROP(vf_parent[k] == LNF && vf_dotdot[k] == LNF, "yes: a reconnected directory has lost+found as parent and as '..'");
		else
			PROP(vf_parent[k] == IN.parent[k], "yes: no other parent changes");
		if (IN.isdir[k])
			PROP(vf_dotdot[k] == vf_parent[k], "yes: afterwards every '..' names the parent");
		else if (!want_unconn[k])
			PROP(vf_dotdot[k] == IN.dotdot[k], "yes: directories no longer in inode_dir_map are not rewritten");
	}
	for (k = 0; k < ND; k++)
		if (IN.isdir[k]) {
			v = ref_chain(vf_parent, k, &e);
			PROP(v != REF_DANGLING, "yes: afterwards no directory's chain ends short of the root");
#ifdef LOOPCHECK
			PROP(v == REF_CONNECTED, "yes: afterwards every directory is reachable from the root");
#endif
		}
	PROP(vf_fs.flags == f0, "yes: a successful reconnect keeps the fs marked valid");
#ifdef SECOND
	PROP(vf_nprob == 0, "second run raises no problem");
	PROP(vf_nreconnect == 0 && vf_nfixdd == 0, "second run changes nothing");
	for (k = 0; k < ND; k++)
		PROP(vf_parent[k] == IN.parent[k] && vf_dotdot[k] == IN.dotdot[k], "second run keeps the directory table");
#endif
#endif
	VF_END();
	return 0;
}
