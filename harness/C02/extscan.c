/*
 * C02/extscan: detector completeness (and exactness) of pass 1's extent-tree checker, the REAL recursive
 * scan_extent_node() (e2fsck/pass1.c) with mark_block_used() / mark_blocks_used(), under e2fsck -n
 * (every question answered no), on a regular extent-mapped file.
 *
 * DEPTH 1: the root (in the inode) is an index node with 1..2 entries, each pointing to a leaf node with
 *          1..2 extents.  DEPTH 0: the root is a leaf with 1..3 extents.
 * Every field symbolic: ei_block and leaf block of every index entry; logical start, physical start and length
 * of every extent; blocks_count; first data block (the uninitialised flag: all clear / all set, compile-time UN).
 * The extent-handle API (ext2fs_extent_get FIRST_SIB / NEXT_SIB / DOWN / UP / CURRENT, get_info) is a tree
 * model with a cursor that delivers what lib/ext2fs/extent.c delivers for such a tree (for an index entry:
 * e_len = next entry's ei_block, or the file's block count, minus ei_block, in 32 bits);
 * replace / delete / fix_parents / goto only count (they must not be reached with answer no).
 *
 * Independent well-formedness predicate W (Documentation/filesystems/ext4, "Extent Tree"):
 *   every index entry points to a block inside the filesystem (not 0, >= s_first_data_block, < blocks_count);
 *   ei_block of every index entry == the first logical block of the node it points to;
 *   every extent has length > 0, starts inside the filesystem and ends (pblk + len) inside it;
 *   the extents, read in tree order, are in increasing logical order and do not overlap.
 * Decided:  !W  =>  at least one problem is raised (so e2fsck -n does not exit 0);
 *           W   =>  nothing is raised, nothing is modified, every leaf block and every extent's blocks are
 *                   marked in block_found_map exactly once and counted in num_blocks;
 *   PR_1_EXTENT_INDEX_START_INVALID exactly for the index entries that are followed (valid leaf block) and whose
 *   ei_block differs from the child's first logical block -- in BOTH directions -- showing both numbers.
 */
#ifndef DEPTH
#define DEPTH 1
#endif
#ifndef NI_MAX
#define NI_MAX 2		/* index entries in the root (DEPTH 1) */
#endif
#if DEPTH == 1
#define NE_MAX 2		/* extents per leaf */
#else
#define NE_MAX 3
#endif
#ifndef UN
#define UN 0
#endif
#define FILE_BLOCKS (1ULL << 31)	/* i_size / block size */
#define VF_INO 12

#include "e2fsck/pass1.c"

struct vf_in {
	unsigned char ni, ne[NI_MAX];
	__u64 idx_lblk[NI_MAX], idx_pblk[NI_MAX];
	__u64 lblk[NI_MAX][NE_MAX], pblk[NI_MAX][NE_MAX];
	__u32 len[NI_MAX][NE_MAX];
	unsigned char uninit[NI_MAX][NE_MAX];
	__u32 blocks_count, first_data_block, options;
};
VF_DECLARE_INPUT(struct vf_in, IN)
#include "vf_input.inc"

static struct e2fsck_struct vf_ctx;
static struct struct_ext2_filsys vf_fs;
static struct ext2_super_block vf_sb;
static struct ext2_inode vf_inode;
static char vf_found, vf_meta, vf_handle;
/* the cursor of the handle */
static int vf_level, vf_ri, vf_li;
static int vf_bad, vf_nmodify;
/* what was raised */
static int vf_nprob, vf_nidxstart[NI_MAX], vf_idxstart_bad, vf_nother;
/* what was marked */
#define NMARK 8
static int vf_nsingle, vf_nrange;
static __u64 vf_single[NMARK], vf_range_start[NMARK];
static unsigned int vf_range_num[NMARK];

#if DEPTH == 1
#define VF_ROOT_IS_LEAF 0
#else
#define VF_ROOT_IS_LEAF 1
#endif

static void vf_fill(struct ext2fs_extent *e)
{
	int k, j;
	static struct ext2fs_extent z;
	*e = z;
	if (!VF_ROOT_IS_LEAF && vf_level == 0) {
		for (k = 0; k < NI_MAX; k++)
			if (k == vf_ri) {
				__u64 end = FILE_BLOCKS;
				if (k + 1 < NI_MAX && k + 1 < (int) IN.ni)
					end = IN.idx_lblk[k + 1];
				e->e_lblk = IN.idx_lblk[k];
				e->e_pblk = IN.idx_pblk[k];
				e->e_len = (__u32) (end - IN.idx_lblk[k]);
				e->e_flags = 0;
			}
	} else {
		/* (the flag word is a compile-time constant so that leaf / index stays decided during symbolic execution: -DUN=1 makes every extent
		 *  uninitialised; within the bound -- no extent beyond EOF -- the flag does not influence any check) */
		e->e_flags = EXT2_EXTENT_FLAGS_LEAF | (UN ? EXT2_EXTENT_FLAGS_UNINIT : 0);
		for (k = 0; k < NI_MAX; k++)
			for (j = 0; j < NE_MAX; j++)
				if (k == vf_ri && j == vf_li) {
					e->e_lblk = IN.lblk[k][j];
					e->e_pblk = IN.pblk[k][j];
					e->e_len = IN.len[k][j];
				}
	}
}
static int vf_count_here(void)
{
	int k, n = 0;
	if (!VF_ROOT_IS_LEAF && vf_level == 0)
		return IN.ni;
	for (k = 0; k < NI_MAX; k++)
		if (k == vf_ri)
			n = IN.ne[k];
	return n;
}
/* STUB: ext2fs_extent_get() = cursor moves on the tree model, as lib/ext2fs/extent.c: FIRST_SIB / NEXT_SIB inside the node
 *       (EXT2_ET_EXTENT_NO_NEXT behind the last entry), DOWN to the first entry of the child (reading a leaf block succeeds: its header
 *       check is C02/exthdr), UP / CURRENT */
errcode_t ext2fs_extent_get(ext2_extent_handle_t h, int flags, struct ext2fs_extent *e)
{
	if ((void *) h != (void *) &vf_handle)
		vf_bad++;
	switch (flags) {
	case EXT2_EXTENT_FIRST_SIB:
		if (VF_ROOT_IS_LEAF || vf_level == 1) vf_li = 0; else vf_ri = 0;
		break;
	case EXT2_EXTENT_NEXT_SIB:
		/* (the cursor always advances, so that it stays concrete; behind the last entry it is not used again before FIRST_SIB / DOWN) */
		if (VF_ROOT_IS_LEAF || vf_level == 1) {
			vf_li++;
			if (vf_li >= vf_count_here())
				return EXT2_ET_EXTENT_NO_NEXT;
		} else {
			vf_ri++;
			if (vf_ri >= (int) IN.ni)
				return EXT2_ET_EXTENT_NO_NEXT;
		}
		break;
	case EXT2_EXTENT_DOWN:
		if (VF_ROOT_IS_LEAF || vf_level != 0)
			vf_bad++;
		vf_level = 1;
		vf_li = 0;
		break;
	case EXT2_EXTENT_UP:
		if (vf_level != 1)
			vf_bad++;
		vf_level = 0;
		break;
	case EXT2_EXTENT_CURRENT:
		break;
	default:
		vf_bad++;
	}
	vf_fill(e);
	return 0;
}
errcode_t ext2fs_extent_get_info(ext2_extent_handle_t h, struct ext2_extent_info *info)
{
	static struct ext2_extent_info z;
	(void) h;
	*info = z;
	info->curr_level = vf_level;
	info->max_depth = DEPTH;
	info->num_entries = vf_count_here();
	info->max_entries = vf_level ? 84 : 4;
	return 0;
}
/* STUB: the modifying calls only count: with every answer no they must not be reached */
errcode_t ext2fs_extent_replace(ext2_extent_handle_t h, int flags, struct ext2fs_extent *e) { (void) h; (void) flags; (void) e; vf_nmodify++; return 0; }
errcode_t ext2fs_extent_delete(ext2_extent_handle_t h, int flags) { (void) h; (void) flags; vf_nmodify++; return 0; }
errcode_t ext2fs_extent_fix_parents(ext2_extent_handle_t h) { (void) h; vf_nmodify++; return 0; }
errcode_t ext2fs_extent_goto(ext2_extent_handle_t h, blk64_t blk) { (void) h; (void) blk; vf_nmodify++; return 0; }

/* STUB: fix_problem() records and answers no; PR_1_EXTENT_INDEX_START_INVALID is booked on the index entry the cursor's root position names */
int fix_problem(e2fsck_t ctx, problem_t code, struct problem_context *pctx)
{
	int k;
	(void) ctx;
	vf_nprob++;
	if (code == PR_1_EXTENT_INDEX_START_INVALID) {
		for (k = 0; k < NI_MAX; k++)
			if (k == vf_ri) {
				vf_nidxstart[k]++;
				if (pctx->blk != IN.idx_lblk[k] || pctx->blk2 != IN.lblk[k][0] || pctx->num != 0)
					vf_idxstart_bad++;
			}
	} else
		vf_nother++;
	return 0;
}
void clear_problem_context(struct problem_context *pctx)
{
	static struct problem_context z;
	*pctx = z;
	pctx->blkcount = -1;
	pctx->group = -1;
}
/* STUB: ext2fs_blocks_count() without the 64bit feature */
blk64_t ext2fs_blocks_count(struct ext2_super_block *super) { return super->s_blocks_count; }
/* STUB: bitmaps: block_metadata_map has no bit set (BOUND: the leaf blocks do not sit on fixed metadata); block_found_map is empty for the
 *       blocks of this file (BOUND: no block claimed before; multiply-claimed blocks are C02/p1blocks); marks are recorded in order */
int ext2fs_test_generic_bmap(ext2fs_generic_bitmap b, __u64 a) { (void) b; (void) a; return 0; }
int ext2fs_mark_generic_bmap(ext2fs_generic_bitmap b, __u64 a)
{
	int i;
	if ((void *) b != (void *) &vf_found)
		vf_bad++;
	for (i = 0; i < NMARK; i++)
		if (i == vf_nsingle)
			vf_single[i] = a;
	vf_nsingle++;
	return 0;
}
int ext2fs_test_block_bitmap_range2(ext2fs_block_bitmap b, blk64_t block, unsigned int num) { (void) b; (void) block; (void) num; return 1; }
void ext2fs_mark_block_bitmap_range2(ext2fs_block_bitmap b, blk64_t block, unsigned int num)
{
	int i;
	if ((void *) b != (void *) &vf_found)
		vf_bad++;
	for (i = 0; i < NMARK; i++)
		if (i == vf_nrange) {
			vf_range_start[i] = block;
			vf_range_num[i] = num;
		}
	vf_nrange++;
}

static int ref_pblk_ok(__u64 p) { return p != 0 && p >= IN.first_data_block && p < IN.blocks_count; }

int main(void)
{
	struct process_block_struct pb;
	static struct process_block_struct zpb;
	struct problem_context pctx;
	int k, j, W = 1, nleafext = 0, r = 0;
	__u64 prev_end = 0, total = 0;

	VF_INPUT(IN);
#if DEPTH == 1
	ASSUME(IN.ni >= 1 && IN.ni <= NI_MAX);
#else
	ASSUME(IN.ni == 1);
#endif
	for (k = 0; k < NI_MAX; k++) {
		ASSUME(IN.ne[k] >= 1 && IN.ne[k] <= NE_MAX);
		/* BOUND: what the on-disk fields can hold / the decoder delivers: 32-bit logical blocks (below 2^31 here: a 2 TiB file of 1 KiB blocks),
		 *        48-bit physical blocks, lengths up to 32768 */
		ASSUME(IN.idx_lblk[k] < FILE_BLOCKS && IN.idx_pblk[k] < (1ULL << 48));
		for (j = 0; j < NE_MAX; j++) {
			ASSUME(IN.lblk[k][j] < FILE_BLOCKS && IN.pblk[k][j] < (1ULL << 48) && IN.len[k][j] <= 32768 && IN.uninit[k][j] <= 1);
			ASSUME(IN.lblk[k][j] + IN.len[k][j] <= FILE_BLOCKS);
		}
	}
	ASSUME(IN.first_data_block <= 1 && IN.blocks_count >= 8);

	/* ---- independent predicate W ---- */
	for (k = 0; k < NI_MAX; k++)
		if (k < (int) IN.ni) {
#if DEPTH == 1
			if (!ref_pblk_ok(IN.idx_pblk[k]))
				W = 0;
			if (IN.idx_lblk[k] != IN.lblk[k][0])
				W = 0;
#endif
			for (j = 0; j < NE_MAX; j++)
				if (j < (int) IN.ne[k]) {
					if (IN.len[k][j] == 0 || !ref_pblk_ok(IN.pblk[k][j]) || IN.pblk[k][j] + IN.len[k][j] > IN.blocks_count)
						W = 0;
					if (IN.lblk[k][j] < prev_end)
						W = 0;
					prev_end = IN.lblk[k][j] + IN.len[k][j];
					total += IN.len[k][j];
					nleafext++;
				}
		}

	vf_fs.super = &vf_sb;
	vf_fs.blocksize = 1024;
	vf_sb.s_blocks_count = IN.blocks_count;
	vf_sb.s_first_data_block = IN.first_data_block;
	vf_ctx.fs = &vf_fs;
	vf_ctx.block_found_map = (ext2fs_block_bitmap) &vf_found;
	vf_ctx.block_metadata_map = (ext2fs_block_bitmap) &vf_meta;
	/* BOUND: e2fsck -n; cluster ratio 1; a regular file whose size covers 2^31 blocks; no fragmentation report */
	vf_ctx.options = (IN.options & ~(E2F_OPT_FRAGCHECK | E2F_OPT_YES | E2F_OPT_FIXES_ONLY)) | E2F_OPT_NO | E2F_OPT_READONLY;
	vf_inode.i_mode = LINUX_S_IFREG | 0644;
	vf_inode.i_flags = EXT4_EXTENTS_FL;
	vf_inode.i_size = 0;
	vf_inode.i_size_high = (__u32) ((FILE_BLOCKS * 1024) >> 32);
	clear_problem_context(&pctx);
	pctx.ino = VF_INO;
	pctx.inode = &vf_inode;
	pb = zpb;
	pb.ino = VF_INO;
	pb.is_reg = 1;
	pb.last_init_lblock = -1;
	pb.last_db_block = -1;
	pb.inode = &vf_inode;
	pb.pctx = &pctx;
	pb.ctx = &vf_ctx;
	pb.max_blocks = 1U << 31;
	pb.eti.ino = VF_INO;

	/* as check_blocks_extents(): start 0, end 0, eof = last block of the file, repairs allowed */
	scan_extent_node(&vf_ctx, &pctx, &pb, 0, 0, FILE_BLOCKS - 1, (ext2_extent_handle_t) &vf_handle, 1);

	PROP(vf_bad == 0, "the handle is driven consistently (DOWN only from an index entry, UP only from a leaf)");
	PROP(pctx.errcode == 0, "the walk ends without an error code");
	PROP(vf_nmodify == 0 && !pb.inode_modified, "answer no: the tree is not modified");
	if (!W)
		PROP(vf_nprob > 0, "an extent tree that violates the on-disk format rules raises at least one problem");
	if (W)
		PROP(vf_nprob == 0, "a well-formed extent tree raises nothing");
#if DEPTH == 1
	for (k = 0; k < NI_MAX; k++) {
		int want = k < (int) IN.ni && ref_pblk_ok(IN.idx_pblk[k]) && IN.idx_lblk[k] != IN.lblk[k][0];
		if (want)
			PROP(vf_nidxstart[k] == 1, "an index entry whose ei_block differs from the first logical block of its child (earlier OR later) raises PR_1_EXTENT_INDEX_START_INVALID");
		PROP(vf_nidxstart[k] == want, "PR_1_EXTENT_INDEX_START_INVALID exactly for the followed index entries with a wrong ei_block");
	}
	PROP(vf_idxstart_bad == 0, "PR_1_EXTENT_INDEX_START_INVALID shows the index's and the child's logical block");
#endif
	if (W) {
		/* ownership: what ends up in block_found_map */
#if DEPTH == 1
		PROP(vf_nsingle == (int) IN.ni, "every leaf block is marked in block_found_map once");
		for (k = 0; k < NI_MAX; k++)
			if (k < (int) IN.ni)
				PROP(vf_single[k] == IN.idx_pblk[k], "the leaf blocks are marked in tree order");
#else
		PROP(vf_nsingle == 0, "no single block is marked for a depth-0 tree");
#endif
		PROP(vf_nrange == nleafext, "one range is marked per extent");
		for (k = 0; k < NI_MAX; k++)
			for (j = 0; j < NE_MAX; j++)
				if (k < (int) IN.ni && j < (int) IN.ne[k]) {
					int i;
					for (i = 0; i < NMARK; i++)
						if (i == r)
							PROP(vf_range_start[i] == IN.pblk[k][j] && vf_range_num[i] == IN.len[k][j],
							     "exactly the blocks of every extent are marked in block_found_map");
					r++;
				}
		PROP(pb.num_blocks == total + (DEPTH == 1 ? IN.ni : 0), "num_blocks counts the extents' blocks and the leaf blocks");
		PROP(pb.next_lblock == prev_end, "next_lblock is the end of the last extent");
	}
	VF_END();
	return 0;
}
