/*
 * C02/dirdet: detector completeness of the directory-entry validity test inside the
 * REAL check_dir_block() (pass2.c) under e2fsck -n (every question answered no).
 *
 * One symbolic directory block of BLK bytes (plain leaf block: no htree, no checksum
 * tail, no inline data, not encrypted/casefolded) is handed to check_dir_block().
 * Independent predicate from the on-disk format (and the kernel's ext4_check_dir_entry):
 * starting at offset 0 the entries form a chain that tiles the block exactly, every
 * rec_len is >= 12, a multiple of 4 and holds the 8-byte header plus the name.
 *   predicate violated  =>  PR_2_DIR_CORRUPTED is raised and the block pass is aborted;
 *   predicate satisfied =>  PR_2_DIR_CORRUPTED is not raised;
 * and with every answer no, nothing is written and the block buffer is not modified.
 */
#include "e2fsck/pass2.c"
#include "env.c"

#ifndef BLK
#define BLK 36
#endif
#ifndef BLOCKCNT
#define BLOCKCNT 0
#endif

struct vf_in {
	unsigned char buf[BLK];
	__u32 ino, inodes_count, first_ino;
};
VF_DECLARE_INPUT(struct vf_in, IN)
#include "vf_input.inc"

static struct e2fsck_struct vf_ctx;
static struct struct_ext2_filsys vf_fs;
static struct ext2_super_block vf_sb;
static unsigned char vf_buf[2 * BLK + 8] __attribute__((aligned(8)));
static int vf_nprob, vf_ncorrupt, vf_nwrite;
static char vf_usedmap, vf_dirmap, vf_regmap;

/* STUB: fix_problem() records the code and answers no (e2fsck -n; protocol decided in C01/fixproblem) */
int fix_problem(e2fsck_t ctx, problem_t code, struct problem_context *pctx)
{
	(void) ctx; (void) pctx;
	vf_nprob++;
	if (code == PR_2_DIR_CORRUPTED)
		vf_ncorrupt++;
	return 0;
}
/* STUB: ext2fs_test_generic_bmap(): every inode is in use, none is known as directory / regular file; absent maps test 0 */
int ext2fs_test_generic_bmap(ext2fs_generic_bitmap bmap, __u64 arg)
{
	(void) arg;
	return (void *) bmap == (void *) &vf_usedmap;
}
/* STUB: ext2fs_read_dir_block4() delivers the symbolic block */
errcode_t ext2fs_read_dir_block4(ext2_filsys fs, blk64_t block, void *buf, int flags, ext2_ino_t ino)
{
	int i;
	(void) fs; (void) block; (void) flags; (void) ino;
	for (i = 0; i < BLK; i++)
		((unsigned char *) buf)[i] = IN.buf[i];
	return 0;
}
/* STUB: ext2fs_write_dir_block4() counts writes */
errcode_t ext2fs_write_dir_block4(ext2_filsys fs, blk64_t block, void *buf, int flags, ext2_ino_t ino)
{ (void) fs; (void) block; (void) buf; (void) flags; (void) ino; vf_nwrite++; return 0; }
/* STUB: no htree info, no encryption policy, directory not queued for rehash, error-handler context ignored */
struct dx_dir_info *e2fsck_get_dx_dir_info(e2fsck_t ctx, ext2_ino_t ino) { (void) ctx; (void) ino; return 0; }
__u32 find_encryption_policy(e2fsck_t ctx, ext2_ino_t ino) { (void) ctx; (void) ino; return NO_ENCRYPTION_POLICY; }
int e2fsck_dir_will_be_rehashed(e2fsck_t ctx, ext2_ino_t ino) { (void) ctx; (void) ino; return 0; }
void e2fsck_rehash_dir_later(e2fsck_t ctx, ext2_ino_t ino) { (void) ctx; (void) ino; }
const char *ehandler_operation(const char *op) { (void) op; return 0; }
/* STUB: duplicate-name dictionary: nothing is ever found (duplicate detection is outside) */
dict_t *dict_init(dict_t *d, dictcount_t m, dict_comp_t c) { (void) m; (void) c; return d; }
void dict_set_cmp_context(dict_t *d, const void *c) { (void) d; (void) c; }
dnode_t *dict_lookup(dict_t *d, const void *k) { (void) d; (void) k; return 0; }
int dict_alloc_insert(dict_t *d, const void *k, void *v) { (void) d; (void) k; (void) v; return 1; }
void dict_free_nodes(dict_t *d) { (void) d; }
/* STUB: link counting, dir_info, group descriptor flags: succeed / nothing uninitialised */
errcode_t ext2fs_icount_increment(ext2_icount_t ic, ext2_ino_t ino, __u16 *ret) { (void) ic; (void) ino; if (ret) *ret = 1; return 0; }
int e2fsck_dir_info_set_dotdot(e2fsck_t ctx, ext2_ino_t ino, ext2_ino_t dotdot) { (void) ctx; (void) ino; (void) dotdot; return 0; }
__u32 ext2fs_bg_itable_unused(ext2_filsys fs, dgrp_t group) { (void) fs; (void) group; return 0; }
int ext2fs_bg_flags_test(ext2_filsys fs, dgrp_t group, __u16 f) { (void) fs; (void) group; (void) f; return 0; }
/* STUB: fatal_error() ends the path */
void fatal_error(e2fsck_t ctx, const char *msg) { (void) ctx; (void) msg; __CPROVER_assume(0); }
#ifndef VF_REPLAY
char *gettext(const char *s) { return (char *) s; }
#endif

/* the on-disk format's rule for the whole block: a chain of valid entries tiling [0, BLK) */
static int ref_block_ok(const unsigned char *b)
{
	unsigned int o, next = 0, rl, nl;
	int ok = 1;
	for (o = 0; o + 8 <= BLK; o += 4) {
		if (o != next)
			continue;
		rl = b[o + 4] | (b[o + 5] << 8);
		nl = b[o + 6];
		if (rl < 12 || (rl & 3) || o + rl > BLK || 8 + nl > rl)
			ok = 0;
		if (!ok)
			break;
		next = o + rl;
	}
	return ok && next == BLK;
}

int main(void)
{
	struct check_dir_struct cd;
	struct ext2_db_entry2 db;
	static struct check_dir_struct cdz;
	int i, r, wf;

	VF_INPUT(IN);
	vf_fs.super = &vf_sb;
	vf_fs.blocksize = BLK;
	vf_sb.s_inodes_count = IN.inodes_count;
	vf_sb.s_first_ino = IN.first_ino;
	vf_sb.s_rev_level = 1;
	vf_sb.s_inodes_per_group = 0x10000;
	/* ASSUME: plain ext2-style leaf block: no metadata_csum, inline_data, largedir, filetype, casefold, encryption, htree index */
	vf_ctx.fs = &vf_fs;
	vf_ctx.inode_used_map = (ext2fs_inode_bitmap) &vf_usedmap;
	vf_ctx.inode_dir_map = (ext2fs_inode_bitmap) &vf_dirmap;
	vf_ctx.inode_reg_map = (ext2fs_inode_bitmap) &vf_regmap;
	cd = cdz;
	cd.buf = (char *) vf_buf;
	cd.ctx = &vf_ctx;
	ASSUME(IN.ino >= 2);
	db.ino = IN.ino;
	db.blk = 100;
	db.blockcnt = BLOCKCNT;

	r = check_dir_block(&vf_fs, &db, &cd);

	wf = ref_block_ok(IN.buf);
	if (!wf) {
		PROP(vf_nprob > 0, "a block violating the dirent format predicate raises a problem under -n");
		PROP(vf_ncorrupt > 0 && r == DIRENT_ABORT && (vf_ctx.flags & E2F_FLAG_ABORT),
		     "a block violating the dirent format predicate raises PR_2_DIR_CORRUPTED and aborts");
	} else
		PROP(vf_ncorrupt == 0, "a block satisfying the dirent format predicate raises no PR_2_DIR_CORRUPTED");
	PROP(vf_nwrite == 0, "with every answer no the block is never written");
	for (i = 0; i < BLK; i++)
		PROP(vf_buf[i] == IN.buf[i], "with every answer no the block buffer is not modified");
	VF_END();
	return 0;
}
