/*
 * C02/p5blocks (ANSWER 0) and C01/p5blocks (ANSWER 1): the REAL check_block_bitmaps() of pass 5
 * (e2fsck/pass5.c), the place where e2fsck decides "block bitmap and free-block counts agree with
 * what passes 1-4 found", with print_bitmap_problem(), the memcmp fast path, the real descriptor
 * accessors of blknum.c and the real ext2fs_bitcount().
 *
 * NG groups of 8 blocks (cluster ratio 1), first data block 0 or 1, the last group 1..8 blocks long.
 * Symbolic: every bit of ctx->block_found_map (what passes 1-4 found in use) and of fs->block_map
 * (what the disk says), every byte of the NG group descriptors (free counts, BLOCK_UNINIT flag, ...),
 * the superblock free-block count, the ro_compat feature word, fs->flags.
 *
 * Independent reference (plain loops over the bit arrays; descriptor fields by on-disk byte offset:
 * bg_free_blocks_count_lo = le16 at byte 12, _hi = le16 at byte 44 of a 64-byte descriptor,
 * bg_flags = le16 at byte 18, BLOCK_UNINIT = 0x2):
 *   d(p) = +1 if p is found in use but free on disk, -1 if free but in use on disk, 0 if equal.
 *   The bitmap problems raised are exactly one per MAXIMAL run of equal non-zero d: PR_5_BLOCK_USED /
 *   PR_5_BLOCK_UNUSED for a run of length 1 (blk = p, blk2 = 0), PR_5_BLOCK_RANGE_USED / _UNUSED for a
 *   longer run (blk = first, blk2 = last).  PR_5_BLOCK_UNINIT for a block found in use in a
 *   BLOCK_UNINIT group.
 *   ANSWER 0 (e2fsck -n): PR_5_FREE_BLOCK_COUNT_GROUP for group g iff the stored count differs from the
 *   number of zero bits of the DISK bitmap in g; PR_5_FREE_BLOCK_COUNT iff the superblock count differs
 *   from the sum; so (headline) when NOTHING is raised the disk bitmap equals the found map and every
 *   count equals the number of blocks not found in use.  Nothing is modified; the fs is un-marked valid
 *   iff a bitmap or per-group count problem was raised.
 *   ANSWER 1 (e2fsck -y): afterwards fs->block_map == block_found_map bit for bit (padding reset),
 *   every stored count == the number of blocks not found in use, BLOCK_UNINIT is cleared on groups with
 *   a block in use that the disk did not show, the block bitmap is marked dirty iff it changed, the
 *   super is marked dirty when a count changed, no other descriptor byte changes.  Then flush + reload
 *   is modelled and the kernel runs again: it raises nothing and changes nothing.
 */
#ifndef ANSWER
#define ANSWER 0
#endif
#ifndef NG
#define NG 2
#endif
#ifndef DSZ
#define DSZ 32
#endif
#ifndef FDB
#define FDB 1		/* first data block */
#endif
#ifndef LAST
#define LAST 8		/* blocks in the last group */
#endif
#define CPG 8
#define VF_NPOS (NG * CPG + 1)
#define VF_BLOCKS (FDB + CPG * (NG - 1) + LAST)

#include "e2fsck/pass5.c"
#include "env.c"
#include "p5model.h"

struct vf_in {
	unsigned char found[VF_NPOS], disk[VF_NPOS];
	unsigned char gd[NG * DSZ];
	__u32 free_lo, free_hi, ro_compat, fsflags;
};
VF_DECLARE_INPUT(struct vf_in, IN)
#include "vf_input.inc"

static struct e2fsck_struct vf_ctx;
static struct struct_ext2_filsys vf_fs;
static struct ext2_super_block vf_sb;
static unsigned char vf_gd[NG * DSZ + 8] __attribute__((aligned(8)));
static struct vf_bm vf_found, vf_disk;

/* what fix_problem() saw */
static int vf_nprob, vf_nother, vf_badarg;
static unsigned char vf_used_at[VF_NPOS], vf_unused_at[VF_NPOS];	/* bitmap problems (+ / -) whose first block is p */
static unsigned char vf_used_cov[VF_NPOS], vf_unused_cov[VF_NPOS];	/* bitmap problems (+ / -) whose block or range contains p */
static unsigned char vf_uninit_at[VF_NPOS];
static int vf_uninit_grp_bad;
static int vf_cntg[NG], vf_cnt;
static __u64 vf_cntg_stored[NG], vf_cntg_counted[NG], vf_cnt_stored, vf_cnt_counted;

/* STUB: fix_problem() records code and context and answers ANSWER (0 = e2fsck -n, 1 = -y; protocol decided in C01/fixproblem) */
int fix_problem(e2fsck_t ctx, problem_t code, struct problem_context *pctx)
{
	int p, g;
	(void) ctx;
	vf_nprob++;
	switch (code) {
	case PR_5_BLOCK_USED:
	case PR_5_BLOCK_RANGE_USED:
	case PR_5_BLOCK_UNUSED:
	case PR_5_BLOCK_RANGE_UNUSED: {
		int used = (code == PR_5_BLOCK_USED || code == PR_5_BLOCK_RANGE_USED);
		int rng = (code == PR_5_BLOCK_RANGE_USED || code == PR_5_BLOCK_RANGE_UNUSED);
		blk64_t last = rng ? pctx->blk2 : pctx->blk;
		/* a single block comes with blk2 == 0 ("+%b"), a range with blk < blk2 ("+(%b--%c)") */
		if (pctx->blk >= VF_NPOS || (rng ? pctx->blk2 <= pctx->blk || pctx->blk2 >= VF_NPOS : pctx->blk2 != 0))
			vf_badarg++;
		for (p = 0; p < VF_NPOS; p++) {
			if (pctx->blk == (blk64_t) p) {
				if (used) vf_used_at[p]++; else vf_unused_at[p]++;
			}
			if ((blk64_t) p >= pctx->blk && (blk64_t) p <= last) {
				if (used) vf_used_cov[p]++; else vf_unused_cov[p]++;
			}
		}
		break;
	}
	case PR_5_BLOCK_UNINIT:
		for (p = 0; p < VF_NPOS; p++)
			if (pctx->blk == (blk64_t) p) {
				vf_uninit_at[p]++;
				if (p < (int) FDB ||
				    pctx->group != (dgrp_t) ((p - (int) FDB) / CPG))
					vf_uninit_grp_bad++;
			}
		if (pctx->blk >= VF_NPOS)
			vf_badarg++;
		break;
	case PR_5_FREE_BLOCK_COUNT_GROUP:
		for (g = 0; g < NG; g++)
			if (pctx->group == (dgrp_t) g) {
				vf_cntg[g]++;
				vf_cntg_stored[g] = pctx->blk;
				vf_cntg_counted[g] = pctx->blk2;
			}
		if (pctx->group >= NG)
			vf_badarg++;
		break;
	case PR_5_FREE_BLOCK_COUNT:
		vf_cnt++;
		vf_cnt_stored = pctx->blk;
		vf_cnt_counted = pctx->blk2;
		break;
	default:
		vf_nother++;
	}
	return ANSWER;
}
/* STUB: io_channel_discard() succeeds and records every block of the range (only reached with -DDISCARD = -E discard) */
static int vf_ndiscard, vf_discard_bad;
static unsigned char vf_discarded[VF_NPOS];
errcode_t io_channel_discard(io_channel channel, unsigned long long block, unsigned long long count)
{
	int p;
	(void) channel;
	vf_ndiscard++;
	if (count == 0 || block + count > VF_NPOS)
		vf_discard_bad++;
	for (p = 0; p < VF_NPOS; p++)
		if ((unsigned long long) p >= block && (unsigned long long) p < block + count)
			vf_discarded[p] = 1;
	return 0;
}

/* independent readers of the descriptor bytes */
static __u64 ref_stored(const unsigned char *gd, int g)
{
	__u64 v = ref_le16(gd + g * DSZ + 12);
#if DSZ == 64
	v |= (__u64) ref_le16(gd + g * DSZ + 44) << 16;
#endif
	return v;
}
static int ref_uninit(const unsigned char *gd, int g) { return (gd[g * DSZ + 18] & 0x02) != 0; }

int main(void)
{
	int p, g, lo, hi, i;
	int d[VF_NPOS + 1];
	int nruns = 0, nuninit = 0, ncnt = 0, anydiff = 0, seen_used;
	__u64 ref_free_found[NG], ref_free_disk[NG], tot_found = 0, tot_disk = 0, stored_total;
	unsigned int f0;

	VF_INPUT(IN);
	/* BOUND: first data block FDB (0 / 1), NG groups of 8 blocks, cluster ratio 1, the last group holds LAST (1..8) blocks: compile-time */
	lo = FDB;
	hi = VF_BLOCKS - 1;
#ifdef SECOND
	/*
	 * SECOND: the state a finished e2fsck -y run leaves on disk, as established by the ANSWER 1 queries of this harness
	 * (labels "reloaded: ..."): the on-disk bitmap equals the found map, every stored count equals the number of blocks not
	 * found in use.  ASSUME: passes 1-4 of the next run find the same blocks in use (they read neither block bitmap nor free counts).
	 */
	for (p = 0; p < VF_NPOS; p++) {
		ASSUME(IN.found[p] <= 1);
		if (p >= lo && p <= hi)
			IN.disk[p] = IN.found[p];
	}
#endif
	for (p = 0; p < VF_NPOS; p++)
		ASSUME(IN.found[p] <= 1 && IN.disk[p] <= 1);
	/* ---- independent reference ---- */
	for (g = 0; g < NG; g++)
		ref_free_found[g] = ref_free_disk[g] = 0;
	for (p = 0; p <= VF_NPOS; p++)
		d[p] = 0;
	for (p = 0; p < VF_NPOS; p++)
		if (p >= lo && p <= hi) {
			d[p] = (int) IN.found[p] - (int) IN.disk[p];
			if (d[p])
				anydiff = 1;
			for (g = 0; g < NG; g++)
				if ((p - lo) / CPG == g) {
					ref_free_found[g] += !IN.found[p];
					ref_free_disk[g] += !IN.disk[p];
				}
		}
	for (g = 0; g < NG; g++) {
		tot_found += ref_free_found[g];
		tot_disk += ref_free_disk[g];
	}
#ifdef SECOND
	for (g = 0; g < NG; g++) {
		IN.gd[g * DSZ + 12] = (unsigned char) ref_free_found[g];
		IN.gd[g * DSZ + 13] = 0;
#if DSZ == 64
		IN.gd[g * DSZ + 44] = IN.gd[g * DSZ + 45] = 0;
#endif
	}
	IN.free_lo = (__u32) tot_found;
	IN.free_hi = 0;
#endif
	for (p = 0; p < VF_NPOS; p++) {
		vf_found.bit[p] = IN.found[p];
		vf_disk.bit[p] = IN.disk[p];
	}
	/* ASSUME: both bitmaps span [first data block, blocks_count - 1] as ext2fs_allocate_block_bitmap makes them */
	vf_found.start = vf_disk.start = FDB;
	vf_found.end = vf_disk.end = VF_BLOCKS - 1;
	for (i = 0; i < NG * DSZ; i++)
		vf_gd[i] = IN.gd[i];
	vf_fs.super = &vf_sb;
	vf_fs.blocksize = 64;
	vf_fs.group_desc_count = NG;
	vf_fs.group_desc = (struct opaque_ext2_group_desc *) vf_gd;
	vf_fs.block_map = (ext2fs_block_bitmap) &vf_disk;
	/* ASSUME: pass 5 starts with clean bitmap-dirty flags is NOT assumed: fs->flags symbolic */
	vf_fs.flags = IN.fsflags;
	f0 = IN.fsflags;
	vf_sb.s_first_data_block = FDB;
	vf_sb.s_blocks_count = VF_BLOCKS;
	vf_sb.s_clusters_per_group = CPG;
	vf_sb.s_blocks_per_group = CPG;
	vf_sb.s_free_blocks_count = IN.free_lo;
	vf_sb.s_feature_ro_compat = IN.ro_compat & ~EXT4_FEATURE_RO_COMPAT_BIGALLOC;
#if DSZ == 64
	vf_sb.s_feature_incompat = EXT4_FEATURE_INCOMPAT_64BIT;
	vf_sb.s_desc_size = 64;
	vf_sb.s_free_blocks_hi = IN.free_hi;
	stored_total = IN.free_lo | ((__u64) IN.free_hi << 32);
#else
	stored_total = IN.free_lo;
#endif
	vf_ctx.fs = &vf_fs;
	vf_ctx.block_found_map = (ext2fs_block_bitmap) &vf_found;
#ifdef DISCARD
	/* BOUND: -E discard on (this also switches the per-group memcmp fast path off); no progress callback */
	vf_ctx.options = E2F_OPT_DISCARD;
#else
	/* BOUND: -E discard off; no progress callback */
	vf_ctx.options = 0;
#endif

	check_block_bitmaps(&vf_ctx);

	PROP(!vf_range_err, "no bitmap access outside [first data block, blocks_count - 1]");
	PROP(vf_badarg == 0 && vf_nother == 0, "only pass-5 block problems with in-range arguments are raised");
	PROP(!(vf_ctx.flags & E2F_FLAG_ABORT), "valid bitmap endpoints: no abort");
	for (p = 0; p < VF_NPOS; p++) {
		/* a maximal run of equal differences starts at p */
		int start = d[p] != 0 && (p == 0 || d[p - 1] != d[p]);
		if (start)
			nruns++;
		if (d[p] > 0)
			PROP(vf_used_cov[p] >= 1, "a block found in use but free in the on-disk bitmap is reported (PR_5_BLOCK_USED / RANGE_USED)");
		if (d[p] < 0)
			PROP(vf_unused_cov[p] >= 1, "a block in use in the on-disk bitmap but not found in use is reported (PR_5_BLOCK_UNUSED / RANGE_UNUSED)");
		PROP(vf_used_cov[p] == (d[p] > 0) && vf_unused_cov[p] == (d[p] < 0),
		     "the reported blocks / ranges name exactly the differing blocks, each once, with the right sign");
		PROP(vf_used_at[p] == (start && d[p] > 0) && vf_unused_at[p] == (start && d[p] < 0),
		     "one report per maximal run of equal differences (adjacent blocks are merged into a range)");
	}
	/* PR_5_BLOCK_UNINIT: ANSWER 0 every such block; ANSWER 1 the first of its group (the flag is cleared then) */
	for (g = 0; g < NG; g++) {
		seen_used = 0;
		for (p = 0; p < VF_NPOS; p++)
			if (p >= lo && p <= hi && (p - lo) / CPG == g) {
				int want = d[p] > 0 && ref_uninit(IN.gd, g) && !(ANSWER && seen_used);
				PROP(vf_uninit_at[p] == want, "PR_5_BLOCK_UNINIT exactly for a block in use in a group flagged BLOCK_UNINIT");
				nuninit += want;
				if (d[p] > 0)
					seen_used = 1;
			}
	}
	PROP(vf_uninit_grp_bad == 0, "PR_5_BLOCK_UNINIT names the block's own group");
	PROP(vf_nlatch == (anydiff ? 1 : 0) && (!anydiff || vf_latch_mask == PR_LATCH_BBITMAP),
	     "the block-bitmap latch is closed once iff a difference was reported");
	for (g = 0; g < NG; g++) {
		__u64 want = ANSWER ? ref_free_found[g] : ref_free_disk[g];
		int bad = ref_stored(IN.gd, g) != want;
		if (bad)
			PROP(vf_cntg[g] == 1, "a group whose stored free-block count differs from the bitmap's raises PR_5_FREE_BLOCK_COUNT_GROUP");
		PROP(vf_cntg[g] == bad, "PR_5_FREE_BLOCK_COUNT_GROUP exactly for the groups whose count is wrong");
		if (bad)
			PROP(vf_cntg_stored[g] == ref_stored(IN.gd, g) && vf_cntg_counted[g] == want,
			     "PR_5_FREE_BLOCK_COUNT_GROUP shows the stored and the counted value");
		ncnt += bad;
	}
	{
		__u64 want = ANSWER ? tot_found : tot_disk;
		int bad = stored_total != want;
		PROP(vf_cnt == bad, "PR_5_FREE_BLOCK_COUNT exactly when the superblock's free-block count is wrong");
		if (bad)
			PROP(vf_cnt_stored == stored_total && vf_cnt_counted == want, "PR_5_FREE_BLOCK_COUNT shows the stored and the counted value");
		ncnt += bad;
	}
	/* (every fix_problem() call lands in exactly one of the per-block / per-group slots checked above, in vf_nother or in vf_badarg,
	 *  so "nothing else is raised" needs no separate count comparison -- which would be an adder-equivalence problem for the solver) */
	PROP((vf_nprob == 0) == (nruns + nuninit + ncnt == 0), "silence iff the reference expects no problem");
	if (vf_nprob == 0) {
		/* headline of C02 for this kernel: silence implies agreement with what passes 1-4 found */
		for (p = 0; p < VF_NPOS; p++)
			if (p >= lo && p <= hi)
				PROP(IN.disk[p] == IN.found[p], "silent => on-disk block bitmap equals the blocks found in use");
		for (g = 0; g < NG; g++)
			PROP(ref_stored(IN.gd, g) == ref_free_found[g], "silent => every group's free-block count equals the blocks not found in use");
		PROP(stored_total == tot_found, "silent => the superblock's free-block count equals the blocks not found in use");
	}
#ifdef DISCARD
	PROP(vf_discard_bad == 0, "discard ranges are non-empty and inside the filesystem");
	for (p = 0; p < VF_NPOS; p++)
		if (vf_discarded[p]) {
			int q, clean = 1;
			for (q = 0; q < VF_NPOS; q++)
				if (q <= p && d[q])
					clean = 0;
			PROP(p >= lo && p <= hi && !IN.found[p] && !IN.disk[p], "-E discard: only blocks free in both bitmaps are discarded (never a block found in use)");
			PROP(clean && !(f0 & EXT2_FLAG_CHANGED), "-E discard: nothing is discarded once a difference was seen or the fs was changed");
		}
#else
	PROP(vf_ndiscard == 0, "no discard without -E discard");
#endif
	PROP(!(vf_ctx.flags & E2F_FLAG_PROG_SUPPRESS), "progress suppression is lifted");

#if ANSWER == 0
	PROP(vf_fs.block_map == (ext2fs_block_bitmap) &vf_disk && vf_ncopy == 0 && vf_nfree == 0, "answer no: the bitmap object is kept");
	for (p = 0; p < VF_NPOS; p++)
		PROP(vf_disk.bit[p] == IN.disk[p] && vf_found.bit[p] == IN.found[p], "answer no: no bit changes");
	for (i = 0; i < NG * DSZ; i++)
		PROP(vf_gd[i] == IN.gd[i], "answer no: the group descriptors are not modified");
	PROP(vf_sb.s_free_blocks_count == IN.free_lo, "answer no: the superblock count is not modified");
	PROP(((vf_fs.flags ^ f0) & ~EXT2_FLAG_VALID) == 0, "answer no: nothing is marked dirty (only EXT2_FLAG_VALID may change)");
	{
		int grpbad = 0;
		for (g = 0; g < NG; g++)
			grpbad |= ref_stored(IN.gd, g) != ref_free_disk[g];
		if (anydiff || grpbad)
			PROP(!(vf_fs.flags & EXT2_FLAG_VALID), "answer no: a bitmap difference or a wrong group count un-marks the fs valid (exit status != 0)");
		else
			PROP(vf_fs.flags == f0, "answer no: consistent bitmap and group counts leave fs->flags alone");
	}
#else
	{
		struct vf_bm *m = (struct vf_bm *) vf_fs.block_map;
		int changed_cnt = 0;

		PROP(anydiff ? (m == &vf_copy && vf_ncopy == 1 && vf_nfree == 1 && vf_freed == (void *) &vf_disk &&
				vf_npad == 1 && vf_padded == (void *) &vf_copy)
			     : (m == &vf_disk && vf_ncopy == 0 && vf_nfree == 0),
		     "yes: the on-disk bitmap object is replaced by a copy of the found map (padding reset) iff they differed");
		PROP(m->start == FDB && m->end == VF_BLOCKS - 1, "yes: the repaired bitmap spans the same range");
		for (p = 0; p < VF_NPOS; p++) {
			if (p >= lo && p <= hi)
				PROP(m->bit[p] == IN.found[p], "yes: afterwards fs->block_map equals block_found_map");
			PROP(vf_found.bit[p] == IN.found[p], "yes: block_found_map is not modified");
		}
		PROP(((vf_fs.flags & EXT2_FLAG_BB_DIRTY) != 0) == (anydiff || (f0 & EXT2_FLAG_BB_DIRTY)),
		     "yes: the block bitmap is marked dirty iff it was replaced");
		for (g = 0; g < NG; g++) {
			PROP(ref_stored(vf_gd, g) == ref_free_found[g], "yes: afterwards every group's free-block count equals the blocks not found in use");
			changed_cnt |= ref_stored(IN.gd, g) != ref_free_found[g];
			seen_used = 0;
			for (p = 0; p < VF_NPOS; p++)
				if (p >= lo && p <= hi && (p - lo) / CPG == g && d[p] > 0)
					seen_used = 1;
			PROP(ref_uninit(vf_gd, g) == (ref_uninit(IN.gd, g) && !seen_used),
			     "yes: BLOCK_UNINIT is cleared exactly on groups with a block in use that the disk did not show");
		}
		changed_cnt |= stored_total != tot_found;
#if DSZ == 64
		PROP((vf_sb.s_free_blocks_count | ((__u64) vf_sb.s_free_blocks_hi << 32)) == tot_found, "yes: afterwards the superblock's free-block count equals the blocks not found in use");
#else
		PROP(vf_sb.s_free_blocks_count == tot_found, "yes: afterwards the superblock's free-block count equals the blocks not found in use");
#endif
		if (changed_cnt)
			PROP((vf_fs.flags & EXT2_FLAG_DIRTY) && (vf_fs.flags & EXT2_FLAG_CHANGED), "yes: a corrected count marks the super dirty");
		PROP(((vf_fs.flags ^ f0) & ~(EXT2_FLAG_BB_DIRTY | EXT2_FLAG_DIRTY | EXT2_FLAG_CHANGED)) == 0, "yes: no other fs flag changes");
		if (vf_nprob == 0)
			PROP(vf_fs.flags == f0, "yes: no problem, nothing dirtied");
		for (i = 0; i < NG * DSZ; i++) {
			int k = i % DSZ;
			if (k == 12 || k == 13 || k == 18 || (DSZ == 64 && (k == 44 || k == 45)))
				continue;
			PROP(vf_gd[i] == IN.gd[i], "yes: no other descriptor byte changes");
		}
		for (g = 0; g < NG; g++)
			PROP(((vf_gd[g * DSZ + 18] ^ IN.gd[g * DSZ + 18]) & ~0x02) == 0, "yes: no other bg_flags bit changes");

		/*
		 * flush + reload: what the NEXT e2fsck run will load (its behaviour on exactly this state is the SECOND query).
		 * ASSUME: e2fsck's main always flushes superblock and descriptors after a read-write run (unix.c marks the super dirty
		 *         unconditionally before the flush); the block bitmap is written iff EXT2_FLAG_BB_DIRTY; a group that is (still)
		 *         BLOCK_UNINIT under a group-descriptor checksum feature is neither written nor read: the loader reconstructs
		 *         it, giving what it gave before this run.
		 */
		/* ASSUME: pass 1 marks in block_found_map every block the loader sets when it reconstructs the bitmap of a BLOCK_UNINIT group
		 *         (superblock / descriptor backups, the group's own bitmaps and inode table): in such a group the disk shows no block
		 *         in use that was not found in use.  Placed here on purpose: only the "reloaded" properties below depend on it. */
		for (g = 0; g < NG; g++)
			if ((IN.ro_compat & 0x0410) && ref_uninit(IN.gd, g))
				for (p = 0; p < VF_NPOS; p++)
					if (p >= lo && p <= hi && (p - lo) / CPG == g)
						ASSUME(!(IN.disk[p] && !IN.found[p]));
		for (g = 0; g < NG; g++) {
			int csum = (IN.ro_compat & 0x0410) != 0;	/* GDT_CSUM 0x10 | METADATA_CSUM 0x400 */
			int written = (vf_fs.flags & EXT2_FLAG_BB_DIRTY) && !(csum && ref_uninit(vf_gd, g));
			for (p = 0; p < VF_NPOS; p++)
				if (p >= lo && p <= hi && (p - lo) / CPG == g)
					PROP((written ? m->bit[p] : IN.disk[p]) == IN.found[p],
					     "reloaded: the block bitmap the next run loads equals the blocks found in use (the repaired bitmap was marked dirty)");
		}
#ifdef SECOND
		PROP(vf_nprob == 0 && vf_nlatch == 0, "second run (on the reloaded state) raises no problem");
		PROP(vf_fs.flags == f0 && vf_ncopy == 0 && vf_nfree == 0, "second run dirties nothing and keeps the bitmap object");
		for (i = 0; i < NG * DSZ; i++)
			PROP(vf_gd[i] == IN.gd[i], "second run changes no descriptor");
		PROP(vf_sb.s_free_blocks_count == IN.free_lo, "second run keeps the superblock count");
#endif
	}
#endif
	VF_END();
	return 0;
}
