/*
 * C02/htreeleaf: detector completeness of the htree-leaf hash bookkeeping inside the REAL
 * check_dir_block() (pass2.c) under e2fsck -n (every question answered no).
 *
 * For a block of an indexed directory check_dir_block() records, in dx_dir->dx_block[blockcnt],
 * whether the block is a leaf or an interior node and, for a leaf, the smallest and the largest
 * name hash found in it.  The end of e2fsck_pass2() compares these with the range the index
 * assigns to the block (PR_2_HTREE_MIN_HASH / PR_2_HTREE_MAX_HASH): an entry that an indexed
 * lookup cannot find is only reported if the recorded extremes are right.
 *
 * One symbolic block of BLK bytes, logical block BLOCKCNT >= 1 of an indexed directory; the
 * pre-state of its dx_block slot is symbolic (stale values must be overwritten); the name hash
 * (ext2fs_dirhash2) is a stub returning an arbitrary symbolic 32-bit hash PER ENTRY POSITION, so
 * every order and every coincidence of hashes is covered.  Independent scan of the on-disk format:
 * the chain of entries from offset 0; an entry is live if its inode number is non-zero and legal
 * (root or >= s_first_ino, <= s_inodes_count; an illegal one raises PR_2_BAD_INO instead).
 *   well-formed block  =>  every live entry is hashed exactly once over exactly its name bytes with
 *                          the directory's hash version and the superblock's seed, nothing else is;
 *                          min_hash == min, max_hash == max over the live entries' hashes
 *                          (0xffffffff / 0, the neutral elements, for none);
 *   the block is classified interior node exactly when it is the format's fake-dirent pattern
 *   (then and only then parse_int_node() runs); physical block number recorded;
 *   with every answer no nothing is written and the block buffer is not modified.
 */
struct struct_ext2_filsys; struct ext2_db_entry2; struct check_dir_struct; struct dx_dir_info;
static void parse_int_node(struct struct_ext2_filsys *fs, struct ext2_db_entry2 *db, struct check_dir_struct *cd,
			   struct dx_dir_info *dx_dir, char *block_buf, int failed_csum);	/* cut */
#include "e2fsck/pass2.c"
#include "env.c"

#ifndef BLK
#define BLK 48
#endif
#ifndef BLOCKCNT
#define BLOCKCNT 1
#endif
#ifndef HASHV
#define HASHV 1		/* EXT2_HASH_HALF_MD4 */
#endif
#define NSLOT (BLK / 4)

struct vf_in {
	unsigned char buf[BLK];
	__u32 hash[NSLOT];		/* the hash the stub returns for an entry starting at byte 4*p */
	__u32 ino, inodes_count, first_ino;
	__u32 pre_min, pre_max, pre_type;
};
VF_DECLARE_INPUT(struct vf_in, IN)
#include "vf_input.inc"

static struct e2fsck_struct vf_ctx;
static struct struct_ext2_filsys vf_fs;
static struct ext2_super_block vf_sb;
static unsigned char vf_buf[2 * BLK + 8] __attribute__((aligned(8)));
static struct dx_dir_info vf_dx;
static struct dx_dirblock_info vf_dxb[BLOCKCNT + 2];
static int vf_nprob, vf_ncorrupt, vf_nwrite, vf_nparse, vf_argbad;
static int vf_hashed[NSLOT];
static char vf_usedmap, vf_dirmap, vf_regmap;

/* STUB: fix_problem() records the code and answers no (e2fsck -n; protocol decided in C01/fixproblem) */
int fix_problem(e2fsck_t ctx, problem_t code, struct problem_context *pctx)
{
	(void) ctx; (void) pctx;
	vf_nprob++;
	if (code == PR_2_DIR_CORRUPTED)
		vf_ncorrupt++;
	return 0;
}
/* STUB: ext2fs_dirhash2() returns the symbolic hash of the entry position it is called for and records the call
 *       (the hash functions themselves are decided in C15) */
errcode_t ext2fs_dirhash2(int version, const char *name, int len, const struct ext2fs_nls_table *charset,
			  int hash_flags, const __u32 *seed, ext2_dirhash_t *ret_hash, ext2_dirhash_t *ret_minor_hash)
{
	long off = name - (const char *) vf_buf - 8;
	__u32 h = 0;
	int p, hit = 0;
	(void) charset;
	for (p = 0; p < NSLOT; p++)
		if (off == 4 * p) {
			h = IN.hash[p];
			vf_hashed[p]++;
			hit = 1;
			if (len != IN.buf[4 * p + 6])	/* name_len: byte 6 of the entry (no filetype feature: byte 7 is its high byte) */
				vf_argbad++;
		}
	if (!hit || version != HASHV || hash_flags != 0 || seed != vf_sb.s_hash_seed)
		vf_argbad++;
	*ret_hash = h;
	if (ret_minor_hash)
		*ret_minor_hash = 0;
	return 0;
}
/* STUB: parse_int_node() is cut: records the call (interior nodes: outside) */
static void parse_int_node(struct struct_ext2_filsys *fs, struct ext2_db_entry2 *db, struct check_dir_struct *cd,
			   struct dx_dir_info *dx_dir, char *block_buf, int failed_csum)
{ (void) fs; (void) db; (void) cd; (void) dx_dir; (void) block_buf; (void) failed_csum; vf_nparse++; }
/* STUB: ext2fs_test_generic_bmap(): every inode is in use, none is known as directory / regular file; absent maps test 0 */
int ext2fs_test_generic_bmap(ext2fs_generic_bitmap bmap, __u64 arg)
{
	(void) arg;
	return (void *) bmap == (void *) &vf_usedmap;
}
/* STUB: ext2fs_read_dir_block4() delivers the symbolic block */
errcode_t ext2fs_read_dir_block4(ext2_filsys fs, blk64_t block, void *buf, int flags, ext2_ino_t ino)
{
	int i;
	(void) fs; (void) block; (void) flags; (void) ino;
	for (i = 0; i < BLK; i++)
		((unsigned char *) buf)[i] = IN.buf[i];
	return 0;
}
/* STUB: ext2fs_write_dir_block4() counts writes */
errcode_t ext2fs_write_dir_block4(ext2_filsys fs, blk64_t block, void *buf, int flags, ext2_ino_t ino)
{ (void) fs; (void) block; (void) buf; (void) flags; (void) ino; vf_nwrite++; return 0; }
/* STUB: e2fsck_get_dx_dir_info(): the directory is indexed, BLOCKCNT + 2 blocks long, hash version HASHV (set from the root block) */
struct dx_dir_info *e2fsck_get_dx_dir_info(e2fsck_t ctx, ext2_ino_t ino) { (void) ctx; (void) ino; return &vf_dx; }
/* STUB: no encryption policy, directory not queued for rehash, error-handler context ignored */
__u32 find_encryption_policy(e2fsck_t ctx, ext2_ino_t ino) { (void) ctx; (void) ino; return NO_ENCRYPTION_POLICY; }
int e2fsck_dir_will_be_rehashed(e2fsck_t ctx, ext2_ino_t ino) { (void) ctx; (void) ino; return 0; }
void e2fsck_rehash_dir_later(e2fsck_t ctx, ext2_ino_t ino) { (void) ctx; (void) ino; }
const char *ehandler_operation(const char *op) { (void) op; return 0; }
/* STUB: duplicate-name dictionary: nothing is ever found (duplicate detection is outside) */
dict_t *dict_init(dict_t *d, dictcount_t m, dict_comp_t c) { (void) m; (void) c; return d; }
void dict_set_cmp_context(dict_t *d, const void *c) { (void) d; (void) c; }
dnode_t *dict_lookup(dict_t *d, const void *k) { (void) d; (void) k; return 0; }
int dict_alloc_insert(dict_t *d, const void *k, void *v) { (void) d; (void) k; (void) v; return 1; }
void dict_free_nodes(dict_t *d) { (void) d; }
/* STUB: link counting, dir_info, group descriptor flags: succeed / nothing uninitialised */
errcode_t ext2fs_icount_increment(ext2_icount_t ic, ext2_ino_t ino, __u16 *ret) { (void) ic; (void) ino; if (ret) *ret = 1; return 0; }
int e2fsck_dir_info_set_dotdot(e2fsck_t ctx, ext2_ino_t ino, ext2_ino_t dotdot) { (void) ctx; (void) ino; (void) dotdot; return 0; }
__u32 ext2fs_bg_itable_unused(ext2_filsys fs, dgrp_t group) { (void) fs; (void) group; return 0; }
int ext2fs_bg_flags_test(ext2_filsys fs, dgrp_t group, __u16 f) { (void) fs; (void) group; (void) f; return 0; }
/* STUB: fatal_error() ends the path */
void fatal_error(e2fsck_t ctx, const char *msg) { (void) ctx; (void) msg; __CPROVER_assume(0); }
#ifndef VF_REPLAY
char *gettext(const char *s) { return (char *) s; }
#endif

static __u32 ref_min, ref_max;
static int ref_live[NSLOT];
/* the on-disk format: a chain of valid entries tiling [0, BLK); collects the live entries and the extremes of their hashes */
static int ref_scan(const unsigned char *b)
{
	unsigned int o, next = 0, rl, nl;
	unsigned long ino;
	int ok = 1;
	ref_min = 0xffffffffu;
	ref_max = 0;
	for (o = 0; o + 8 <= BLK; o += 4) {
		if (o != next)
			continue;
		rl = b[o + 4] | (b[o + 5] << 8);
		nl = b[o + 6];
		if (rl < 12 || (rl & 3) || o + rl > BLK || 8 + nl > rl)
			ok = 0;
		if (!ok)
			break;
		ino = b[o] | (b[o + 1] << 8) | ((unsigned long) b[o + 2] << 16) | ((unsigned long) b[o + 3] << 24);
		if (ino != 0 && (ino == 2 || ino >= IN.first_ino) && ino <= IN.inodes_count) {
			ref_live[o / 4] = 1;
			if (IN.hash[o / 4] < ref_min)
				ref_min = IN.hash[o / 4];
			if (IN.hash[o / 4] > ref_max)
				ref_max = IN.hash[o / 4];
		}
		next = o + rl;
	}
	return ok && next == BLK;
}
/* the format's interior-node pattern: one empty dirent spanning the block, then count/limit with limit == (BLK - 8) / 8 */
static int ref_is_node(const unsigned char *b)
{
	return !b[0] && !b[1] && !b[2] && !b[3] && (b[4] | (b[5] << 8)) == BLK && b[6] == 0 &&
	       (b[8] | (b[9] << 8)) == (BLK - 8) / 8;
}

int main(void)
{
	struct check_dir_struct cd;
	struct ext2_db_entry2 db;
	static struct check_dir_struct cdz;
	int i, r, wf, node;

	VF_INPUT(IN);
	vf_fs.super = &vf_sb;
	vf_fs.blocksize = BLK;
	vf_sb.s_inodes_count = IN.inodes_count;
	vf_sb.s_first_ino = IN.first_ino;
	vf_sb.s_rev_level = 1;
	vf_sb.s_inodes_per_group = 0x10000;
	/* ASSUME: no metadata_csum, inline_data, largedir, filetype, casefold, encryption; hash version HASHV (not siphash) */
	vf_ctx.fs = &vf_fs;
	vf_ctx.inode_used_map = (ext2fs_inode_bitmap) &vf_usedmap;
	vf_ctx.inode_dir_map = (ext2fs_inode_bitmap) &vf_dirmap;
	vf_ctx.inode_reg_map = (ext2fs_inode_bitmap) &vf_regmap;
	vf_dx.ino = IN.ino;
	vf_dx.depth = 1;
	vf_dx.hashversion = HASHV;
	vf_dx.numblocks = BLOCKCNT + 2;
	vf_dx.dx_block = vf_dxb;
	vf_dxb[BLOCKCNT].min_hash = IN.pre_min;
	vf_dxb[BLOCKCNT].max_hash = IN.pre_max;
	vf_dxb[BLOCKCNT].type = (int) IN.pre_type;
	cd = cdz;
	cd.buf = (char *) vf_buf;
	cd.ctx = &vf_ctx;
	ASSUME(IN.ino >= 2);
	db.ino = IN.ino;
	db.blk = 100;
	db.blockcnt = BLOCKCNT;

	r = check_dir_block(&vf_fs, &db, &cd);
	(void) r;

	wf = ref_scan(IN.buf);
	node = ref_is_node(IN.buf);
	if (wf) {
		PROP(vf_ncorrupt == 0, "a block satisfying the dirent format predicate raises no PR_2_DIR_CORRUPTED");
		PROP(vf_dxb[BLOCKCNT].max_hash == ref_max, "max_hash of a leaf is the largest hash of its live entries");
		PROP(vf_dxb[BLOCKCNT].min_hash == ref_min, "min_hash of a leaf is the smallest hash of its live entries");
		for (i = 0; i < NSLOT; i++) {
			if (ref_live[i])
				PROP(vf_dxb[BLOCKCNT].min_hash <= IN.hash[i] && IN.hash[i] <= vf_dxb[BLOCKCNT].max_hash,
				     "the hash of every live entry lies within the recorded [min_hash, max_hash]");
			PROP(vf_hashed[i] == ref_live[i], "exactly the live entries are hashed, once each");
		}
		PROP(vf_argbad == 0, "the hash is taken over the entry's name bytes with the directory's hash version and seed");
		PROP(vf_dxb[BLOCKCNT].type == (node ? DX_DIRBLOCK_NODE : DX_DIRBLOCK_LEAF),
		     "the block is classified interior node exactly for the format's node pattern");
		PROP(vf_nparse == (node ? 1 : 0), "parse_int_node runs exactly for interior nodes");
		PROP(vf_dxb[BLOCKCNT].phys == 100, "the physical block number is recorded");
	}
	PROP(vf_nwrite == 0, "with every answer no the block is never written");
	for (i = 0; i < BLK; i++)
		PROP(vf_buf[i] == IN.buf[i], "with every answer no the block buffer is not modified");
	VF_END();
	return 0;
}
