/*
 * C02/htreenode: detector completeness of the REAL parse_int_node() (pass2.c), the reader of an htree
 * index node, under e2fsck -n (every question answered no).  It raises the problems of the node itself
 * and records, per referenced block, the hash range the index assigns to it -- the facts the final
 * consistency test of e2fsck_pass2() (C02/htreerange) judges the leaves (C02/htreeleaf) against.
 *
 * One symbolic index node block of BLK bytes (every byte), logical block BLOCKCNT of a directory of NBK
 * blocks (BLOCKCNT 0: the root, entries after the 8-byte dx_root_info; else an interior node), the
 * pre-state of every dx_block slot symbolic.
 * Independent reading of the on-disk format (Documentation/filesystems/ext4: hash tree directories):
 * count/limit header overlaying the hash of entry 0, entries of (le32 hash, le32 block); the hash of
 * entry 0 is 0 by definition, the low bit of a hash is a flag, the top 4 bits of block are reserved.
 *   limit != the number of entries that fit                       <=> PR_2_HTREE_BAD_LIMIT
 *   count > that number                                           <=> PR_2_HTREE_BAD_COUNT
 *   an entry naming a block outside the directory                 <=> PR_2_HTREE_BADBLK (one per entry)
 *   an entry (with a valid block) hashing below its predecessor   <=> PR_2_HTREE_HASH_ORDER (one per entry)
 *   block k named by entry i: assigned range [hash_i, hash_(i+1)] resp. [hash_i, 0xfffffffe] for the last entry,
 *   FIRST / LAST for entry 0 / count-1, REFERENCED, DUP_REF when named twice (or already referenced),
 *   parent = this node unless already referenced; the node's own extremes = extremes of its entries' hashes;
 *   answered no, the index is kept and nothing is written.
 */
#include "e2fsck/pass2.c"
#include "env.c"

#ifndef BLK
#define BLK 48
#endif
#ifndef BLOCKCNT
#define BLOCKCNT 1
#endif
#ifndef NBK
#define NBK 5
#endif
#if BLOCKCNT == 0
#define ENT_OFF 32		/* 24 bytes of fake dirents + dx_root_info of info_length 8 */
#else
#define ENT_OFF 8		/* one fake dirent header */
#endif
#define NENT ((BLK - ENT_OFF) / 8)

struct vf_pre { __u32 flags, parent, previous, min_hash, max_hash, node_min, node_max; };
struct vf_in {
	unsigned char buf[BLK];
	struct vf_pre pre[NBK];
};
VF_DECLARE_INPUT(struct vf_in, IN)
#include "vf_input.inc"

static struct e2fsck_struct vf_ctx;
static struct struct_ext2_filsys vf_fs;
static struct ext2_super_block vf_sb;
static unsigned char vf_buf[BLK + 8] __attribute__((aligned(8)));
static struct dx_dir_info vf_dx;
static struct dx_dirblock_info vf_dxb[NBK + 1];	/* one guard slot past the directory's blocks */
static int vf_nprob, vf_nlimit, vf_ncount, vf_nbadblk, vf_norder, vf_nwrite;

/* STUB: fix_problem() records the code and answers no (e2fsck -n; protocol decided in C01/fixproblem) */
int fix_problem(e2fsck_t ctx, problem_t code, struct problem_context *pctx)
{
	(void) ctx; (void) pctx;
	vf_nprob++;
	if (code == PR_2_HTREE_BAD_LIMIT) vf_nlimit++;
	if (code == PR_2_HTREE_BAD_COUNT) vf_ncount++;
	if (code == PR_2_HTREE_BADBLK) vf_nbadblk++;
	if (code == PR_2_HTREE_HASH_ORDER) vf_norder++;
	return 0;
}
/* STUB: inode write-back (clear_htree, only after a yes) counts; rehash queue empty */
void e2fsck_read_inode(e2fsck_t ctx, unsigned long ino, struct ext2_inode *inode, const char *proc)
{ static struct ext2_inode z; (void) ctx; (void) ino; (void) proc; *inode = z; }
void e2fsck_write_inode(e2fsck_t ctx, unsigned long ino, struct ext2_inode *inode, const char *proc)
{ (void) ctx; (void) ino; (void) inode; (void) proc; vf_nwrite++; }
int e2fsck_dir_will_be_rehashed(e2fsck_t ctx, ext2_ino_t ino) { (void) ctx; (void) ino; return 0; }
void e2fsck_rehash_dir_later(e2fsck_t ctx, ext2_ino_t ino) { (void) ctx; (void) ino; vf_nwrite++; }
/* STUB: fatal_error() ends the path */
void fatal_error(e2fsck_t ctx, const char *msg) { (void) ctx; (void) msg; __CPROVER_assume(0); }
#ifndef VF_REPLAY
char *gettext(const char *s) { return (char *) s; }
#endif

static unsigned long ref_le32(int o)
{
	return (unsigned long) IN.buf[o] | ((unsigned long) IN.buf[o + 1] << 8) |
	       ((unsigned long) IN.buf[o + 2] << 16) | ((unsigned long) IN.buf[o + 3] << 24);
}

int main(void)
{
	struct check_dir_struct cd;
	static struct check_dir_struct cdz;
	struct ext2_db_entry2 db;
	unsigned long hash[NENT + 1], blk[NENT];
	unsigned int count, limit, n;
	int i, k, badblk = 0, order = 0;
	__u32 lo = 0xffffffffu, hi = 0;

	VF_INPUT(IN);
#if BLOCKCNT == 0
	/* BOUND: root with the standard dx_root_info length 8 (byte 24 + 5) */
	ASSUME(IN.buf[24 + 5] == 8);
#endif
	vf_fs.super = &vf_sb;
	vf_fs.blocksize = BLK;
	vf_ctx.fs = &vf_fs;
	vf_dx.ino = 12;
	vf_dx.depth = 2;
	vf_dx.numblocks = NBK;
	vf_dx.dx_block = vf_dxb;
	for (k = 0; k < NBK; k++) {
		vf_dxb[k].flags = (int) IN.pre[k].flags;
		vf_dxb[k].parent = IN.pre[k].parent;
		vf_dxb[k].previous = IN.pre[k].previous;
		vf_dxb[k].min_hash = IN.pre[k].min_hash;
		vf_dxb[k].max_hash = IN.pre[k].max_hash;
		vf_dxb[k].node_min_hash = IN.pre[k].node_min;
		vf_dxb[k].node_max_hash = IN.pre[k].node_max;
	}
	for (i = 0; i < BLK; i++)
		vf_buf[i] = IN.buf[i];
	cd = cdz;
	cd.buf = (char *) vf_buf;
	cd.ctx = &vf_ctx;
	cd.pctx.ino = 12;
	db.ino = 12;
	db.blk = 100;
	db.blockcnt = BLOCKCNT;

	parse_int_node(&vf_fs, &db, &cd, &vf_dx, (char *) vf_buf, 0);

	/* the format, by byte offset */
	limit = IN.buf[ENT_OFF] | (IN.buf[ENT_OFF + 1] << 8);
	count = IN.buf[ENT_OFF + 2] | (IN.buf[ENT_OFF + 3] << 8);
	PROP((vf_nlimit != 0) == (limit != NENT), "a limit that is not the number of entries fitting the node <=> PR_2_HTREE_BAD_LIMIT");
	PROP((vf_ncount != 0) == (count > NENT), "a count above the number of entries fitting the node <=> PR_2_HTREE_BAD_COUNT");
	n = count > NENT ? NENT : count;
	for (i = 0; i < NENT; i++) {
		hash[i] = i ? (ref_le32(ENT_OFF + 8 * i) & ~1ul) : 0;
		blk[i] = ref_le32(ENT_OFF + 8 * i + 4) & 0x0ffffffful;
	}
	hash[NENT] = 0;
	for (i = 0; i < NENT; i++)
		if ((unsigned) i < n) {
			if (blk[i] >= NBK)
				badblk++;
			else {
				if (i && hash[i] < hash[i - 1])
					order++;
				if (hash[i] < lo) lo = hash[i];
				if (hash[i] > hi) hi = hash[i];
			}
		}
	PROP(vf_nbadblk == badblk, "every entry naming a block outside the directory raises PR_2_HTREE_BADBLK");
	PROP(vf_norder == order, "every entry hashing below its predecessor raises PR_2_HTREE_HASH_ORDER");
	PROP(vf_nprob == vf_nlimit + vf_ncount + badblk + order && vf_nlimit <= 1 && vf_ncount <= 1, "no other problem is raised");

	for (k = 0; k < NBK; k++) {
		int nref = 0, last = -1, fl = (int) IN.pre[k].flags, want;
		for (i = 0; i < NENT; i++)
			if ((unsigned) i < n && blk[i] == (unsigned long) k) {
				nref++;
				last = i;
			}
		want = fl;
		if (nref)
			want |= DX_FLAG_REFERENCED;
		if (nref >= 2 || (nref && (fl & DX_FLAG_REFERENCED)))
			want |= DX_FLAG_DUP_REF;
		if (n && blk[0] == (unsigned long) k)
			want |= DX_FLAG_FIRST;
		for (i = 0; i < NENT; i++)
			if ((unsigned) i + 1 == n && blk[i] == (unsigned long) k)
				want |= DX_FLAG_LAST;
		PROP(vf_dxb[k].flags == want, "REFERENCED / DUP_REF / FIRST / LAST are recorded exactly as the index names the block");
		if (nref) {
			unsigned long wmin = 0, wmax = 0xfffffffeul, wprev = 0;
			for (i = 0; i < NENT; i++)
				if (i == last) {
					wmin = hash[i];
					if ((unsigned) i + 1 < n)
						wmax = hash[i + 1];
					if (i)
						wprev = blk[i - 1];
				}
			PROP(vf_dxb[k].node_min_hash == wmin, "the lower bound assigned to a block is the hash of its index entry");
			PROP(vf_dxb[k].node_max_hash == wmax, "the upper bound assigned to a block is the next entry's hash, 0xfffffffe for the last");
			PROP(vf_dxb[k].previous == wprev, "the preceding sibling is recorded");
			PROP(vf_dxb[k].parent == ((fl & DX_FLAG_REFERENCED) ? IN.pre[k].parent : BLOCKCNT), "the first reference records the parent");
		} else {
			PROP(vf_dxb[k].node_min_hash == IN.pre[k].node_min && vf_dxb[k].node_max_hash == IN.pre[k].node_max &&
			     vf_dxb[k].parent == IN.pre[k].parent && vf_dxb[k].previous == IN.pre[k].previous,
			     "a block the node does not name keeps its facts");
		}
		if (k == BLOCKCNT)
			PROP(vf_dxb[k].min_hash == lo && vf_dxb[k].max_hash == hi, "the node's own extremes are the extremes of its entries' hashes");
		else
			PROP(vf_dxb[k].min_hash == IN.pre[k].min_hash && vf_dxb[k].max_hash == IN.pre[k].max_hash,
			     "the content extremes of other blocks are untouched");
	}
	PROP(vf_dxb[NBK].flags == 0 && vf_dxb[NBK].node_min_hash == 0 && vf_dxb[NBK].node_max_hash == 0 && vf_dxb[NBK].parent == 0,
	     "no fact is recorded for a block outside the directory");
	PROP(vf_dx.numblocks == NBK && vf_nwrite == 0, "answered no, the index is kept and nothing is written");
	for (i = 0; i < BLK; i++)
		PROP(vf_buf[i] == IN.buf[i], "the node block is not modified");
	VF_END();
	return 0;
}
