/*
 * C02/p5inodes (ANSWER 0) and C01/p5inodes (ANSWER 1): the REAL check_inode_bitmaps() of pass 5
 * (e2fsck/pass5.c): "inode bitmap, free-inode counts and directory counts agree with what passes 1-4
 * found", with print_bitmap_problem(), the INODE_UNINIT group skipping and the real descriptor
 * accessors of blknum.c.
 *
 * NG groups of IPG (4 or 8) inodes (inode numbers 1 .. IPG*NG).  Symbolic: every bit of ctx->inode_used_map,
 * ctx->inode_dir_map and fs->inode_map (what the disk says), every byte of the NG group descriptors
 * (free-inode count, used-dirs count, INODE_UNINIT flag, ...), s_free_inodes_count, fs->flags.
 * CSUM (compile time) = a group-descriptor checksum feature is on, so INODE_UNINIT is honoured.
 *
 * Independent reference (plain loops; descriptor fields by on-disk byte offset: bg_free_inodes_count_lo
 * = le16 at byte 14 (_hi at 46), bg_used_dirs_count_lo = le16 at 16 (_hi at 48), bg_flags = le16 at 18,
 * INODE_UNINIT = 0x1):
 *   e(i) = what the disk says about inode i = 0 in a group flagged INODE_UNINIT (its bitmap is not
 *          initialised: all free), the bitmap bit otherwise.
 *   d(i) = +1 if i is found in use and e(i) = 0, -1 if not in use and e(i) = 1, else 0.
 *   The bitmap problems raised are exactly one per maximal run of equal non-zero d (PR_5_INODE_USED /
 *   _UNUSED for one inode, PR_5_INODE_RANGE_USED / _UNUSED for a longer run, naming first and last);
 *   PR_5_INODE_UNINIT for an inode in use in an INODE_UNINIT group.
 *   ANSWER 0: PR_5_FREE_INODE_COUNT_GROUP iff the stored count != number of i in g with e(i) = 0;
 *   PR_5_FREE_DIR_COUNT_GROUP iff the stored count != number of i in g with e(i) = 1 in inode_dir_map;
 *   PR_5_FREE_INODE_COUNT iff s_free_inodes_count != the sum.  Silence => e == inode_used_map and all
 *   counts equal the counts over inode_used_map / inode_dir_map.  Nothing is modified.
 *   ANSWER 1: afterwards fs->inode_map == inode_used_map, counts == counted over the used / dir maps,
 *   INODE_UNINIT cleared exactly on groups with an inode in use, IB dirty iff replaced, super dirty when
 *   a count changed, nothing else changes; what the next run loads agrees with inode_used_map
 *   ("reloaded"); SECOND: the kernel on that reloaded state raises nothing and changes nothing.
 */
#ifndef ANSWER
#define ANSWER 0
#endif
#ifndef NG
#define NG 2
#endif
#ifndef DSZ
#define DSZ 32
#endif
#ifndef CSUM
#define CSUM 0
#endif
#ifndef IPG
#define IPG 8		/* inodes per group (4 or 8) */
#endif
#define VF_NPOS (NG * IPG + 1)
#define VF_INODES (NG * IPG)

#include "e2fsck/pass5.c"
#include "env.c"
#include "p5model.h"

struct vf_in {
	unsigned char used[VF_NPOS], dir[VF_NPOS], disk[VF_NPOS];
	unsigned char gd[NG * DSZ];
	__u32 free_inodes, fsflags;
};
VF_DECLARE_INPUT(struct vf_in, IN)
#include "vf_input.inc"

static struct e2fsck_struct vf_ctx;
static struct struct_ext2_filsys vf_fs;
static struct ext2_super_block vf_sb;
static unsigned char vf_gd[NG * DSZ + 8] __attribute__((aligned(8)));
static struct vf_bm vf_used, vf_dir, vf_disk;

/* what fix_problem() saw */
static int vf_nprob, vf_nother, vf_badarg;
static unsigned char vf_used_at[VF_NPOS], vf_unused_at[VF_NPOS];	/* bitmap problems (+ / -) whose first inode is p */
static unsigned char vf_used_cov[VF_NPOS], vf_unused_cov[VF_NPOS];	/* bitmap problems (+ / -) whose inode or range contains p */
static unsigned char vf_uninit_at[VF_NPOS];
static int vf_uninit_grp_bad;
static int vf_cntg[NG], vf_dirg[NG], vf_cnt;
static __u64 vf_cntg_stored[NG], vf_cntg_counted[NG], vf_dirg_stored[NG], vf_dirg_counted[NG], vf_cnt_stored, vf_cnt_counted;

/* STUB: fix_problem() records code and context and answers ANSWER (0 = e2fsck -n, 1 = -y; protocol decided in C01/fixproblem) */
int fix_problem(e2fsck_t ctx, problem_t code, struct problem_context *pctx)
{
	int p, g;
	(void) ctx;
	vf_nprob++;
	switch (code) {
	case PR_5_INODE_USED:
	case PR_5_INODE_RANGE_USED:
	case PR_5_INODE_UNUSED:
	case PR_5_INODE_RANGE_UNUSED: {
		int used = (code == PR_5_INODE_USED || code == PR_5_INODE_RANGE_USED);
		int rng = (code == PR_5_INODE_RANGE_USED || code == PR_5_INODE_RANGE_UNUSED);
		ext2_ino_t last = rng ? pctx->ino2 : pctx->ino;
		/* a single inode comes with ino2 == 0 ("+%i"), a range with ino < ino2 ("+(%i--%j)") */
		if (pctx->ino == 0 || pctx->ino >= VF_NPOS || (rng ? pctx->ino2 <= pctx->ino || pctx->ino2 >= VF_NPOS : pctx->ino2 != 0))
			vf_badarg++;
		for (p = 0; p < VF_NPOS; p++) {
			if (pctx->ino == (ext2_ino_t) p) {
				if (used) vf_used_at[p]++; else vf_unused_at[p]++;
			}
			if ((ext2_ino_t) p >= pctx->ino && (ext2_ino_t) p <= last) {
				if (used) vf_used_cov[p]++; else vf_unused_cov[p]++;
			}
		}
		break;
	}
	case PR_5_INODE_UNINIT:		/* the inode number travels in pctx->blk */
		for (p = 1; p < VF_NPOS; p++)
			if (pctx->blk == (blk64_t) p) {
				vf_uninit_at[p]++;
				if (pctx->group != (dgrp_t) ((p - 1) / IPG))
					vf_uninit_grp_bad++;
			}
		if (pctx->blk == 0 || pctx->blk >= VF_NPOS)
			vf_badarg++;
		break;
	case PR_5_FREE_INODE_COUNT_GROUP:
		for (g = 0; g < NG; g++)
			if (pctx->group == (dgrp_t) g) {
				vf_cntg[g]++;
				vf_cntg_stored[g] = pctx->ino;
				vf_cntg_counted[g] = pctx->ino2;
			}
		if (pctx->group >= NG)
			vf_badarg++;
		break;
	case PR_5_FREE_DIR_COUNT_GROUP:
		for (g = 0; g < NG; g++)
			if (pctx->group == (dgrp_t) g) {
				vf_dirg[g]++;
				vf_dirg_stored[g] = pctx->ino;
				vf_dirg_counted[g] = pctx->ino2;
			}
		if (pctx->group >= NG)
			vf_badarg++;
		break;
	case PR_5_FREE_INODE_COUNT:
		vf_cnt++;
		vf_cnt_stored = pctx->ino;
		vf_cnt_counted = pctx->ino2;
		break;
	default:
		vf_nother++;
	}
	return ANSWER;
}
/* STUB: the discard path is off (-E discard not given): io_channel_discard() only counts */
static int vf_ndiscard;
errcode_t io_channel_discard(io_channel channel, unsigned long long block, unsigned long long count)
{ (void) channel; (void) block; (void) count; vf_ndiscard++; return 0; }

/* independent readers of the descriptor bytes */
static __u64 ref_field(const unsigned char *gd, int g, int off_lo, int off_hi)
{
	__u64 v = ref_le16(gd + g * DSZ + off_lo);
#if DSZ == 64
	v |= (__u64) ref_le16(gd + g * DSZ + off_hi) << 16;
#else
	(void) off_hi;
#endif
	return v;
}
#define ref_free(gd, g) ref_field(gd, g, 14, 46)
#define ref_dirs(gd, g) ref_field(gd, g, 16, 48)
static int ref_uninit(const unsigned char *gd, int g) { return CSUM && (gd[g * DSZ + 18] & 0x01) != 0; }

int main(void)
{
	int p, g, i;
	int d[VF_NPOS + 1], e[VF_NPOS + 1];
	int nexp = 0, anydiff = 0, seen_used;
	__u64 free_used[NG], free_e[NG], dirs_used[NG], dirs_e[NG], tot_used = 0, tot_e = 0;
	unsigned int f0;

	VF_INPUT(IN);
	/* BOUND: NG groups of IPG inodes, s_inodes_count = IPG * NG; CSUM (group descriptor checksums, so INODE_UNINIT counts) compile-time */
#ifdef SECOND
	/*
	 * SECOND: the state a finished e2fsck -y run leaves on disk, as established by the ANSWER 1 queries of this harness
	 * (labels "reloaded: ..."): what the loader delivers equals inode_used_map, every stored count equals the count over the
	 * used / dir maps.  ASSUME: passes 1-4 of the next run find the same inodes in use (they read neither inode bitmap nor counts).
	 */
	for (p = 1; p < VF_NPOS; p++)
		IN.disk[p] = IN.used[p];
	/* the loader zero-fills an INODE_UNINIT group; a finished run leaves the flag only on groups without an inode in use */
	for (g = 0; g < NG; g++)
		for (p = 1; p < VF_NPOS; p++)
			if ((p - 1) / IPG == g && IN.used[p])
				IN.gd[g * DSZ + 18] &= ~0x01;
#endif
	for (p = 0; p < VF_NPOS; p++)
		ASSUME(IN.used[p] <= 1 && IN.dir[p] <= 1 && IN.disk[p] <= 1);
	/* ---- independent reference ---- */
	for (g = 0; g < NG; g++)
		free_used[g] = free_e[g] = dirs_used[g] = dirs_e[g] = 0;
	for (p = 0; p <= VF_NPOS; p++)
		d[p] = e[p] = 0;
	for (g = 0; g < NG; g++) {
		seen_used = 0;
		for (p = 1; p < VF_NPOS; p++)
			if ((p - 1) / IPG == g) {
				/* ANSWER 1: once PR_5_INODE_UNINIT is answered yes the flag is gone and the rest of the group is compared bit by bit */
				e[p] = (ref_uninit(IN.gd, g) && !(ANSWER && seen_used)) ? 0 : IN.disk[p];
				d[p] = (int) IN.used[p] - e[p];
				if (d[p])
					anydiff = 1;
				if (IN.used[p])
					seen_used = 1;
				free_used[g] += !IN.used[p];
				free_e[g] += !e[p];
				dirs_used[g] += IN.used[p] && IN.dir[p];
				dirs_e[g] += e[p] && IN.dir[p];
			}
	}
	for (g = 0; g < NG; g++) {
		tot_used += free_used[g];
		tot_e += free_e[g];
	}
#ifdef SECOND
	for (g = 0; g < NG; g++) {
		IN.gd[g * DSZ + 14] = (unsigned char) free_used[g];
		IN.gd[g * DSZ + 16] = (unsigned char) dirs_used[g];
		IN.gd[g * DSZ + 15] = IN.gd[g * DSZ + 17] = 0;
#if DSZ == 64
		IN.gd[g * DSZ + 46] = IN.gd[g * DSZ + 47] = IN.gd[g * DSZ + 48] = IN.gd[g * DSZ + 49] = 0;
#endif
	}
	IN.free_inodes = (__u32) tot_used;
#endif
	for (p = 0; p < VF_NPOS; p++) {
		vf_used.bit[p] = IN.used[p];
		vf_dir.bit[p] = IN.dir[p];
		vf_disk.bit[p] = IN.disk[p];
	}
	/* ASSUME: the three bitmaps span [1, s_inodes_count] as ext2fs_allocate_inode_bitmap makes them */
	vf_used.start = vf_dir.start = vf_disk.start = 1;
	vf_used.end = vf_dir.end = vf_disk.end = VF_INODES;
	for (i = 0; i < NG * DSZ; i++)
		vf_gd[i] = IN.gd[i];
	vf_fs.super = &vf_sb;
	vf_fs.blocksize = 64;
	vf_fs.group_desc_count = NG;
	vf_fs.group_desc = (struct opaque_ext2_group_desc *) vf_gd;
	vf_fs.inode_map = (ext2fs_inode_bitmap) &vf_disk;
	vf_fs.flags = IN.fsflags;
	f0 = IN.fsflags;
	vf_sb.s_inodes_count = VF_INODES;
	vf_sb.s_inodes_per_group = IPG;
	vf_sb.s_free_inodes_count = IN.free_inodes;
	vf_sb.s_feature_ro_compat = CSUM ? EXT4_FEATURE_RO_COMPAT_GDT_CSUM : 0;
#if DSZ == 64
	vf_sb.s_feature_incompat = EXT4_FEATURE_INCOMPAT_64BIT;
	vf_sb.s_desc_size = 64;
#endif
	vf_ctx.fs = &vf_fs;
	vf_ctx.inode_used_map = (ext2fs_inode_bitmap) &vf_used;
	vf_ctx.inode_dir_map = (ext2fs_inode_bitmap) &vf_dir;
	/* BOUND: -E discard off; no progress callback */
	vf_ctx.options = 0;

	check_inode_bitmaps(&vf_ctx);

	PROP(!vf_range_err, "no bitmap access outside [1, s_inodes_count]");
	PROP(vf_badarg == 0 && vf_nother == 0, "only pass-5 inode problems with in-range arguments are raised");
	PROP(!(vf_ctx.flags & E2F_FLAG_ABORT), "valid bitmap endpoints: no abort");
	for (p = 0; p < VF_NPOS; p++) {
		/* a maximal run of equal differences starts at p */
		int start = d[p] != 0 && (p == 0 || d[p - 1] != d[p]);
		nexp += start;
		if (d[p] > 0)
			PROP(vf_used_cov[p] >= 1, "an inode found in use but free in the on-disk bitmap is reported (PR_5_INODE_USED / RANGE_USED)");
		if (d[p] < 0)
			PROP(vf_unused_cov[p] >= 1, "an inode in use in the on-disk bitmap but not found in use is reported (PR_5_INODE_UNUSED / RANGE_UNUSED)");
		PROP(vf_used_cov[p] == (d[p] > 0) && vf_unused_cov[p] == (d[p] < 0),
		     "the reported inodes / ranges name exactly the differing inodes, each once, with the right sign");
		PROP(vf_used_at[p] == (start && d[p] > 0) && vf_unused_at[p] == (start && d[p] < 0),
		     "one report per maximal run of equal differences (adjacent inodes are merged into a range)");
	}
	/* PR_5_INODE_UNINIT: ANSWER 0 every inode in use of a flagged group; ANSWER 1 the first (the flag is cleared then) */
	for (g = 0; g < NG; g++) {
		seen_used = 0;
		for (p = 1; p < VF_NPOS; p++)
			if ((p - 1) / IPG == g) {
				int want = IN.used[p] && ref_uninit(IN.gd, g) && !(ANSWER && seen_used);
				PROP(vf_uninit_at[p] == want, "PR_5_INODE_UNINIT exactly for an inode in use in a group flagged INODE_UNINIT");
				nexp += want;
				if (IN.used[p])
					seen_used = 1;
			}
	}
	PROP(vf_uninit_grp_bad == 0, "PR_5_INODE_UNINIT names the inode's own group");
	PROP(vf_nlatch == (anydiff ? 1 : 0) && (!anydiff || vf_latch_mask == PR_LATCH_IBITMAP),
	     "the inode-bitmap latch is closed once iff a difference was reported");
	for (g = 0; g < NG; g++) {
		__u64 wantf = ANSWER ? free_used[g] : free_e[g];
		__u64 wantd = ANSWER ? dirs_used[g] : dirs_e[g];
		int badf = ref_free(IN.gd, g) != wantf, badd = ref_dirs(IN.gd, g) != wantd;
		if (badf)
			PROP(vf_cntg[g] == 1, "a group whose stored free-inode count differs from the bitmap's raises PR_5_FREE_INODE_COUNT_GROUP");
		if (badd)
			PROP(vf_dirg[g] == 1, "a group whose stored directory count differs from the counted one raises PR_5_FREE_DIR_COUNT_GROUP");
		PROP(vf_cntg[g] == badf && vf_dirg[g] == badd, "PR_5_FREE_INODE_COUNT_GROUP / PR_5_FREE_DIR_COUNT_GROUP exactly for the groups whose count is wrong");
		if (badf)
			PROP(vf_cntg_stored[g] == ref_free(IN.gd, g) && vf_cntg_counted[g] == wantf, "PR_5_FREE_INODE_COUNT_GROUP shows the stored and the counted value");
		if (badd)
			PROP(vf_dirg_stored[g] == ref_dirs(IN.gd, g) && vf_dirg_counted[g] == wantd, "PR_5_FREE_DIR_COUNT_GROUP shows the stored and the counted value");
		nexp += badf + badd;
	}
	{
		__u64 want = ANSWER ? tot_used : tot_e;
		int bad = IN.free_inodes != want;
		PROP(vf_cnt == bad, "PR_5_FREE_INODE_COUNT exactly when the superblock's free-inode count is wrong");
		if (bad)
			PROP(vf_cnt_stored == IN.free_inodes && vf_cnt_counted == want, "PR_5_FREE_INODE_COUNT shows the stored and the counted value");
		nexp += bad;
	}
	PROP((vf_nprob == 0) == (nexp == 0), "silence iff the reference expects no problem");
	if (vf_nprob == 0) {
		/* headline of C02 for this kernel */
		for (g = 0; g < NG; g++)
			for (p = 1; p < VF_NPOS; p++)
				if ((p - 1) / IPG == g)
					PROP((ref_uninit(IN.gd, g) ? 0 : IN.disk[p]) == IN.used[p], "silent => on-disk inode bitmap equals the inodes found in use");
		for (g = 0; g < NG; g++)
			PROP(ref_free(IN.gd, g) == free_used[g] && ref_dirs(IN.gd, g) == dirs_used[g],
			     "silent => every group's free-inode and directory count equal what was found");
		PROP(IN.free_inodes == tot_used, "silent => the superblock's free-inode count equals the inodes not found in use");
	}
	PROP(vf_ndiscard == 0, "no discard without -E discard");
	PROP(!(vf_ctx.flags & E2F_FLAG_PROG_SUPPRESS), "progress suppression is lifted");

#if ANSWER == 0
	PROP(vf_fs.inode_map == (ext2fs_inode_bitmap) &vf_disk && vf_ncopy == 0 && vf_nfree == 0, "answer no: the bitmap object is kept");
	for (p = 0; p < VF_NPOS; p++)
		PROP(vf_disk.bit[p] == IN.disk[p] && vf_used.bit[p] == IN.used[p] && vf_dir.bit[p] == IN.dir[p], "answer no: no bit changes");
	for (i = 0; i < NG * DSZ; i++)
		PROP(vf_gd[i] == IN.gd[i], "answer no: the group descriptors are not modified");
	PROP(vf_sb.s_free_inodes_count == IN.free_inodes, "answer no: the superblock count is not modified");
	PROP(((vf_fs.flags ^ f0) & ~EXT2_FLAG_VALID) == 0, "answer no: nothing is marked dirty (only EXT2_FLAG_VALID may change)");
	{
		int grpbad = 0;
		for (g = 0; g < NG; g++)
			grpbad |= ref_free(IN.gd, g) != free_e[g] || ref_dirs(IN.gd, g) != dirs_e[g];
		if (anydiff || grpbad)
			PROP(!(vf_fs.flags & EXT2_FLAG_VALID), "answer no: a bitmap difference or a wrong group count un-marks the fs valid (exit status != 0)");
		else
			PROP(vf_fs.flags == f0, "answer no: consistent bitmap and group counts leave fs->flags alone");
	}
#else
	{
		struct vf_bm *m = (struct vf_bm *) vf_fs.inode_map;
		int changed_cnt = 0;

		PROP(anydiff ? (m == &vf_copy && vf_ncopy == 1 && vf_nfree == 1 && vf_freed == (void *) &vf_disk &&
				vf_npad == 1 && vf_padded == (void *) &vf_copy)
			     : (m == &vf_disk && vf_ncopy == 0 && vf_nfree == 0),
		     "yes: the on-disk bitmap object is replaced by a copy of the used map (padding reset) iff they differed");
		PROP(m->start == 1 && m->end == VF_INODES, "yes: the repaired bitmap spans the same range");
		for (p = 1; p < VF_NPOS; p++) {
			if (anydiff)
				PROP(m->bit[p] == IN.used[p], "yes: afterwards fs->inode_map equals inode_used_map");
			PROP(vf_used.bit[p] == IN.used[p] && vf_dir.bit[p] == IN.dir[p], "yes: the pass 1-4 maps are not modified");
		}
		PROP(((vf_fs.flags & EXT2_FLAG_IB_DIRTY) != 0) == (anydiff || (f0 & EXT2_FLAG_IB_DIRTY)),
		     "yes: the inode bitmap is marked dirty iff it was replaced");
		for (g = 0; g < NG; g++) {
			PROP(ref_free(vf_gd, g) == free_used[g], "yes: afterwards every group's free-inode count equals the inodes not found in use");
			PROP(ref_dirs(vf_gd, g) == dirs_used[g], "yes: afterwards every group's directory count equals the directories found");
			changed_cnt |= ref_free(IN.gd, g) != free_used[g] || ref_dirs(IN.gd, g) != dirs_used[g];
			PROP(((vf_gd[g * DSZ + 18] & 0x01) != 0) == ((IN.gd[g * DSZ + 18] & 0x01) && !(CSUM && free_used[g] != IPG)),
			     "yes: INODE_UNINIT is cleared exactly on groups with an inode in use");
		}
		changed_cnt |= IN.free_inodes != tot_used;
		PROP(vf_sb.s_free_inodes_count == tot_used, "yes: afterwards the superblock's free-inode count equals the inodes not found in use");
		if (changed_cnt)
			PROP((vf_fs.flags & EXT2_FLAG_DIRTY) && (vf_fs.flags & EXT2_FLAG_CHANGED), "yes: a corrected count marks the super dirty");
		PROP(((vf_fs.flags ^ f0) & ~(EXT2_FLAG_IB_DIRTY | EXT2_FLAG_DIRTY | EXT2_FLAG_CHANGED)) == 0, "yes: no other fs flag changes");
		if (vf_nprob == 0)
			PROP(vf_fs.flags == f0, "yes: no problem, nothing dirtied");
		for (i = 0; i < NG * DSZ; i++) {
			int k = i % DSZ;
			if ((k >= 14 && k <= 18) || (DSZ == 64 && k >= 46 && k <= 49))
				continue;
			PROP(vf_gd[i] == IN.gd[i], "yes: no other descriptor byte changes");
		}
		for (g = 0; g < NG; g++)
			PROP(((vf_gd[g * DSZ + 18] ^ IN.gd[g * DSZ + 18]) & ~0x01) == 0, "yes: no other bg_flags bit changes");
		/*
		 * flush + reload: what the NEXT e2fsck run will load (its behaviour on exactly this state is the SECOND query).
		 * ASSUME: e2fsck's main always flushes superblock and descriptors after a read-write run; the inode bitmap is written iff
		 *         EXT2_FLAG_IB_DIRTY; the loader zero-fills the bitmap of a group flagged INODE_UNINIT under a checksum feature.
		 */
		for (g = 0; g < NG; g++) {
			int uninit_after = CSUM && (vf_gd[g * DSZ + 18] & 0x01);
			for (p = 1; p < VF_NPOS; p++)
				if ((p - 1) / IPG == g)
					PROP((uninit_after ? 0 : (vf_fs.flags & EXT2_FLAG_IB_DIRTY) ? m->bit[p] : IN.disk[p]) == IN.used[p],
					     "reloaded: the inode bitmap the next run loads equals the inodes found in use (the repaired bitmap was marked dirty)");
		}
#ifdef SECOND
		PROP(vf_nprob == 0 && vf_nlatch == 0, "second run (on the reloaded state) raises no problem");
		PROP(vf_fs.flags == f0 && vf_ncopy == 0 && vf_nfree == 0, "second run dirties nothing and keeps the bitmap object");
		for (i = 0; i < NG * DSZ; i++)
			PROP(vf_gd[i] == IN.gd[i], "second run changes no descriptor");
		PROP(vf_sb.s_free_inodes_count == IN.free_inodes, "second run keeps the superblock count");
#endif
	}
#endif
	VF_END();
	return 0;
}
