/*
 * C02/checkdesc: detector completeness (and exactness) of ext2fs_check_desc()
 * (lib/ext2fs/check_desc.c), the group-descriptor sanity check behind e2fsck's
 * "group descriptors look bad" and every tool's open.
 *
 * Geometry: NG groups of 64 blocks of 1 KiB, first data block 1, one descriptor block,
 * 0..2 reserved GDT blocks, sparse_super on/off, last group 8..64 blocks long, ITB inode
 * table blocks per group; flex_bg per query.  The block bitmap, inode bitmap and inode
 * table location of EVERY group are symbolic 32-bit numbers.
 *
 * Independent predicate (Documentation/filesystems/ext4: blockgroup): every bitmap block
 * and every inode-table range lies inside the filesystem -- inside its own group without
 * flex_bg --, touches no superblock / group-descriptor / reserved-GDT block of any group
 * that carries a backup, and no two of them overlap.
 *   predicate violated  =>  ext2fs_check_desc returns an error, and the error code names
 *                           the first offending table in descriptor order;
 *   predicate satisfied =>  ext2fs_check_desc returns 0.
 * Real code under it: ext2fs_reserve_super_and_bgd, ext2fs_super_and_bgd_loc2,
 * ext2fs_bg_has_super, the blknum.c accessors and the bit-array bitmap back end.
 */
#include "lib/ext2fs/check_desc.c"
#include "env.c"

#ifndef NG
#define NG 3
#endif
#ifndef ITB
#define ITB 2
#endif
#define BPG 64

struct vf_in {
	__u32 bb[NG], ib[NG], it[NG];
	__u32 last_len;			/* blocks in the last group */
	__u16 rsv_gdt;
	unsigned char sparse;
};
VF_DECLARE_INPUT(struct vf_in, IN)
#include "vf_input.inc"

static struct struct_ext2_filsys vf_fs;
static struct ext2_super_block vf_sb;
static struct ext2_group_desc vf_gd[NG];

/* STUB: ext2fs_safe_getenv(): environment empty (only selects the bitmap statistics print-out on free) */
char *ext2fs_safe_getenv(const char *arg) { (void) arg; return 0; }

static int ref_has_super(unsigned int g)
{
	/* group 0 always; without sparse_super every group; with it groups 1 and powers of 3, 5, 7 (none of which is 2) */
	return g == 0 || g == 1 || !(IN.sparse & 1);
}
/* is block b superblock / descriptor / reserved descriptor space of some group */
static int ref_meta(unsigned long long b)
{
	unsigned int g;
	for (g = 0; g < NG; g++) {
		unsigned long long s = 1 + (unsigned long long) BPG * g;
		if (ref_has_super(g) && b >= s && b < s + 1 + 1 + IN.rsv_gdt)
			return 1;
	}
	return 0;
}

int main(void)
{
	unsigned long long start[3 * NG], len[3 * NG], lo, hi, blocks, j;
	int g, k, m, bad, first_bad = -1;
	errcode_t r, want;

	VF_INPUT(IN);
	/* BOUND: last group 8..64 blocks, 0..2 reserved GDT blocks */
	ASSUME(IN.last_len >= 8 && IN.last_len <= BPG);
	ASSUME(IN.rsv_gdt <= 2);
	blocks = 1 + (unsigned long long) BPG * (NG - 1) + IN.last_len;

	vf_fs.magic = EXT2_ET_MAGIC_EXT2FS_FILSYS;
	vf_fs.flags = EXT2_FLAG_64BITS;
	vf_fs.default_bitmap_type = EXT2FS_BMAP64_BITARRAY;
	vf_fs.super = &vf_sb;
	vf_fs.blocksize = 1024;
	vf_fs.group_desc_count = NG;
	vf_fs.desc_blocks = 1;
	vf_fs.inode_blocks_per_group = ITB;
	vf_fs.group_desc = (struct opaque_ext2_group_desc *) vf_gd;
	vf_sb.s_first_data_block = 1;
	vf_sb.s_blocks_per_group = BPG;
	vf_sb.s_clusters_per_group = BPG;
	vf_sb.s_blocks_count = (__u32) blocks;
	vf_sb.s_reserved_gdt_blocks = IN.rsv_gdt;
	vf_sb.s_feature_ro_compat = (IN.sparse & 1) ? EXT2_FEATURE_RO_COMPAT_SPARSE_SUPER : 0;
#ifdef FLEX
	vf_sb.s_feature_incompat = EXT4_FEATURE_INCOMPAT_FLEX_BG;
#endif
	for (g = 0; g < NG; g++) {
		vf_gd[g].bg_block_bitmap = IN.bb[g];
		vf_gd[g].bg_inode_bitmap = IN.ib[g];
		vf_gd[g].bg_inode_table = IN.it[g];
		start[3 * g] = IN.bb[g];     len[3 * g] = 1;
		start[3 * g + 1] = IN.ib[g]; len[3 * g + 1] = 1;
		start[3 * g + 2] = IN.it[g]; len[3 * g + 2] = ITB;
	}

	r = ext2fs_check_desc(&vf_fs);

	/* the independent predicate, evaluated in descriptor order so that the first offender is known */
	for (k = 0; k < 3 * NG; k++) {
		g = k / 3;
#ifdef FLEX
		lo = 1; hi = blocks - 1;
#else
		lo = 1 + (unsigned long long) BPG * g;
		hi = (g == NG - 1) ? blocks - 1 : lo + BPG - 1;
#endif
		bad = 0;
		if (start[k] < lo || start[k] + len[k] - 1 > hi)
			bad = 1;
		for (j = 0; j < ITB; j++)
			if (j < len[k] && ref_meta(start[k] + j))
				bad = 1;
		for (m = 0; m < 3 * NG; m++)
			if (m < k && start[k] < start[m] + len[m] && start[m] < start[k] + len[k])
				bad = 1;
		if (bad && first_bad < 0)
			first_bad = k;
	}
	if (first_bad >= 0)
		PROP(r != 0, "a descriptor set violating the format predicate is rejected");
	else
		PROP(r == 0, "a descriptor set satisfying the format predicate is accepted");
	want = 0;
	for (k = 0; k < 3 * NG; k++)
		if (k == first_bad)
			want = (k % 3 == 0) ? EXT2_ET_GDESC_BAD_BLOCK_MAP :
			       (k % 3 == 1) ? EXT2_ET_GDESC_BAD_INODE_MAP : EXT2_ET_GDESC_BAD_INODE_TABLE;
	PROP(r == want, "the error code names the first offending table in descriptor order");
	VF_END();
	return 0;
}
