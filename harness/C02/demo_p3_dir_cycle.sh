#!/bin/sh
# Whole-tool demonstration of the finding of harness p3dirs[LOOPCHECK]:
# two in-use directories that are each other's parent (a <-> a/b), with no entry anywhere in the
# tree reachable from the root, pass "e2fsck -fn" with exit status 0.
# check_directory() (e2fsck/pass3.c) stops its parent walk at the first inode already in
# inode_done_map -- including the inodes it marked itself during this very walk -- so a cycle of
# parents ends the walk after one round with no report; the 2048-deep fallback that would raise
# PR_3_LOOPED_DIR is never reached.  Pass 2 accepts the image (each directory has exactly one
# parent entry), pass 4 finds all link counts right.
# Usage: demo_p3_dir_cycle.sh [repo-build-dir]   (default /repo); works on a scratch file only.
R=${1:-/repo}
T=$(mktemp -d) || exit 2
I=$T/t.img
$R/misc/mke2fs -q -F -t ext2 -b 1024 -O ^dir_index,^ext_attr,^resize_inode $I 512 || exit 2
$R/debugfs/debugfs -w $I -R "mkdir a" >/dev/null 2>&1		# inode 12
$R/debugfs/debugfs -w $I -R "mkdir a/b" >/dev/null 2>&1		# inode 13
$R/debugfs/debugfs -w $I -R "ln a a/b/c" >/dev/null 2>&1		# a/b/c -> inode 12: b becomes a's (only) parent
$R/debugfs/debugfs -w $I -R "unlink a" >/dev/null 2>&1		# the root no longer names a
BLK=$($R/debugfs/debugfs $I -R "blocks <12>" 2>/dev/null | tr -d ' \n')
# a's ".." entry (second dirent, offset 12 of its block): inode 2 -> 13
printf '\015\000\000\000' | dd of=$I bs=1 seek=$((BLK * 1024 + 12)) conv=notrunc 2>/dev/null
$R/debugfs/debugfs -w $I -R "sif <13> links_count 3" >/dev/null 2>&1	# entry b in a, ".", a's ".."
$R/debugfs/debugfs -w $I -R "sif <2> links_count 3" >/dev/null 2>&1	# ".", "..", lost+found's ".."
$R/e2fsck/e2fsck -fn $I
RC=$?
echo "e2fsck -fn exit status: $RC"
echo "entries of the root directory:"; $R/debugfs/debugfs $I -R "ls /" 2>/dev/null
$R/debugfs/debugfs $I -R "testi <12>" 2>/dev/null; $R/debugfs/debugfs $I -R "testi <13>" 2>/dev/null
rm -rf $T
[ $RC -eq 0 ] && echo "DEFECT REPRODUCED: clean verdict on an image with directories unreachable from the root" && exit 1
exit 0
