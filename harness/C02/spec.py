META = {
    "assumptions": ["allocation failure out of scope (--no-malloc-may-fail)",
                    "fix_problem is stubbed to record and answer no (e2fsck -n); the protocol 'no => exit status != 0 unless PR_NO_OK' is decided in C01/fixproblem"],
    "outside": ["completeness of a whole e2fsck -fn run: the pass 3 / 4 / 5 kernels are decided on what passes 1-2 hand them (block_found_map, inode_used/dir maps, "
                "icounts, the dir_info table); that pass 1 / pass 2 build those tables right from the image (block ownership, duplicate blocks, reference counting) is outside",
                "pass 3: check_root, lost+found creation, e2fsck_reconnect_file / fix_dotdot (cut), directories on a cycle of parents (GENUINE FINDING: reported by nothing)",
                "pass 1 extent scan: trees deeper than 1, directories (PR_1_COLLAPSE_DBLOCK, dblist), bigalloc alignment, extents reaching beyond EOF, checksum failures, "
                "leaf blocks on fixed metadata, multiply-claimed blocks (p1blocks); the extent handle is a tree-model stub (the real lib/ext2fs/extent.c decoding is C06/C09's)",
                "pass 4: EA-inode reference consolidation (check_ea_inode), inodes larger than 128 bytes (in-inode EA magic probe), quota adjustments",
                "pass 5: bigalloc (cluster ratio > 1), more than 3 groups, the loader's reconstruction of BLOCK_UNINIT bitmaps",
                "htree: three-level trees (update_parents over interior nodes), siphash (hash stored in the dirent), casefolded / encrypted "
                "directories, checksummed nodes (dx tail); the hash function itself (C15)",
                "pass 5: the bitmap checksum primitive itself (C14)",
                "e2fsck_process_bad_inode: pass 1's device-inode and symlink sub-checks (symbolic verdicts here), and pass 1's decision to mark an inode bad",
                ],
}
HARNESSES = []
HARNESSES.append(
    dict(name="exthdr", src="exthdr.c",
         funcs=["ext2fs_extent_header_verify"],
         unwind=4, unwindset=["main.0:14", "main.1:14"], backends=["default", "kissat", "z3"],
         bound="all 2^96 headers, node size 12..65536"))
HARNESSES.append(
    dict(name="dotdet", src="dotdet.c", extra_src=["lib/ext2fs/dir_iterate.c"],
         funcs=["check_dot", "ext2fs_get_rec_len"],
         configs=[{"KERNEL": 0, "OFF": 0}],
         unwind=4, unwindset=["main.%d:50" % i for i in range(4)] + ["strncmp.0:4"], backends=["default", "kissat"],
         bound="block of 48 bytes, every byte symbolic (entry valid per the caller's test), inode number and feature word symbolic"))
HARNESSES.append(
    dict(name="dotdotdet", src="dotdet.c", extra_src=["lib/ext2fs/dir_iterate.c"],
         funcs=["check_dotdot", "ext2fs_get_rec_len"],
         configs=[{"KERNEL": 1, "OFF": 12}],
         unwind=4, unwindset=["main.%d:50" % i for i in range(4)], backends=["default", "kissat"],
         bound="block of 48 bytes, every byte symbolic (entry at offset 12 valid per the caller's test)"))
CD_SRC = ["lib/ext2fs/alloc_sb.c", "lib/ext2fs/closefs.c", "lib/ext2fs/blknum.c", "lib/ext2fs/bitmaps.c", "lib/ext2fs/gen_bitmap64.c",
          "lib/ext2fs/gen_bitmap.c", "lib/ext2fs/blkmap64_ba.c", "lib/ext2fs/blkmap64_rb.c", "lib/ext2fs/rbtree.c", "lib/ext2fs/bitops.c"]
HARNESSES.append(
    dict(name="checkdesc", src="checkdesc.c", extra_src=CD_SRC,
         funcs=["ext2fs_check_desc", "ext2fs_reserve_super_and_bgd", "ext2fs_super_and_bgd_loc2", "ext2fs_bg_has_super",
                "ext2fs_allocate_subcluster_bitmap", "ba_new_bmap", "ba_test_bmap", "ba_mark_bmap"],
         configs=[{"NG": 2, "ITB": 2}, {"NG": 2, "ITB": 2, "FLEX": None}, {"NG": 3, "ITB": 2}, {"NG": 3, "ITB": 2, "FLEX": None}],
         unwind=5, unwindset=["main.%d:12" % i for i in range(8)] + ["ref_meta.0:5", "ext2fs_check_desc.0:5", "ext2fs_check_desc.1:4", "ext2fs_check_desc.2:5",
                              "test_root.0:6", "strlen.0:24", "strcpy.0:24", "memset.0:40"],
         backends=["default", "kissat"],
         bound="2 and 3 groups of 64 one-KiB blocks, last group 8..64 blocks, 2 inode-table blocks per group, 0..2 reserved GDT blocks, "
               "sparse_super on/off, flex_bg on/off; all 6 / 9 table locations symbolic 32-bit"))
HARNESSES.append(
    dict(name="dirdet", src="dirdet.c", extra_src=["lib/ext2fs/dir_iterate.c"],
         funcs=["check_dir_block", "check_dot", "check_dotdot", "check_name", "check_filetype", "ext2fs_get_rec_len"],
         configs=[{"BLK": 36, "BLOCKCNT": 0}, {"BLK": 48, "BLOCKCNT": 0}, {"BLK": 48, "BLOCKCNT": 1}],
         unwind=5, unwindset=["main.%d:50" % i for i in range(4)] + ["ref_block_ok.0:14", "ext2fs_read_dir_block4.0:50", "check_dir_block.0:6",
                              "check_name.0:42", "strncmp.0:4"],
         backends=["default", "kissat"],
         bound="one directory block of 36 / 48 bytes, every byte symbolic; block 0 (with . and ..) and a later block; inode numbers / counts symbolic"))
HARNESSES.append(
    dict(name="badinode", src="badinode.c", extra_src=["lib/ext2fs/blknum.c"],
         funcs=["e2fsck_process_bad_inode", "ext2fs_file_acl_block", "ext2fs_blocks_count"],
         unwind=4, unwindset=["main.%d:16" % i for i in range(4)] + ["fix_problem.0:16", "e2fsck_read_inode.0:130"],
         backends=["default", "kissat"],
         bound="one 128-byte inode, every byte symbolic; feature words, creator OS, first data block, 64-bit block count, "
               "block size 1-64 KiB and the verdicts of pass 1's device/symlink sub-checks symbolic"))
HARNESSES.append(
    dict(name="bmcsum", src="bmcsum.c", extra_src=["lib/ext2fs/blknum.c"],
         funcs=["check_block_bitmap_checksum", "check_inode_bitmap_checksum", "ext2fs_bg_flags_test", "ext2fs_group_desc"],
         configs=[{"NG": 3, "DSZ": 32}, {"NG": 3, "DSZ": 64}, {"NG": 1, "DSZ": 32}],
         unwind=5, unwindset=["main.%d:200" % i for i in range(6)] + ["fix_problem.0:5",
                              "ext2fs_block_bitmap_csum_verify.0:5", "ext2fs_inode_bitmap_csum_verify.0:5",
                              "check_block_bitmap_checksum.0:5", "check_inode_bitmap_checksum.0:5"],
         backends=["default", "kissat"],
         bound="1 and 3 groups of 32 clusters / 16 inodes, 32- and 64-byte descriptors with every byte symbolic, feature word, "
               "fs->flags and per-group checksum verdicts symbolic"))
HARNESSES.append(
    dict(name="htreeleaf", src="htreeleaf.c", extra_src=["lib/ext2fs/dir_iterate.c"],
         funcs=["check_dir_block", "check_name", "check_filetype", "ext2fs_get_rec_len"],
         cut_statics={"e2fsck/pass2.c": ["parse_int_node"]},
         configs=[{"BLK": 48, "BLOCKCNT": 1}, {"BLK": 36, "BLOCKCNT": 2}],
         unwind=5, unwindset=["main.%d:50" % i for i in range(6)] + ["ref_scan.0:14", "ext2fs_dirhash2.0:14", "ext2fs_read_dir_block4.0:50",
                              "check_dir_block.0:6", "check_name.0:42", "strncmp.0:4"],
         backends=["default", "kissat"],
         bound="one leaf block of 48 / 36 bytes (up to 4 / 3 entries) of an indexed directory, every byte symbolic; one symbolic 32-bit hash per "
               "entry position; stale dx_block slot symbolic; inode numbers / counts symbolic"))
HR_UW = ["main.%d:50" % i for i in range(6)] + ["fix_problem.0:6", "update_parents.0:6", "htree_depth.0:3", "e2fsck_pass2.0:6", "e2fsck_pass2.1:3"]
HARNESSES.append(
    dict(name="htreerange", src="htreerange.c",
         funcs=["e2fsck_pass2", "update_parents", "htree_depth"],
         configs=[{"NB": 4}, {"NB": 2}],
         unwind=5, unwindset=HR_UW,
         backends=["default", "kissat"],
         bound="one indexed directory of 2 / 4 blocks (root + 1 / 3 leaves, two-level tree); every collected fact of every block symbolic 32-bit"))
HARNESSES.append(
    dict(name="htreerange_leaf", src="htreerange.c", extra_src=["lib/ext2fs/dir_iterate.c"],
         funcs=["e2fsck_pass2", "check_dir_block", "update_parents", "htree_depth", "check_name", "ext2fs_get_rec_len"],
         cut_statics={"e2fsck/pass2.c": ["parse_int_node"]},
         configs=[{"NB": 3, "BLK": 36, "WITH_LEAF": None}],
         unwind=5, unwindset=HR_UW + ["ref_scan.0:14", "ext2fs_dirhash2.0:14", "ext2fs_read_dir_block4.0:50", "check_dir_block.0:6",
                                      "check_name.0:42", "strncmp.0:4"],
         backends=["default", "kissat"],
         bound="root + 2 leaves; leaf 1 is a 36-byte block (up to 3 entries), every byte symbolic, one symbolic hash per entry position, "
               "run through the real check_dir_block; all other facts symbolic"))
HARNESSES.append(
    dict(name="htreenode", src="htreenode.c",
         funcs=["parse_int_node"],
         configs=[{"BLK": 40, "BLOCKCNT": 1, "NBK": 4}, {"BLK": 56, "BLOCKCNT": 0, "NBK": 3},
                  {"BLK": 48, "BLOCKCNT": 1, "NBK": 5, "_tier": "thorough"}, {"BLK": 64, "BLOCKCNT": 0, "NBK": 4, "_tier": "thorough"}],
         unwind=5, unwindset=["main.%d:70" % i for i in range(16)] + ["parse_int_node.0:7"],
         backends=["default", "kissat"],
         bound="one index node of 40 bytes (interior, 4 entries) / 56 bytes (root, 3 entries) [thorough: 48 / 64 bytes, 5 / 4 entries], every byte symbolic; directory of 4 / 3 [5 / 4] blocks, "
               "every prior fact of every block symbolic"))
P5_UW = ["main.%d:200" % i for i in range(48)] + ["fix_problem.%d:26" % i for i in range(4)] + ["vf_bit.0:26", "vf_get_range.0:9",
         "ext2fs_test_inode_bitmap_range.0:9", "vf_reset_record.0:18", "vf_reset_record.1:4", "ext2fs_bitcount.0:5", "ext2fs_bitcount.1:3", "ext2fs_bitcount.2:5"]
HARNESSES.append(
    dict(name="p5blocks", src="p5blocks.c", extra_src=["lib/ext2fs/blknum.c", "lib/ext2fs/bitops.c"],
         funcs=["check_block_bitmaps", "print_bitmap_problem", "ext2fs_bg_free_blocks_count", "ext2fs_bg_flags_test", "ext2fs_free_blocks_count",
                "ext2fs_blocks_count", "ext2fs_bitcount"],
         configs=[{"ANSWER": 0, "NG": 2, "DSZ": 32, "FDB": 1, "LAST": 5, "DISCARD": None}, {"ANSWER": 0, "NG": 2, "DSZ": 32, "FDB": 0, "LAST": 2},
                  {"ANSWER": 0, "NG": 2, "DSZ": 64, "FDB": 0, "LAST": 8, "DISCARD": None, "_tier": "thorough"},
                  {"ANSWER": 0, "NG": 2, "DSZ": 64, "FDB": 1, "LAST": 8, "_tier": "thorough"},
                  {"ANSWER": 0, "NG": 3, "DSZ": 32, "FDB": 1, "LAST": 3, "DISCARD": None, "_tier": "thorough"}],
         cbmc_flags=["--max-field-sensitivity-array-size", "256"],
         unwind=4, unwindset=P5_UW + ["io_channel_discard.0:26", "check_block_bitmaps.0:26", "check_block_bitmaps.1:1", "check_block_bitmaps.2:5"],
         backends=["default", "kissat"], cap_quick=300,
         bound="2 groups of 8 blocks (the last 1..8 long), first data block 0/1, every bit of both bitmaps, every descriptor byte, "
               "superblock count, ro_compat and fs->flags symbolic; e2fsck -n"))
HARNESSES.append(
    dict(name="p5inodes", src="p5inodes.c", extra_src=["lib/ext2fs/blknum.c"],
         funcs=["check_inode_bitmaps", "print_bitmap_problem", "ext2fs_bg_free_inodes_count", "ext2fs_bg_used_dirs_count", "ext2fs_bg_flags_test"],
         configs=[{"ANSWER": 0, "NG": 3, "IPG": 4, "DSZ": 32, "CSUM": 0}, {"ANSWER": 0, "NG": 2, "IPG": 4, "DSZ": 32, "CSUM": 1},
                  {"ANSWER": 0, "NG": 2, "IPG": 8, "DSZ": 32, "CSUM": 0, "_tier": "thorough"}, {"ANSWER": 0, "NG": 2, "IPG": 8, "DSZ": 32, "CSUM": 1, "_tier": "thorough"},
                  {"ANSWER": 0, "NG": 2, "IPG": 8, "DSZ": 64, "CSUM": 1, "_tier": "thorough"}, {"ANSWER": 0, "NG": 3, "IPG": 8, "DSZ": 32, "CSUM": 0, "_tier": "thorough"}],
         cbmc_flags=["--object-bits", "10", "--max-field-sensitivity-array-size", "256"],
         unwind=4, unwindset=P5_UW + ["check_inode_bitmaps.0:26", "check_inode_bitmaps.1:1", "check_inode_bitmaps.2:5"],
         backends=["default", "kissat"], cap_quick=300,
         bound="2-3 groups of 4 inodes (thorough: 8), every bit of inode_used_map / inode_dir_map / fs->inode_map, every descriptor byte, "
               "s_free_inodes_count and fs->flags symbolic; with and without group-descriptor checksums (INODE_UNINIT honoured); e2fsck -n"))
P4_UW = ["main.%d:16" % i for i in range(12)] + ["fix_problem.0:15", "vf_bit.0:15", "ext2fs_unmark_generic_bmap.0:15", "vf_reset.0:15", "e2fsck_pass4.0:15"]
HARNESSES.append(
    dict(name="p4links", src="p4links.c",
         funcs=["e2fsck_pass4", "disconnect_inode"],
         configs=[{"ANSWER": 0}],
         unwind=4, unwindset=P4_UW,
         backends=["default", "kissat"],
         bound="13 inodes (2 and 11..13 checked), membership in the four pass-1 maps, both 32-bit counters, i_mode / i_links_count / i_blocks / i_flags "
               "of every inode, dir_nlink and fs->flags symbolic; 128-byte inodes, no EA-inode table; e2fsck -n (read-only)"))
P3_UW = ["main.%d:9" % i for i in range(24)] + ["fix_problem.0:7", "vf_bit.0:9", "ext2fs_mark_generic_bmap.0:9", "ext2fs_clear_inode_bitmap.0:9",
         "e2fsck_dir_info_get_parent.0:7", "e2fsck_dir_info_get_dotdot.0:7", "e2fsck_reconnect_file.0:7", "fix_dotdot.0:7",
         "ref_chain.0:7", "ref_chain.1:7", "ref_chain.2:8", "vf_run_pass3.0:9", "vf_run_pass3.1:7", "check_directory.0:8"]
HARNESSES.append(
    dict(name="p3dirs", src="p3dirs.c",
         funcs=["check_directory"],
         cut_statics={"e2fsck/pass3.c": ["e2fsck_reconnect_file", "fix_dotdot"]},
         configs=[{"ANSWER": 0, "ND": 5}, {"ANSWER": 0, "ND": 4, "LOOPCHECK": None}, {"ANSWER": 0, "ND": 6, "_tier": "thorough"}],
         unwind=4, unwindset=P3_UW,
         backends=["default", "kissat"],
         bound="table of 6 directories (root, lost+found, 4 more): parent (none or any table directory), '..' (any 32-bit value) and inode_dir_map "
               "membership symbolic for each; every parent function on 6 nodes, loops included; e2fsck -n"))
HARNESSES.append(
    dict(name="p1blocks", src="p1blocks.c",
         funcs=["process_block", "mark_block_used"],
         configs=[{"NCALL": 3}],
         unwind=4, unwindset=["main.%d:18" % i for i in range(12)] + ["fix_problem.0:4", "vf_bit.0:17", "ext2fs_mark_generic_bmap.0:17"],
         backends=["default", "kissat"],
         bound="16-block filesystem, arbitrary block_found_map / block_dup_map, one regular indirect-mapped file, 3 calls with symbolic 64-bit block numbers at "
               "logical blocks 0..2, symbolic num_blocks / max_blocks; e2fsck -n"))
HARNESSES.append(
    dict(name="p4eamagic", src="p4eamagic.c",
         funcs=["disconnect_inode"],
         checks="memsafe", unwind=4, unwindset=["e2fsck_read_inode_full.0:258", "main.0:4"],
         backends=["default"],
         bound="one 256-byte inode, every byte symbolic, in a heap buffer of exactly 256 bytes; e2fsck -n"))
import importlib.util as _ilu2, os as _os2
def _iscan():
    """the inode scan e2fsck pass 1 uses (EXT2_SF_WARN_GARBAGE_INODES): an inode whose checksum does not verify is reported to the
    caller -- the verdict consulted belongs to the inode's own block (source harness/C14/iscan_p.c)"""
    p = _os2.path.join(_os2.path.dirname(_os2.path.abspath(__file__)), "..", "C14", "spec.py")
    sp = _ilu2.spec_from_file_location("spec_C14_for_C02", p)
    m = _ilu2.module_from_spec(sp)
    sp.loader.exec_module(m)
    for h in m.HARNESSES:
        if h["name"] == "iscan_p":
            d = dict(h)
            d["src"] = "../C14/iscan_p.c"
            d["configs"] = [c for c in h["configs"] if c.get("_tier") != "thorough"][:1]
            return [d]
    raise RuntimeError("C14 iscan_p harness missing")
HARNESSES += _iscan()

HARNESSES.append(
    dict(name="extscan", src="extscan.c",
         funcs=["scan_extent_node", "mark_block_used", "mark_blocks_used"],
         configs=[{"DEPTH": 1, "UN": 0}, {"DEPTH": 0, "UN": 0}, {"DEPTH": 1, "UN": 1, "_tier": "thorough"}, {"DEPTH": 1, "UN": 0, "NI_MAX": 3, "_tier": "thorough"}],
         unwind=4, unwindset=["main.%d:10" % i for i in range(16)] + ["scan_extent_node.%d:5" % i for i in range(6)] + ["vf_fill.0:4", "vf_fill.1:4", "vf_fill.2:4",
                              "vf_count_here.0:4", "fix_problem.0:4", "ext2fs_mark_generic_bmap.0:10", "ext2fs_mark_block_bitmap_range2.0:10"],
         backends=["default", "kissat"],
         bound="regular file; depth-1 tree: root index node with 1..2 entries over leaf nodes with 1..2 extents each; depth-0 tree: 1..3 extents; every "
               "ei_block / leaf block / lblk / pblk / len / uninit flag, blocks_count and first data block symbolic (lblk < 2^31, pblk < 2^48, len <= 32768); e2fsck -n"))
MANIFEST = {
    "text": "Kernel-level slice (partial). Detector completeness against an independent format predicate, bounded-exhaustive: every extent header "
            "violating (magic, entries <= max, max entries fit the node) is rejected by ext2fs_extent_header_verify for every node size; every "
            "first/second directory entry that is not '.'(self) / '..'(non-zero inode) makes check_dot / check_dotdot raise a problem, and with the "
            "answer 'no' they modify nothing; ext2fs_check_desc decided exactly on 2-3 groups; the dirent tiling test of check_dir_block decided exactly. "
            "htree chain: check_dir_block records exactly min/max of the live entries' hashes of a leaf (htreeleaf), parse_int_node raises every node "
            "problem and records exactly the range the index assigns to each block (htreenode), the end of e2fsck_pass2 reports exactly the leaves "
            "out of range / unreferenced / doubly referenced / at the wrong depth (htreerange), and composed from the bytes of a leaf (htreerange_leaf). "
            "Both pass-5 bitmap checksum detectors report exactly the initialised bitmaps whose checksum fails, over the right bit range (bmcsum). "
            "e2fsck_process_bad_inode raises every field problem exactly when the on-disk field violates its format rule, on a fully symbolic inode "
            "(badinode). Whole-image invariants, per deciding kernel: pass 5 check_block_bitmaps / check_inode_bitmaps report exactly the maximal runs of bits that differ "
            "between the on-disk bitmap and what passes 1-4 found, exactly the groups / superblock whose free and directory counts differ from the bitmap, so silence implies "
            "bitmap and counts equal the found usage, with -n nothing modified and the fs un-marked valid (p5blocks incl. the memcmp fast path and -E discard never touching a used "
            "block, p5inodes incl. INODE_UNINIT groups); pass 4 e2fsck_pass4 raises PR_4_UNATTACHED_INODE / ZERO_LEN / BAD_REF_COUNT exactly for in-use inodes without "
            "references / with a stored link count different from the counted references (p4links); pass 3 check_directory over a 5-6 entry directory table reports exactly the "
            "parentless ends of parent chains and every '..' that differs from the parent, and its walk terminates for every parent function (p3dirs) -- but it accepts a cycle of "
            "parents silently (see below); pass 1 process_block / mark_block_used enter exactly the in-range blocks of a file into block_found_map, every block claimed twice "
            "into block_dup_map, and raise PR_1_ILLEGAL_BLOCK_NUM for every out-of-range block (p1blocks). pass 1 scan_extent_node (recursive, depth-0 and depth-1 trees, e2fsck -n): an extent tree violating the on-disk rules (index entry's ei_block != first block of its child in "
            "either direction, leaf block or extent outside the filesystem, zero length, extents out of order or overlapping) raises at least one problem, a well-formed tree raises "
            "nothing, is not modified and gets exactly its leaf blocks and extent blocks marked in block_found_map (extscan). Directory cycles: GENUINE FINDING, e2fsck -fn exits 0 on an image with directories unreachable from the root (p3dirs LOOPCHECK, demo_p3_dir_cycle.sh). "
            "Completeness of a whole e2fsck -fn run (pass 1 / 2 table construction) is outside.",
    "note": "Trusted: CBMC's C semantics, the harness's restatement of the on-disk format, fix_problem answering no (protocol: C01). "
            "parse_int_node is cut in htreeleaf / htreerange_leaf and decided separately in htreenode; hash and checksum primitives are stubs "
            "with symbolic results (decided in C15 / C14). p5*/p4links/p3dirs: bitmaps, icounts and the dir_info table are small array models behind the real API names; "
            "e2fsck_reconnect_file / fix_dotdot (pass 3) cut to recording stubs that update the table as the real ones do; e2fsck_process_bad_inode, e2fsck_clear_inode "
            "stubbed in p4links.",
}
