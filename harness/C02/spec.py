META = {
    "assumptions": ["allocation failure out of scope (--no-malloc-may-fail)"],
    "outside": ["completeness of a whole e2fsck -fn run (block ownership, bitmaps and counts, link counts, reachability, checksums): "
                "only three self-contained detectors are decided",
                ],
}
HARNESSES = []
HARNESSES.append(
    dict(name="exthdr", src="exthdr.c",
         funcs=["ext2fs_extent_header_verify"],
         unwind=4, unwindset=["main.0:14", "main.1:14"], backends=["default", "kissat", "z3"],
         bound="all 2^96 headers, node size 12..65536"))
HARNESSES.append(
    dict(name="dotdet", src="dotdet.c", extra_src=["lib/ext2fs/dir_iterate.c"],
         funcs=["check_dot", "ext2fs_get_rec_len"],
         configs=[{"KERNEL": 0, "OFF": 0}],
         unwind=4, unwindset=["main.%d:50" % i for i in range(4)] + ["strncmp.0:4"], backends=["default", "kissat"],
         bound="block of 48 bytes, every byte symbolic (entry valid per the caller's test), inode number and feature word symbolic"))
HARNESSES.append(
    dict(name="dotdotdet", src="dotdet.c", extra_src=["lib/ext2fs/dir_iterate.c"],
         funcs=["check_dotdot", "ext2fs_get_rec_len"],
         configs=[{"KERNEL": 1, "OFF": 12}],
         unwind=4, unwindset=["main.%d:50" % i for i in range(4)], backends=["default", "kissat"],
         bound="block of 48 bytes, every byte symbolic (entry at offset 12 valid per the caller's test)"))
CD_SRC = ["lib/ext2fs/alloc_sb.c", "lib/ext2fs/closefs.c", "lib/ext2fs/blknum.c", "lib/ext2fs/bitmaps.c", "lib/ext2fs/gen_bitmap64.c",
          "lib/ext2fs/gen_bitmap.c", "lib/ext2fs/blkmap64_ba.c", "lib/ext2fs/blkmap64_rb.c", "lib/ext2fs/rbtree.c", "lib/ext2fs/bitops.c"]
HARNESSES.append(
    dict(name="checkdesc", src="checkdesc.c", extra_src=CD_SRC,
         funcs=["ext2fs_check_desc", "ext2fs_reserve_super_and_bgd", "ext2fs_super_and_bgd_loc2", "ext2fs_bg_has_super",
                "ext2fs_allocate_subcluster_bitmap", "ba_new_bmap", "ba_test_bmap", "ba_mark_bmap"],
         configs=[{"NG": 2, "ITB": 2}, {"NG": 2, "ITB": 2, "FLEX": None}, {"NG": 3, "ITB": 2}, {"NG": 3, "ITB": 2, "FLEX": None}],
         unwind=5, unwindset=["main.%d:12" % i for i in range(8)] + ["ref_meta.0:5", "ext2fs_check_desc.0:5", "ext2fs_check_desc.1:4", "ext2fs_check_desc.2:5",
                              "test_root.0:6", "strlen.0:24", "strcpy.0:24", "memset.0:40"],
         backends=["default", "kissat"],
         bound="2 and 3 groups of 64 one-KiB blocks, last group 8..64 blocks, 2 inode-table blocks per group, 0..2 reserved GDT blocks, "
               "sparse_super on/off, flex_bg on/off; all 6 / 9 table locations symbolic 32-bit"))
HARNESSES.append(
    dict(name="dirdet", src="dirdet.c", extra_src=["lib/ext2fs/dir_iterate.c"],
         funcs=["check_dir_block", "check_dot", "check_dotdot", "check_name", "check_filetype", "ext2fs_get_rec_len"],
         configs=[{"BLK": 36, "BLOCKCNT": 0}, {"BLK": 48, "BLOCKCNT": 0}, {"BLK": 48, "BLOCKCNT": 1}],
         unwind=5, unwindset=["main.%d:50" % i for i in range(4)] + ["ref_block_ok.0:14", "ext2fs_read_dir_block4.0:50", "check_dir_block.0:6",
                              "check_name.0:42", "strncmp.0:4"],
         backends=["default", "kissat"],
         bound="one directory block of 36 / 48 bytes, every byte symbolic; block 0 (with . and ..) and a later block; inode numbers / counts symbolic"))
HARNESSES.append(
    dict(name="badinode", src="badinode.c", extra_src=["lib/ext2fs/blknum.c"],
         funcs=["e2fsck_process_bad_inode", "ext2fs_file_acl_block", "ext2fs_blocks_count"],
         unwind=4, unwindset=["main.%d:16" % i for i in range(4)] + ["fix_problem.0:16", "e2fsck_read_inode.0:130"],
         backends=["default", "kissat"],
         bound="one 128-byte inode, every byte symbolic; feature words, creator OS, first data block, 64-bit block count, "
               "block size 1-64 KiB and the verdicts of pass 1's device/symlink sub-checks symbolic"))
HARNESSES.append(
    dict(name="bmcsum", src="bmcsum.c", extra_src=["lib/ext2fs/blknum.c"],
         funcs=["check_block_bitmap_checksum", "check_inode_bitmap_checksum", "ext2fs_bg_flags_test", "ext2fs_group_desc"],
         configs=[{"NG": 3, "DSZ": 32}, {"NG": 3, "DSZ": 64}, {"NG": 1, "DSZ": 32}],
         unwind=5, unwindset=["main.%d:200" % i for i in range(6)] + ["fix_problem.0:5",
                              "ext2fs_block_bitmap_csum_verify.0:5", "ext2fs_inode_bitmap_csum_verify.0:5",
                              "check_block_bitmap_checksum.0:5", "check_inode_bitmap_checksum.0:5"],
         backends=["default", "kissat"],
         bound="1 and 3 groups of 32 clusters / 16 inodes, 32- and 64-byte descriptors with every byte symbolic, feature word, "
               "fs->flags and per-group checksum verdicts symbolic"))
HARNESSES.append(
    dict(name="htreeleaf", src="htreeleaf.c", extra_src=["lib/ext2fs/dir_iterate.c"],
         funcs=["check_dir_block", "check_name", "check_filetype", "ext2fs_get_rec_len"],
         cut_statics={"e2fsck/pass2.c": ["parse_int_node"]},
         configs=[{"BLK": 48, "BLOCKCNT": 1}, {"BLK": 36, "BLOCKCNT": 2}],
         unwind=5, unwindset=["main.%d:50" % i for i in range(6)] + ["ref_scan.0:14", "ext2fs_dirhash2.0:14", "ext2fs_read_dir_block4.0:50",
                              "check_dir_block.0:6", "check_name.0:42", "strncmp.0:4"],
         backends=["default", "kissat"],
         bound="one leaf block of 48 / 36 bytes (up to 4 / 3 entries) of an indexed directory, every byte symbolic; one symbolic 32-bit hash per "
               "entry position; stale dx_block slot symbolic; inode numbers / counts symbolic"))
MANIFEST = {
    "text": "Kernel-level slice (partial). Detector completeness against an independent format predicate, bounded-exhaustive: every extent header "
            "violating (magic, entries <= max, max entries fit the node) is rejected by ext2fs_extent_header_verify for every node size; every "
            "first/second directory entry that is not '.'(self) / '..'(non-zero inode) makes check_dot / check_dotdot raise a problem, and with the "
            "answer 'no' they modify nothing. Completeness of a whole e2fsck -fn run is outside.",
    "note": "Trusted: CBMC's C semantics, the harness's restatement of the on-disk format. Added: ext2fs_check_desc decided exactly (error and error "
            "code) against an independent placement predicate on 2-3 groups with the real reserve/backup-location code and bit-array bitmap; the "
            "dirent validity test inside the real check_dir_block decided exactly against the format's tiling predicate under -n.",
}
