META = {
    "assumptions": ["allocation failure out of scope (--no-malloc-may-fail)"],
    "outside": ["completeness of a whole e2fsck -fn run (block ownership, bitmaps and counts, link counts, reachability, checksums): "
                "only three self-contained detectors are decided",
                "ext2fs_check_desc (group descriptor sanity): not built (needs the bitmap back end; see final report)"],
}
HARNESSES = []
HARNESSES.append(
    dict(name="exthdr", src="exthdr.c",
         funcs=["ext2fs_extent_header_verify"],
         unwind=4, unwindset=["main.0:14", "main.1:14"], backends=["default", "kissat", "z3"],
         bound="all 2^96 headers, node size 12..65536"))
HARNESSES.append(
    dict(name="dotdet", src="dotdet.c", extra_src=["lib/ext2fs/dir_iterate.c"],
         funcs=["check_dot", "ext2fs_get_rec_len"],
         configs=[{"KERNEL": 0, "OFF": 0}],
         unwind=4, unwindset=["main.%d:50" % i for i in range(4)] + ["strncmp.0:4"], backends=["default", "kissat"],
         bound="block of 48 bytes, every byte symbolic (entry valid per the caller's test), inode number and feature word symbolic"))
HARNESSES.append(
    dict(name="dotdotdet", src="dotdet.c", extra_src=["lib/ext2fs/dir_iterate.c"],
         funcs=["check_dotdot", "ext2fs_get_rec_len"],
         configs=[{"KERNEL": 1, "OFF": 12}],
         unwind=4, unwindset=["main.%d:50" % i for i in range(4)], backends=["default", "kissat"],
         bound="block of 48 bytes, every byte symbolic (entry at offset 12 valid per the caller's test)"))
MANIFEST = {
    "text": "Kernel-level slice (partial). Detector completeness against an independent format predicate, bounded-exhaustive: every extent header "
            "violating (magic, entries <= max, max entries fit the node) is rejected by ext2fs_extent_header_verify for every node size; every "
            "first/second directory entry that is not '.'(self) / '..'(non-zero inode) makes check_dot / check_dotdot raise a problem, and with the "
            "answer 'no' they modify nothing. Completeness of a whole e2fsck -fn run is outside.",
    "note": "Trusted: CBMC's C semantics, the harness's restatement of the on-disk format. ext2fs_check_desc not built.",
}
