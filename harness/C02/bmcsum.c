/*
 * C02/bmcsum: detector completeness (and exactness) of the two bitmap-checksum detectors of
 * pass 5, the REAL check_inode_bitmap_checksum() and check_block_bitmap_checksum() (pass5.c),
 * run in e2fsck_pass5()'s order under e2fsck -n (every question answered no).  They are the only
 * place where e2fsck verifies bg_{block,inode}_bitmap_csum (e2fsck_read_bitmaps ignores them).
 *
 * NG groups; the group-descriptor table is NG * DSZ symbolic bytes read through the REAL
 * ext2fs_bg_flags_test() / ext2fs_group_desc() (blknum.c); the ro_compat feature word, fs->flags
 * and the first data block are symbolic; the checksum primitive is a stub answering with a
 * symbolic per-group verdict (pattern T: what is fed to it is checked, the CRC itself is C14's).
 * Independent predicate from the on-disk format (bg_flags is the le16 at byte 18 of a
 * descriptor, bit 0 = INODE_UNINIT, bit 1 = BLOCK_UNINIT; metadata_csum = ro_compat bit 0x400):
 *   metadata_csum, group g's BLOCK bitmap not BLOCK_UNINIT, its checksum does not verify
 *        <=> PR_5_BLOCK_BITMAP_CSUM_INVALID is raised for group g   (same for INODE / INODE_UNINIT);
 *   a bitmap flagged UNINIT is not verified; without metadata_csum nothing is verified;
 *   what is verified for group g is exactly that group's bit range of the right bitmap;
 *   with every answer no, fs->flags is unchanged (bitmaps are not marked dirty).
 */
#include "e2fsck/pass5.c"
#include "env.c"

#ifndef NG
#define NG 3
#endif
#ifndef DSZ
#define DSZ 32
#endif
#define CPG 32		/* clusters per group */
#define IPG 16		/* inodes per group */
#define VF_BS 64	/* block size: only the size of the scratch buffer */

struct vf_in {
	unsigned char gd[NG * DSZ];
	__u32 ro_compat, fsflags, first_data_block;
	unsigned char bverdict[NG], iverdict[NG];
};
VF_DECLARE_INPUT(struct vf_in, IN)
#include "vf_input.inc"

static struct e2fsck_struct vf_ctx;
static struct struct_ext2_filsys vf_fs;
static struct ext2_super_block vf_sb;
static unsigned char vf_gd[NG * DSZ + 8] __attribute__((aligned(8)));
static char vf_bmap, vf_imap;
static int vf_nprob, vf_nother;
static int vf_braised[NG], vf_iraised[NG], vf_bverified[NG], vf_iverified[NG], vf_argbad;
static int vf_last_kind;		/* 1 = block range, 2 = inode range delivered last */
static unsigned long long vf_last_start, vf_last_num;
static unsigned char vf_serial;

/* STUB: fix_problem() records code and group and answers no (e2fsck -n; protocol decided in C01/fixproblem) */
int fix_problem(e2fsck_t ctx, problem_t code, struct problem_context *pctx)
{
	int g;
	(void) ctx;
	vf_nprob++;
	if (code != PR_5_BLOCK_BITMAP_CSUM_INVALID && code != PR_5_INODE_BITMAP_CSUM_INVALID)
		vf_nother++;
	for (g = 0; g < NG; g++)
		if (pctx->group == g) {
			if (code == PR_5_BLOCK_BITMAP_CSUM_INVALID)
				vf_braised[g]++;
			if (code == PR_5_INODE_BITMAP_CSUM_INVALID)
				vf_iraised[g]++;
		}
	return 0;
}
/* STUB: clear_problem_context() as in problem.c */
void clear_problem_context(struct problem_context *pctx)
{
	static struct problem_context z;
	*pctx = z;
	pctx->blkcount = -1;
	pctx->group = -1;
}
/* STUB: ext2fs_get_{block,inode}_bitmap_range2() succeed, remember (bitmap, start, num) and tag the buffer with a serial number */
errcode_t ext2fs_get_block_bitmap_range2(ext2fs_block_bitmap bmap, blk64_t start, size_t num, void *out)
{
	if ((void *) bmap != (void *) &vf_bmap)
		vf_argbad++;
	vf_last_kind = 1; vf_last_start = start; vf_last_num = num;
	((unsigned char *) out)[0] = ++vf_serial;
	return 0;
}
errcode_t ext2fs_get_inode_bitmap_range2(ext2fs_inode_bitmap bmap, __u64 start, size_t num, void *out)
{
	if ((void *) bmap != (void *) &vf_imap)
		vf_argbad++;
	vf_last_kind = 2; vf_last_start = start; vf_last_num = num;
	((unsigned char *) out)[0] = ++vf_serial;
	return 0;
}
/* STUB: ext2fs_{block,inode}_bitmap_csum_verify() answer with the symbolic verdict of that group and check what they are fed:
 *       the buffer just filled from the right bitmap with exactly that group's bit range, and its length in bytes */
int ext2fs_block_bitmap_csum_verify(ext2_filsys fs, dgrp_t group, char *bitmap, int size)
{
	int g, v = 1;
	if (fs != &vf_fs || vf_last_kind != 1 || (unsigned char) bitmap[0] != vf_serial ||
	    vf_last_start != (unsigned long long) IN.first_data_block + (unsigned long long) group * CPG ||
	    vf_last_num != CPG || size != CPG / 8)
		vf_argbad++;
	for (g = 0; g < NG; g++)
		if (group == (dgrp_t) g) {
			vf_bverified[g]++;
			v = IN.bverdict[g] & 1;
		}
	return v;
}
int ext2fs_inode_bitmap_csum_verify(ext2_filsys fs, dgrp_t group, char *bitmap, int size)
{
	int g, v = 1;
	if (fs != &vf_fs || vf_last_kind != 2 || (unsigned char) bitmap[0] != vf_serial ||
	    vf_last_start != 1 + (unsigned long long) group * IPG ||
	    vf_last_num != IPG || size != IPG / 8)
		vf_argbad++;
	for (g = 0; g < NG; g++)
		if (group == (dgrp_t) g) {
			vf_iverified[g]++;
			v = IN.iverdict[g] & 1;
		}
	return v;
}
/* STUB: fatal_error() ends the path */
void fatal_error(e2fsck_t ctx, const char *msg) { (void) ctx; (void) msg; __CPROVER_assume(0); }
#ifndef VF_REPLAY
char *gettext(const char *s) { return (char *) s; }
#endif

int main(void)
{
	int g, i, csum, bdirty, idirty, want_b, want_i, total = 0;

	VF_INPUT(IN);
	/* BOUND: first data block 0 or 1, cluster ratio 1, NG groups of 32 clusters / 16 inodes */
	ASSUME(IN.first_data_block <= 1);
	vf_fs.super = &vf_sb;
	vf_fs.blocksize = VF_BS;
	vf_fs.group_desc_count = NG;
	vf_fs.flags = IN.fsflags;
	vf_fs.group_desc = (struct opaque_ext2_group_desc *) vf_gd;
	vf_fs.block_map = (ext2fs_block_bitmap) &vf_bmap;
	vf_fs.inode_map = (ext2fs_inode_bitmap) &vf_imap;
	vf_sb.s_first_data_block = IN.first_data_block;
	vf_sb.s_clusters_per_group = CPG;
	vf_sb.s_blocks_per_group = CPG;
	vf_sb.s_inodes_per_group = IPG;
	vf_sb.s_feature_ro_compat = IN.ro_compat;
#if DSZ == 64
	vf_sb.s_feature_incompat = EXT4_FEATURE_INCOMPAT_64BIT;
	vf_sb.s_desc_size = 64;
#endif
	vf_sb.s_log_block_size = 0;
	for (i = 0; i < NG * DSZ; i++)
		vf_gd[i] = IN.gd[i];
	vf_ctx.fs = &vf_fs;

	check_inode_bitmap_checksum(&vf_ctx);
	check_block_bitmap_checksum(&vf_ctx);

	csum = (IN.ro_compat & 0x0400) != 0;		/* RO_COMPAT_METADATA_CSUM */
	bdirty = (IN.fsflags & EXT2_FLAG_BB_DIRTY) != 0;	/* a dirty bitmap gets all checksums rewritten on close */
	idirty = (IN.fsflags & EXT2_FLAG_IB_DIRTY) != 0;
	for (g = 0; g < NG; g++) {
		int flags = IN.gd[g * DSZ + 18];	/* low byte of the le16 bg_flags */
		want_b = csum && !bdirty && !(flags & 0x02) && !(IN.bverdict[g] & 1);
		want_i = csum && !idirty && !(flags & 0x01) && !(IN.iverdict[g] & 1);
		total += want_b + want_i;
		if (want_b)
			PROP(vf_braised[g] > 0, "an initialised block bitmap whose checksum does not verify raises PR_5_BLOCK_BITMAP_CSUM_INVALID");
		if (want_i)
			PROP(vf_iraised[g] > 0, "an initialised inode bitmap whose checksum does not verify raises PR_5_INODE_BITMAP_CSUM_INVALID");
		PROP(vf_braised[g] == want_b, "PR_5_BLOCK_BITMAP_CSUM_INVALID is raised for exactly the offending groups, once");
		PROP(vf_iraised[g] == want_i, "PR_5_INODE_BITMAP_CSUM_INVALID is raised for exactly the offending groups, once");
		PROP(vf_bverified[g] == (csum && !bdirty && !(flags & 0x02)), "a block bitmap is verified iff metadata_csum and not BLOCK_UNINIT");
		PROP(vf_iverified[g] == (csum && !idirty && !(flags & 0x01)), "an inode bitmap is verified iff metadata_csum and not INODE_UNINIT");
	}
	PROP(vf_argbad == 0, "the checksum is verified over exactly that group's range of the right bitmap");
	PROP(vf_nprob == total && vf_nother == 0, "no other problem is raised");
	PROP(vf_fs.flags == IN.fsflags, "with every answer no the bitmaps are not marked dirty");
	for (i = 0; i < NG * DSZ; i++)
		PROP(vf_gd[i] == IN.gd[i], "the group descriptors are not modified");
	VF_END();
	return 0;
}
