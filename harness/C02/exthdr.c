/*
 * C02/exthdr: detector completeness of ext2fs_extent_header_verify() (extent.c), the
 * check every extent node passes through before e2fsck / libext2fs walk it.
 *
 * Independent well-formedness predicate from the on-disk format: magic 0xF30A,
 * eh_entries <= eh_max, and the eh_max entries of 12 bytes fit behind the 12-byte
 * header in the node of `size` bytes.  For EVERY header and every node size:
 * a header violating the predicate is rejected (completeness); and the verdict is
 * exactly "predicate holds and eh_max is at most 2 entries short of the capacity".
 */
#include "lib/ext2fs/extent.c"

struct vf_in { unsigned char hdr[12]; int size; };
VF_DECLARE_INPUT(struct vf_in, IN)
#include "vf_input.inc"

int main(void)
{
	static unsigned char node[16] __attribute__((aligned(8)));
	unsigned int magic, entries, max, cap;
	int wf, i;
	errcode_t r;

	VF_INPUT(IN);
	/* ASSUME: node sizes callers pass: 60 (i_block) .. 65536 (largest block) */
	ASSUME(IN.size >= 12 && IN.size <= 65536);
	for (i = 0; i < 12; i++)
		node[i] = IN.hdr[i];
	r = ext2fs_extent_header_verify(node, IN.size);

	magic = IN.hdr[0] | (IN.hdr[1] << 8);
	entries = IN.hdr[2] | (IN.hdr[3] << 8);
	max = IN.hdr[4] | (IN.hdr[5] << 8);
	wf = magic == 0xF30A && entries <= max && 12 + 12 * max <= (unsigned) IN.size;
	if (!wf)
		PROP(r != 0, "an extent header violating the format predicate is rejected");
	cap = ((unsigned) IN.size - 12) / 12;
	PROP((r == 0) == (wf && max + 2 >= cap), "verdict equals the format predicate plus the capacity slack of two entries");
	PROP(r == 0 || r == EXT2_ET_EXTENT_HEADER_BAD, "the only error is EXT2_ET_EXTENT_HEADER_BAD");
	VF_END();
	return 0;
}
