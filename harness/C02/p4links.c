/*
 * C02/p4links (ANSWER 0, e2fsck -n) and C01/p4links (ANSWER 1, e2fsck -y + second run): the REAL
 * e2fsck_pass4() and disconnect_inode() of e2fsck/pass4.c: "every inode in use is referenced from the
 * directory tree, and its stored link count equals the number of references".
 *
 * 13 inodes (s_first_ino = 11, so inode 2 and inodes 11..13 are checked; 1 and 3..10 are reserved).
 * Symbolic per inode: membership in inode_used_map / inode_imagic_map / inode_bb_map / inode_dir_map,
 * the 32-bit counters behind ctx->inode_link_info (i_links_count as pass 1 read it) and
 * ctx->inode_count (references counted by pass 2), and the on-disk inode's i_mode, i_links_count,
 * i_blocks, i_flags.  Feature dir_nlink and fs->flags symbolic.
 *
 * Independent reference (what the ext4 format / e2fsck(8) say):
 *   an inode is checked iff it is in use, not reserved, not imagic, not in a bad block;
 *   refs = min(counted, 65500) (the icount interface saturates);
 *   refs == 0: the inode is unattached: PR_4_UNATTACHED_INODE, preceded by PR_4_ZERO_LEN_INODE when it is
 *       an empty regular file or directory (no blocks, no in-inode EA: 128-byte inodes);
 *   refs > 0: a directory with more than 65000 links is stored with link count 1 (needs dir_nlink:
 *       PR_4_DIR_NLINK_FEATURE); otherwise the stored count must equal refs, else PR_4_BAD_REF_COUNT
 *       (num = refs) -- except the htree directory that once overflowed (stored 1, INDEX_FL, refs > 1):
 *       PR_4_DIR_OVERFLOW_REF_COUNT, and nothing at all when read-only.
 *   PR_4_INCONSISTENT_COUNT iff the pass-1 copy differs from the inode (programming-error report).
 *   ANSWER 0: nothing else raised; silence => every checked inode has refs >= 1 and a right link count;
 *             no inode written, no counter changed, nothing cleared or reconnected.
 *   ANSWER 1: every checked inode ends up cleared (empty, unattached), or with refs >= 1 and
 *             i_links_count == refs (1 for a > 65000-link directory); then the counters of the NEXT run are
 *             formed (inode_link_info := i_links_count on disk, inode_count := references now on disk)
 *             and the real e2fsck_pass4() runs again: it raises nothing and writes nothing.
 */
#ifndef ANSWER
#define ANSWER 0
#endif
#define NI 13			/* s_inodes_count */
#define FIRST_INO 11
#define VF_NPOS (NI + 1)

#include "e2fsck/pass4.c"
#include "env.c"
#include "p5model.h"

struct vf_in {
	unsigned char used[VF_NPOS], imagic[VF_NPOS], bb[VF_NPOS], dir[VF_NPOS], badclr[VF_NPOS];
	__u32 link_info[VF_NPOS], counted[VF_NPOS];
	__u16 mode[VF_NPOS], links[VF_NPOS];
	__u32 blocks[VF_NPOS], iflags[VF_NPOS];
	__u32 dir_nlink, fsflags;
};
VF_DECLARE_INPUT(struct vf_in, IN)
#include "vf_input.inc"

static struct e2fsck_struct vf_ctx;
static struct struct_ext2_filsys vf_fs;
static struct ext2_super_block vf_sb;
static struct vf_bm vf_used, vf_imagic, vf_bb, vf_dir;
struct vf_ic { __u32 cnt[VF_NPOS]; };
static struct vf_ic vf_link_info, vf_count;
static struct ext2_inode vf_ino[VF_NPOS];		/* the inode table */

static int vf_nprob, vf_nother, vf_badarg, vf_nlinkfeat;
static unsigned char vf_zl_at[VF_NPOS], vf_unatt_at[VF_NPOS], vf_bad_at[VF_NPOS], vf_incons_at[VF_NPOS], vf_ovf_at[VF_NPOS];
static __u64 vf_bad_num[VF_NPOS], vf_incons_num[VF_NPOS], vf_ovf_num[VF_NPOS];
static int vf_nwrite, vf_nclear, vf_nreconnect, vf_nstore, vf_nstats, vf_stats_bad, vf_ctx_bad;
static unsigned char vf_written[VF_NPOS], vf_cleared[VF_NPOS], vf_reconnected[VF_NPOS], vf_stats_at[VF_NPOS];

/* STUB: fix_problem() records code and inode and answers ANSWER */
int fix_problem(e2fsck_t ctx, problem_t code, struct problem_context *pctx)
{
	int p;
	(void) ctx;
	if (code == PR_4_PASS_HEADER)
		return 0;
	vf_nprob++;
	if (code == PR_4_DIR_NLINK_FEATURE) {
		vf_nlinkfeat++;
		return ANSWER;
	}
	if (pctx->ino == 0 || pctx->ino > NI)
		vf_badarg++;
	/* the inode handed over for the message is the on-disk inode of pctx->ino */
	for (p = 1; p < VF_NPOS; p++)
		if (pctx->ino == (ext2_ino_t) p) {
			if (!pctx->inode || pctx->inode->i_mode != vf_ino[p].i_mode)
				vf_ctx_bad++;
			switch (code) {
			case PR_4_ZERO_LEN_INODE: vf_zl_at[p]++; break;
			case PR_4_UNATTACHED_INODE: vf_unatt_at[p]++; break;
			case PR_4_BAD_REF_COUNT: vf_bad_at[p]++; vf_bad_num[p] = pctx->num; break;
			case PR_4_INCONSISTENT_COUNT: vf_incons_at[p]++; vf_incons_num[p] = pctx->num; break;
			case PR_4_DIR_OVERFLOW_REF_COUNT: vf_ovf_at[p]++; vf_ovf_num[p] = pctx->num; break;
			default: vf_nother++;
			}
		}
	return ANSWER;
}
/* STUB: resource tracking is a no-op */
void init_resource_track(struct resource_track *track, io_channel channel) { (void) track; (void) channel; }
void print_resource_track(e2fsck_t ctx, const char *desc, struct resource_track *track, io_channel channel)
{ (void) ctx; (void) desc; (void) track; (void) channel; }
/* STUB: quota_type2inum(): no project-quota inode */
ext2_ino_t quota_type2inum(enum quota_type qtype, struct ext2_super_block *sb) { (void) qtype; (void) sb; return 0; }
/* STUB: icount interface = 32-bit counter per inode, fetch saturates at 65500 (icount_16_xlate); free is a no-op */
errcode_t ext2fs_icount_fetch(ext2_icount_t icount, ext2_ino_t ino, __u16 *ret)
{
	__u32 v = ((struct vf_ic *) icount)->cnt[ino];
	*ret = (__u16) (v > 65500 ? 65500 : v);
	return 0;
}
void ext2fs_free_icount(ext2_icount_t icount) { (void) icount; }
void ea_refcount_free(ext2_refcount_t refcount) { (void) refcount; }
/* STUB: ext2fs_unmark_generic_bmap() on the set model */
int ext2fs_unmark_generic_bmap(ext2fs_generic_bitmap b, __u64 a)
{
	struct vf_bm *m = (struct vf_bm *) b;
	int i, r = 0;
	if (a < m->start || a > m->end) { vf_range_err = 1; return 0; }
	for (i = 0; i < VF_NPOS; i++)
		if ((__u64) i == a) { r = m->bit[i]; m->bit[i] = 0; }
	return r;
}
/* STUB: e2fsck_read_inode_full() / e2fsck_write_inode_full() move 128 bytes between the caller's buffer and the inode table */
void e2fsck_read_inode_full(e2fsck_t ctx, unsigned long ino, struct ext2_inode *inode, const int bufsize, const char *proc)
{ (void) ctx; (void) proc; if (bufsize != 128 || ino == 0 || ino > NI) vf_badarg++; *inode = vf_ino[ino]; }
void e2fsck_write_inode_full(e2fsck_t ctx, unsigned long ino, struct ext2_inode *inode, int bufsize, const char *proc)
{
	(void) ctx; (void) proc;
	if (bufsize != 128 || ino == 0 || ino > NI) vf_badarg++;
	vf_ino[ino] = *inode; vf_nwrite++; vf_written[ino]++;
}
/* STUB: e2fsck_process_bad_inode(): pass 2's bad-inode check (decided in C02/badinode); it returns 1 after clearing the inode,
 *       which it never does under -n (ANSWER 0); under -y a symbolic verdict, modelled as e2fsck_clear_inode() */
void e2fsck_clear_inode(e2fsck_t ctx, ext2_ino_t ino, struct ext2_inode *inode, int restart_flag, const char *source);
int e2fsck_process_bad_inode(e2fsck_t ctx, ext2_ino_t dir, ext2_ino_t ino, char *buf)
{
	(void) dir; (void) buf;
#if ANSWER == 1
	if (IN.badclr[ino] & 1) {
		struct ext2_inode tmp = vf_ino[ino];
		e2fsck_clear_inode(ctx, ino, &tmp, 0, "stub");
		return 1;
	}
#endif
	(void) ctx;
	return 0;
}
/* STUB: e2fsck_clear_inode() as pass1.c: link count and flags zeroed, pass-1 counter stored 0, taken off used / dir maps, written */
void e2fsck_clear_inode(e2fsck_t ctx, ext2_ino_t ino, struct ext2_inode *inode, int restart_flag, const char *source)
{
	(void) source; (void) restart_flag;
	inode->i_flags = 0;
	inode->i_links_count = 0;
	((struct vf_ic *) ctx->inode_link_info)->cnt[ino] = 0;
	vf_nstore++;
	inode->i_dtime = 1000;
	ext2fs_unmark_generic_bmap((ext2fs_generic_bitmap) ctx->inode_dir_map, ino);
	ext2fs_unmark_generic_bmap((ext2fs_generic_bitmap) ctx->inode_used_map, ino);
	vf_ino[ino] = *inode;
	vf_nclear++;
	vf_cleared[ino]++;
}
void e2fsck_read_bitmaps(e2fsck_t ctx) { (void) ctx; }
/* STUB: ext2fs_inode_alloc_stats2() records (inode, -1, isdir) */
void ext2fs_inode_alloc_stats2(ext2_filsys fs, ext2_ino_t ino, int inuse, int isdir)
{
	(void) fs;
	vf_nstats++;
	vf_stats_at[ino]++;
	if (inuse != -1 || isdir != (LINUX_S_ISDIR(IN.mode[ino]) ? 1 : 0))
		vf_stats_bad++;
}
void quota_data_inodes(quota_ctx_t qctx, struct ext2_inode_large *inode, ext2_ino_t ino, int adjust)
{ (void) qctx; (void) inode; (void) ino; (void) adjust; }
/* STUB: e2fsck_reconnect_file() succeeds: the new lost+found entry is one reference (e2fsck_adjust_inode_count(ino, +1) of pass3.c:
 *       inode_count + 1; unless i_links_count is 65535: inode_link_info + 1 and i_links_count + 1, inode written) */
int e2fsck_reconnect_file(e2fsck_t ctx, ext2_ino_t ino)
{
	vf_nreconnect++;
	vf_reconnected[ino]++;
	((struct vf_ic *) ctx->inode_count)->cnt[ino]++;
	if (vf_ino[ino].i_links_count == (__u16) ~0)
		return 0;
	((struct vf_ic *) ctx->inode_link_info)->cnt[ino]++;
	vf_ino[ino].i_links_count++;
	return 0;
}

static int ref_checked(int p, const unsigned char *used)
{
	if (p == EXT2_BAD_INO || (p > EXT2_ROOT_INO && p < FIRST_INO))
		return 0;
	return used[p] && !IN.imagic[p] && !IN.bb[p];
}
static void vf_reset(void)
{
	int p;
	vf_nprob = vf_nother = vf_badarg = vf_nlinkfeat = 0;
	vf_nwrite = vf_nclear = vf_nreconnect = vf_nstore = vf_nstats = 0;
	for (p = 0; p < VF_NPOS; p++)
		vf_zl_at[p] = vf_unatt_at[p] = vf_bad_at[p] = vf_incons_at[p] = vf_ovf_at[p] = 0;
}
static void vf_set_ctx(void)
{
	vf_ctx.inode_used_map = (ext2fs_inode_bitmap) &vf_used;
	vf_ctx.inode_imagic_map = (ext2fs_inode_bitmap) &vf_imagic;
	vf_ctx.inode_bb_map = (ext2fs_inode_bitmap) &vf_bb;
	vf_ctx.inode_dir_map = (ext2fs_inode_bitmap) &vf_dir;
	vf_ctx.inode_link_info = (ext2_icount_t) &vf_link_info;
	vf_ctx.inode_count = (ext2_icount_t) &vf_count;
}

int main(void)
{
	int p, nexp = 0, nlinkexp = 0, any_unatt = 0, nlink_on;
	unsigned int f0;

	VF_INPUT(IN);
	for (p = 0; p < VF_NPOS; p++) {
		ASSUME(IN.used[p] <= 1 && IN.imagic[p] <= 1 && IN.bb[p] <= 1 && IN.dir[p] <= 1);
#if ANSWER == 1
		/* ASSUME: pass 1 put i_links_count into inode_link_info and passes 2-3 changed both together (e2fsck_adjust_inode_count),
		 *         so PR_4_INCONSISTENT_COUNT ("programming error") is not reachable */
		ASSUME(IN.link_info[p] == IN.links[p]);
#else
		ASSUME(IN.link_info[p] <= 65535);
#endif
		vf_used.bit[p] = IN.used[p];
		vf_imagic.bit[p] = IN.imagic[p];
		vf_bb.bit[p] = IN.bb[p];
		vf_dir.bit[p] = IN.dir[p];
		vf_link_info.cnt[p] = IN.link_info[p];
		vf_count.cnt[p] = IN.counted[p];
		vf_ino[p].i_mode = IN.mode[p];
		vf_ino[p].i_links_count = IN.links[p];
		vf_ino[p].i_blocks = IN.blocks[p];
		vf_ino[p].i_flags = IN.iflags[p];
	}
	vf_used.start = vf_imagic.start = vf_bb.start = vf_dir.start = 1;
	vf_used.end = vf_imagic.end = vf_bb.end = vf_dir.end = NI;
	vf_fs.super = &vf_sb;
	vf_fs.blocksize = 64;
	vf_fs.group_desc_count = 1;
	vf_fs.flags = IN.fsflags;
	f0 = IN.fsflags;
	/* BOUND: 13 inodes in one group, 128-byte inodes (no in-inode EA area), s_first_ino 11, no quota / orphan-file inode,
	 *        no EA-inode reference table (ctx->ea_inode_refs NULL), imagic and bad-block inode maps allocated (a NULL map = empty map) */
	vf_sb.s_inodes_count = NI;
	vf_sb.s_inodes_per_group = 16;
	vf_sb.s_rev_level = EXT2_DYNAMIC_REV;
	vf_sb.s_first_ino = FIRST_INO;
	vf_sb.s_inode_size = 128;
	nlink_on = (IN.dir_nlink & 1);
	vf_sb.s_feature_ro_compat = nlink_on ? EXT4_FEATURE_RO_COMPAT_DIR_NLINK : 0;
	vf_ctx.fs = &vf_fs;
	vf_set_ctx();
#if ANSWER == 0
	vf_ctx.options = E2F_OPT_READONLY | E2F_OPT_NO;
#else
	vf_ctx.options = E2F_OPT_YES;
#endif

	e2fsck_pass4(&vf_ctx);

	PROP(!vf_range_err && vf_badarg == 0 && vf_nother == 0 && vf_ctx_bad == 0, "only pass-4 problems, naming an inode of the filesystem and its on-disk inode");
	for (p = 1; p < VF_NPOS; p++) {
		int chk = ref_checked(p, IN.used);
		__u32 refs = IN.counted[p] > 65500 ? 65500 : IN.counted[p];
		__u32 stored = IN.link_info[p] > 65500 ? 65500 : IN.link_info[p];
		__u32 links = IN.links[p];
		int zl = 0, unatt = 0, bad = 0, incons = 0, ovf = 0, cleared = 0;
		__u32 eff;

		if (chk && refs == 0) {
			if (ANSWER && (IN.badclr[p] & 1))
				cleared = 1;
			else {
				zl = IN.blocks[p] == 0 && (LINUX_S_ISREG(IN.mode[p]) || LINUX_S_ISDIR(IN.mode[p]));
				if (ANSWER && zl)
					cleared = 1;
				else {
					unatt = 1;
					any_unatt = 1;
				}
			}
			if (ANSWER && unatt) {
				/* reconnected: one reference now; both copies of the link count went up by one */
				refs = 1;
				if (links != 65535) {
					links++;
					stored = (IN.link_info[p] + 1 > 65500) ? 65500 : IN.link_info[p] + 1;
				}
			}
		}
		if (chk && !cleared && !(unatt && !ANSWER)) {
			int isdir = IN.dir[p];
			eff = refs;
			if (isdir && refs > 65000) {
				if (!nlink_on && !(ANSWER && nlinkexp))
					nlinkexp++;
				eff = 1;
			}
			if (eff != stored) {
				incons = stored != links && !isdir && links <= 65000;
				if (isdir && eff > 1 && (IN.iflags[p] & EXT2_INDEX_FL) && stored == 1)
					ovf = ANSWER;		/* read-only: accepted silently */
				else
					bad = 1;
			}
			if (bad)
				PROP(vf_bad_at[p] == 1 && vf_bad_num[p] == eff, "a stored link count that differs from the counted references raises PR_4_BAD_REF_COUNT (showing the count)");
			if (ovf)
				PROP(vf_ovf_at[p] == 1 && vf_ovf_num[p] == eff, "PR_4_DIR_OVERFLOW_REF_COUNT for the htree directory whose link count no longer overflows");
			if (incons)
				PROP(vf_incons_num[p] == stored, "PR_4_INCONSISTENT_COUNT shows the pass-1 count");
#if ANSWER == 1
			PROP(vf_ino[p].i_links_count == ((bad || ovf) ? eff : links), "yes: i_links_count becomes the number of references (1 for a directory beyond 65000 links)");
			PROP(vf_written[p] == (bad || ovf), "yes: the inode is written iff its link count was corrected");
			PROP(vf_count.cnt[p] >= 1, "yes: an inode that stays in use has at least one reference afterwards");
#endif
		}
		if (chk && refs == 0 && !cleared && !ANSWER)
			PROP(vf_unatt_at[p] == 1, "an inode in use without any directory reference raises PR_4_UNATTACHED_INODE");
		PROP(vf_zl_at[p] == zl && vf_unatt_at[p] == unatt && vf_bad_at[p] == bad && vf_incons_at[p] == incons && vf_ovf_at[p] == ovf,
		     "exactly the expected pass-4 problems are raised for each inode (none for reserved / unused / imagic / bad-block inodes)");
		nexp += zl + unatt + bad + incons + ovf;
#if ANSWER == 1
		PROP(vf_cleared[p] == cleared, "yes: exactly the empty unattached inodes (and those pass 2's bad-inode check gives up on) are cleared");
		PROP(vf_reconnected[p] == unatt, "yes: exactly the other unattached inodes are reconnected");
		PROP(vf_stats_at[p] == (cleared && !(IN.badclr[p] & 1)), "yes: a cleared zero-length inode is released in the allocation statistics");
		if (cleared)
			PROP(!vf_used.bit[p] && !vf_dir.bit[p] && vf_ino[p].i_links_count == 0, "yes: a cleared inode is off the maps with link count 0");
		if (!chk) {
			PROP(vf_ino[p].i_links_count == IN.links[p] && vf_written[p] == 0 && vf_count.cnt[p] == IN.counted[p], "yes: unchecked inodes are not touched");
		}
#endif
	}
	PROP(vf_nlinkfeat == nlinkexp, "PR_4_DIR_NLINK_FEATURE iff a directory has more than 65000 links and the feature is off");
	PROP((vf_nprob == 0) == (nexp + nlinkexp == 0), "silence iff the reference expects no problem");
	if (vf_nprob == 0)
		for (p = 1; p < VF_NPOS; p++)
			if (ref_checked(p, IN.used)) {
				__u32 refs = IN.counted[p] > 65500 ? 65500 : IN.counted[p];
				__u32 stored = IN.link_info[p] > 65500 ? 65500 : IN.link_info[p];
				if (ANSWER && refs == 0 && (IN.badclr[p] & 1))
					continue;	/* given up by pass 2's bad-inode check (it raised its own problems) and cleared */
				PROP(refs >= 1, "silent => every inode in use is referenced from a directory");
				PROP(stored == refs || (IN.dir[p] && refs > 65000 && stored == 1) ||
				     (!ANSWER && IN.dir[p] && refs > 1 && (IN.iflags[p] & EXT2_INDEX_FL) && stored == 1),
				     "silent => every stored link count equals the counted references (a directory may store 1 for 'many')");
			}
	PROP(vf_stats_bad == 0, "allocation statistics are adjusted by -1 with the inode's directory-ness");
#if ANSWER == 0
	PROP(vf_nwrite == 0 && vf_nclear == 0 && vf_nreconnect == 0 && vf_nstore == 0 && vf_nstats == 0, "answer no: no inode written, cleared or reconnected");
	for (p = 0; p < VF_NPOS; p++)
		PROP(vf_link_info.cnt[p] == IN.link_info[p] && vf_count.cnt[p] == IN.counted[p] && vf_used.bit[p] == IN.used[p] && vf_dir.bit[p] == IN.dir[p] &&
		     vf_ino[p].i_links_count == IN.links[p], "answer no: counters, maps and inodes are unchanged");
	PROP(vf_sb.s_feature_ro_compat == (nlink_on ? EXT4_FEATURE_RO_COMPAT_DIR_NLINK : 0), "answer no: the feature word is unchanged");
	PROP(vf_fs.flags == (any_unatt ? (f0 & ~EXT2_FLAG_VALID) : f0), "answer no: an unattached inode un-marks the fs valid (exit status != 0); nothing is marked dirty");
#else
	PROP(((vf_sb.s_feature_ro_compat & EXT4_FEATURE_RO_COMPAT_DIR_NLINK) != 0) == (nlink_on || nlinkexp), "yes: dir_nlink is switched on when needed");
	if (nlinkexp)
		PROP(vf_fs.flags & EXT2_FLAG_DIRTY, "yes: switching dir_nlink on marks the super dirty");
	PROP(vf_fs.flags & EXT2_FLAG_VALID || !(f0 & EXT2_FLAG_VALID), "yes: a successful reconnect keeps the fs marked valid");
	/*
	 * second run: the next e2fsck's passes 1-3 recompute the counters from the disk.
	 * ASSUME: pass 1 reads i_links_count into inode_link_info; pass 2 counts the references now on disk = this run's inode_count
	 *         (reconnect added the lost+found entry); the used / dir maps are those this run left (cleared inodes gone).
	 */
	for (p = 0; p < VF_NPOS; p++)
		vf_link_info.cnt[p] = vf_ino[p].i_links_count;
	vf_set_ctx();
	vf_reset();
	for (p = 0; p < VF_NPOS; p++)
		vf_written[p] = 0;
	e2fsck_pass4(&vf_ctx);
	PROP(vf_nprob == 0, "second run raises no problem");
	PROP(vf_nwrite == 0 && vf_nclear == 0 && vf_nreconnect == 0 && vf_nstats == 0, "second run writes nothing");
#endif
	VF_END();
	return 0;
}
