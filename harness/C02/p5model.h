/*
 * p5model.h -- bitmap API as a tiny set model, shared by the pass-5 comparison harnesses
 * (C02/p5blocks.c, C02/p5inodes.c; also run from C01 with ANSWER 1).
 *
 * A "bitmap" is a struct vf_bm: one byte per position (0/1), the logical [start, end] range.
 * The ext2fs_*_bitmap handles the real code passes around are the addresses of these structs.
 */
#ifndef P5MODEL_H
#define P5MODEL_H

struct vf_bm { __u64 start, end; unsigned char bit[VF_NPOS]; };
static int vf_range_err;	/* the code touched a bit outside [start, end] of a bitmap */
static int vf_nfree, vf_ncopy, vf_npad, vf_nlatch, vf_latch_mask;
static struct vf_bm vf_copy;	/* the object ext2fs_copy_bitmap() "allocates" */
static void *vf_freed, *vf_padded;

/* STUB: clear_problem_context() as in problem.c */
void clear_problem_context(struct problem_context *pctx)
{
	static struct problem_context z;
	*pctx = z;
	pctx->blkcount = -1;
	pctx->group = -1;
}
/* STUB: e2fsck_allocate_memory() = zero-filled allocation that succeeds (as util.c, without the failure exit) */
void *e2fsck_allocate_memory(e2fsck_t ctx, unsigned long size, const char *d)
{ (void) ctx; (void) d; return calloc(1, size); }
/* STUB: end_problem_latch() returns the answer to the latch's closing question (= ANSWER) and is counted */
int end_problem_latch(e2fsck_t ctx, int mask)
{ (void) ctx; vf_nlatch++; vf_latch_mask = mask; return ANSWER; }

/* STUB: bitmap API = set model: start/end, test (range-checked), range extraction in the on-disk bit order
 *       (bit k of byte j = position start + 8j + k), "all clear" range test, copy, free, padding */
__u64 ext2fs_get_generic_bmap_start(ext2fs_generic_bitmap b) { return ((struct vf_bm *) b)->start; }
__u64 ext2fs_get_generic_bmap_end(ext2fs_generic_bitmap b) { return ((struct vf_bm *) b)->end; }
static int vf_bit(struct vf_bm *m, __u64 a)
{
	int i, r = 0;
	if (a < m->start || a > m->end) { vf_range_err = 1; return 0; }
	for (i = 0; i < VF_NPOS; i++)
		if ((__u64) i == a)
			r = m->bit[i];
	return r;
}
int ext2fs_test_generic_bmap(ext2fs_generic_bitmap b, __u64 a) { return vf_bit((struct vf_bm *) b, a); }
static errcode_t vf_get_range(struct vf_bm *m, __u64 start, size_t num, void *out)
{
	unsigned int k;
	unsigned char v = 0;
	/* BOUND: ranges of exactly 8 positions (one group = one bitmap byte) */
	if (num != 8 || start < m->start || start + num - 1 > m->end)
		return EINVAL;
	for (k = 0; k < 8; k++)
		if (vf_bit(m, start + k))
			v |= (unsigned char) (1u << k);
	((unsigned char *) out)[0] = v;
	return 0;
}
errcode_t ext2fs_get_block_bitmap_range2(ext2fs_block_bitmap b, blk64_t start, size_t num, void *out)
{ return vf_get_range((struct vf_bm *) b, start, num, out); }
errcode_t ext2fs_get_inode_bitmap_range2(ext2fs_inode_bitmap b, __u64 start, size_t num, void *out)
{ return vf_get_range((struct vf_bm *) b, start, num, out); }
int ext2fs_test_inode_bitmap_range(ext2fs_inode_bitmap b, ext2_ino_t ino, int num)
{
	int k, clear = 1;
	for (k = 0; k < 8; k++)
		if (k < num && vf_bit((struct vf_bm *) b, (__u64) ino + k))
			clear = 0;
	if (num > 8)
		vf_range_err = 1;
	return clear;
}
void ext2fs_free_block_bitmap(ext2fs_block_bitmap b) { vf_nfree++; vf_freed = (void *) b; }
void ext2fs_free_inode_bitmap(ext2fs_inode_bitmap b) { vf_nfree++; vf_freed = (void *) b; }
errcode_t ext2fs_copy_bitmap(ext2fs_generic_bitmap src, ext2fs_generic_bitmap *dest)
{
	vf_copy = *(struct vf_bm *) src;
	*dest = (ext2fs_generic_bitmap) &vf_copy;
	vf_ncopy++;
	return 0;
}
void ext2fs_set_bitmap_padding(ext2fs_generic_bitmap b) { vf_npad++; vf_padded = (void *) b; }
#ifndef VF_REPLAY
char *gettext(const char *s) { return (char *) s; }
#endif

/* little-endian field readers for the independent reference (on-disk format offsets) */
static unsigned int ref_le16(const unsigned char *p) { return p[0] | ((unsigned int) p[1] << 8); }
#endif
