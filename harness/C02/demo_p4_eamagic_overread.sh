#!/bin/sh
# Whole-tool demonstration of the finding of harness p4eamagic: e2fsck -fn reads 3 bytes behind the
# heap buffer holding the inode in pass 4 (disconnect_inode probes the in-inode EA magic at
# 128 + i_extra_isize without checking that 4 bytes fit) for an unattached inode with i_extra_isize 127.
# Needs valgrind.  Usage: demo_p4_eamagic_overread.sh [repo-build-dir]   (default /repo)
R=${1:-/repo}
T=$(mktemp -d) || exit 2
I=$T/u.img
$R/misc/mke2fs -q -F -t ext4 -I 256 -b 1024 -O ^metadata_csum,^has_journal $I 1024 || exit 2
echo hello > $T/hello.txt
$R/debugfs/debugfs -w $I -R "write $T/hello.txt f" >/dev/null 2>&1	# inode 12
$R/debugfs/debugfs -w $I -R "unlink f" >/dev/null 2>&1			# no directory entry any more: unattached
$R/debugfs/debugfs -w $I -R "sif <12> extra_isize 127" >/dev/null 2>&1
valgrind -q $R/e2fsck/e2fsck -fn $I > $T/out.txt 2>&1
cat $T/out.txt
if grep -q "Invalid read of size 4" $T/out.txt; then
	rm -rf $T
	echo "DEFECT REPRODUCED: out-of-bounds read in disconnect_inode"
	exit 1
fi
rm -rf $T
exit 0
