/*
 * C02/badinode: detector completeness (and exactness) of the REAL e2fsck_process_bad_inode()
 * (pass2.c), the place where every inode that pass 1 marked "has bad fields" is finally
 * reported, under e2fsck -n (every question answered no).
 *
 * The 128-byte on-disk inode is fully symbolic (every byte), so are the superblock words the
 * function reads (feature words, creator OS, first data block, 64-bit block count, block size).
 * The verdicts of pass 1's device / symlink sub-checks are symbolic inputs (stubs).
 * Independent predicates, written from the on-disk format (Documentation/filesystems/ext4:
 * inodes; byte offsets, not struct members):
 *   i_file_acl (+ the high 16 bits at offset 118 when 64bit) names a block outside
 *        [s_first_data_block, blocks_count)                      <=> PR_2_FILE_ACL_BAD
 *   i_file_acl != 0 without the ext_attr feature                  <=> PR_2_FILE_ACL_ZERO
 *   file type nibble of i_mode is none of the seven types         <=> PR_2_BAD_MODE
 *   chr/blk/fifo/sock/symlink inode rejected by the pass-1 check  <=> PR_2_BAD_*_DEV/FIFO/SOCKET/INVALID_SYMLINK
 *   i_faddr != 0                                                  <=> PR_2_FADDR_ZERO
 *   Hurd: frag / fsize byte != 0                                  <=> PR_2_FRAG_ZERO / PR_2_FSIZE_ZERO (never on Linux)
 *   Linux, no huge_file, i_blocks_hi != 0                         <=> PR_2_BLOCKS_HI_ZERO
 *   Linux, no 64bit, i_file_acl_high != 0                         <=> PR_2_I_FILE_ACL_HI_ZERO
 *   directory, no largedir, i_size_high (i_dir_acl) != 0, small   <=> PR_2_DIR_SIZE_HIGH_ZERO
 * Nothing else is raised; with every answer no the inode is never written; a clean inode raises
 * nothing and is taken off the bad-inode map, an inode with an unfixed problem stays on it.
 */
#include "e2fsck/pass2.c"
#include "env.c"

struct vf_in {
	unsigned char ino[128];
	__u32 feature_compat, feature_incompat, feature_ro_compat;
	__u32 creator_os, first_data_block, blocks_count, blocks_count_hi, log_block_size;
	__u32 inum, dir;
	unsigned char dev_ok, symlink_ok;
};
VF_DECLARE_INPUT(struct vf_in, IN)
#include "vf_input.inc"

static struct e2fsck_struct vf_ctx;
static struct struct_ext2_filsys vf_fs;
static struct ext2_super_block vf_sb;
static char vf_badmap;
static int vf_nprob, vf_nwrite, vf_nunmark, vf_unmark_ok, vf_nread;
#define VF_NCODES 14
static const problem_t vf_codes[VF_NCODES] = {
	PR_2_FILE_ACL_ZERO, PR_2_BAD_MODE, PR_2_BAD_CHAR_DEV, PR_2_BAD_BLOCK_DEV, PR_2_BAD_FIFO, PR_2_BAD_SOCKET,
	PR_2_INVALID_SYMLINK, PR_2_FADDR_ZERO, PR_2_FRAG_ZERO, PR_2_FSIZE_ZERO, PR_2_BLOCKS_HI_ZERO,
	PR_2_I_FILE_ACL_HI_ZERO, PR_2_FILE_ACL_BAD, PR_2_DIR_SIZE_HIGH_ZERO };
static int vf_raised[VF_NCODES];

/* STUB: fix_problem() records the code and answers no (e2fsck -n; protocol decided in C01/fixproblem) */
int fix_problem(e2fsck_t ctx, problem_t code, struct problem_context *pctx)
{
	int k;
	(void) ctx; (void) pctx;
	vf_nprob++;
	for (k = 0; k < VF_NCODES; k++)
		if (vf_codes[k] == code)
			vf_raised[k]++;
	return 0;
}
/* STUB: clear_problem_context() as in problem.c */
void clear_problem_context(struct problem_context *pctx)
{
	static struct problem_context z;
	*pctx = z;
	pctx->blkcount = -1;
	pctx->group = -1;
}
/* STUB: e2fsck_read_inode() delivers the symbolic 128 on-disk bytes */
void e2fsck_read_inode(e2fsck_t ctx, unsigned long ino, struct ext2_inode *inode, const char *proc)
{
	int i;
	(void) ctx; (void) ino; (void) proc;
	for (i = 0; i < 128; i++)
		((unsigned char *) inode)[i] = IN.ino[i];
	vf_nread++;
}
/* STUB: e2fsck_write_inode() counts writes */
void e2fsck_write_inode(e2fsck_t ctx, unsigned long ino, struct ext2_inode *inode, const char *proc)
{ (void) ctx; (void) ino; (void) inode; (void) proc; vf_nwrite++; }
/* STUB: pass 1's device-inode and symlink sub-checks answer with a symbolic verdict (their own completeness is outside) */
int e2fsck_pass1_check_device_inode(ext2_filsys fs, struct ext2_inode *inode)
{ (void) fs; (void) inode; return IN.dev_ok & 1; }
int e2fsck_pass1_check_symlink(ext2_filsys fs, ext2_ino_t ino, struct ext2_inode *inode, char *buf)
{ (void) fs; (void) ino; (void) inode; (void) buf; return IN.symlink_ok & 1; }
/* STUB: ext2fs_unmark_generic_bmap() records the un-marking of the inode in the bad-inode map */
int ext2fs_unmark_generic_bmap(ext2fs_generic_bitmap bmap, __u64 arg)
{
	vf_nunmark++;
	vf_unmark_ok = ((void *) bmap == (void *) &vf_badmap) && arg == IN.inum;
	return 1;
}
/* STUB: fatal_error() ends the path */
void fatal_error(e2fsck_t ctx, const char *msg) { (void) ctx; (void) msg; __CPROVER_assume(0); }
#ifndef VF_REPLAY
char *gettext(const char *s) { return (char *) s; }
#endif

static unsigned int ref_le16(int o) { return IN.ino[o] | (IN.ino[o + 1] << 8); }
static unsigned long long ref_le32(int o)
{
	return (unsigned long long) IN.ino[o] | ((unsigned long long) IN.ino[o + 1] << 8) |
	       ((unsigned long long) IN.ino[o + 2] << 16) | ((unsigned long long) IN.ino[o + 3] << 24);
}

int main(void)
{
	int r, k, want[VF_NCODES], total = 0, notfixed = 0;
	unsigned int type, os;
	unsigned long long acl, blocks, i_blocks, size_high, faddr, acl_high, blocks_hi;
	int xattr, is64, huge, largedir, valid_type;

	VF_INPUT(IN);
	/* ASSUME: block size 1 KiB .. 64 KiB (s_log_block_size <= 6, checked by ext2fs_open) */
	ASSUME(IN.log_block_size <= 6);
	vf_fs.super = &vf_sb;
	vf_fs.blocksize = 1024;
	vf_sb.s_feature_compat = IN.feature_compat;
	vf_sb.s_feature_incompat = IN.feature_incompat;
	vf_sb.s_feature_ro_compat = IN.feature_ro_compat;
	vf_sb.s_creator_os = IN.creator_os;
	vf_sb.s_first_data_block = IN.first_data_block;
	vf_sb.s_blocks_count = IN.blocks_count;
	vf_sb.s_blocks_count_hi = IN.blocks_count_hi;
	vf_sb.s_log_block_size = IN.log_block_size;
	vf_ctx.fs = &vf_fs;
	vf_ctx.inode_bad_map = (ext2fs_inode_bitmap) &vf_badmap;

	r = e2fsck_process_bad_inode(&vf_ctx, IN.dir, IN.inum, (char *) 0);

	/* the on-disk format, by byte offset */
	xattr = (IN.feature_compat & 0x0008) != 0;	/* COMPAT_EXT_ATTR */
	is64 = (IN.feature_incompat & 0x0080) != 0;	/* INCOMPAT_64BIT */
	largedir = (IN.feature_incompat & 0x4000) != 0;	/* INCOMPAT_LARGEDIR */
	huge = (IN.feature_ro_compat & 0x0008) != 0;	/* RO_COMPAT_HUGE_FILE */
	os = IN.creator_os;
	type = ref_le16(0) & 0xF000;
	i_blocks = ref_le32(28);
	size_high = ref_le32(108);
	faddr = ref_le32(112);
	blocks_hi = ref_le16(116);
	acl_high = ref_le16(118);
	acl = ref_le32(104) | (is64 ? acl_high << 32 : 0);
	blocks = IN.blocks_count | (is64 ? (unsigned long long) IN.blocks_count_hi << 32 : 0);
	valid_type = type == 0x4000 || type == 0x8000 || type == 0x2000 || type == 0x6000 ||
		     type == 0xA000 || type == 0x1000 || type == 0xC000;

	for (k = 0; k < VF_NCODES; k++)
		want[k] = 0;
	want[0] = acl != 0 && !xattr;
	want[1] = !valid_type;
	want[2] = type == 0x2000 && !(IN.dev_ok & 1);
	want[3] = type == 0x6000 && !(IN.dev_ok & 1);
	want[4] = type == 0x1000 && !(IN.dev_ok & 1);
	want[5] = type == 0xC000 && !(IN.dev_ok & 1);
	want[6] = type == 0xA000 && !(IN.symlink_ok & 1);
	want[7] = faddr != 0;
	want[8] = os == 1 && IN.ino[116] != 0;		/* Hurd: h_i_frag */
	want[9] = os == 1 && IN.ino[117] != 0;		/* Hurd: h_i_fsize */
	want[10] = os == 0 && !huge && blocks_hi != 0;
	want[11] = os == 0 && !is64 && acl_high != 0;
	want[12] = acl != 0 && (acl < IN.first_data_block || acl >= blocks);
	want[13] = type == 0x4000 && size_high != 0 && !largedir &&
		   i_blocks < (1ULL << (29 - (10 + IN.log_block_size)));

	PROP((vf_raised[12] != 0) == want[12], "i_file_acl outside [first_data_block, blocks_count) <=> PR_2_FILE_ACL_BAD");
	PROP((vf_raised[0] != 0) == want[0], "i_file_acl without ext_attr <=> PR_2_FILE_ACL_ZERO");
	PROP((vf_raised[1] != 0) == want[1], "invalid file type <=> PR_2_BAD_MODE");
	PROP((vf_raised[7] != 0) == want[7], "i_faddr != 0 <=> PR_2_FADDR_ZERO");
	PROP((vf_raised[11] != 0) == want[11], "i_file_acl_high != 0 without 64bit <=> PR_2_I_FILE_ACL_HI_ZERO");
	PROP((vf_raised[10] != 0) == want[10], "i_blocks_hi != 0 without huge_file <=> PR_2_BLOCKS_HI_ZERO");
	PROP((vf_raised[13] != 0) == want[13], "directory with i_size_high != 0 without largedir <=> PR_2_DIR_SIZE_HIGH_ZERO");
	for (k = 0; k < VF_NCODES; k++) {
		PROP(vf_raised[k] == want[k], "every code is raised exactly when its format predicate is violated, once");
		total += want[k];
		if (k != 10)
			notfixed += want[k];
	}
	PROP(vf_nprob == total, "no other problem is raised (a clean inode raises nothing)");
	PROP(r == 0, "with every answer no the directory entry is kept");
	PROP(vf_nwrite == 0, "with every answer no the inode is never written");
	PROP(vf_nread == 1, "the inode is read once");
	if (total == 0)
		PROP(vf_nunmark == 1 && vf_unmark_ok, "a clean inode is taken off the bad-inode map");
	if (notfixed)
		PROP(vf_nunmark == 0, "an inode with an unfixed problem stays on the bad-inode map");
	VF_END();
	return 0;
}
