/*
 * C02/p1blocks: block ownership bookkeeping of pass 1 for indirect-mapped regular files: the REAL
 * process_block() and mark_block_used() (e2fsck/pass1.c), e2fsck -n (every answer no).
 *
 * A filesystem of 16 blocks (first data block 1); ctx->block_found_map and ctx->block_dup_map arbitrary
 * (symbolic: whatever earlier inodes left).  process_block() is called NCALL (3) times for one regular
 * file with symbolic 64-bit block numbers at logical blocks 0, 1, 2 (the callback protocol of
 * ext2fs_block_iterate3 for direct blocks), num_blocks / max_blocks symbolic.
 *
 * Independent reference (ext4 format: a mapped block lies in [s_first_data_block, blocks_count)):
 *   a block number outside the filesystem raises PR_1_ILLEGAL_BLOCK_NUM naming that block and its
 *       logical number, and is not entered in any map;
 *   every accepted block ends up in block_found_map;
 *   a block that was already in block_found_map when it is accepted (claimed by another inode or
 *       earlier by this one) ends up in block_dup_map -- so pass 1B sees every multiply-claimed block;
 *   nothing else enters or leaves either map; with answer no the mapping is not edited (return 0).
 */
#define NB 16			/* blocks_count */
#define FDB 1
#define VF_NPOS NB
#define ANSWER 0
#ifndef NCALL
#define NCALL 3
#endif

#include "e2fsck/pass1.c"
#include "p5model.h"

struct vf_in {
	unsigned char found[VF_NPOS], dup[VF_NPOS];
	__u64 blk[NCALL];
	__u64 num_blocks, max_blocks;
	__u32 options;
};
VF_DECLARE_INPUT(struct vf_in, IN)
#include "vf_input.inc"

static struct e2fsck_struct vf_ctx;
static struct struct_ext2_filsys vf_fs;
static struct ext2_super_block vf_sb;
static struct vf_bm vf_found, vf_dup, vf_meta;
static struct ext2_inode vf_inode;
static int vf_nprob, vf_nother, vf_illegal[NCALL], vf_toobig[NCALL], vf_arg_bad, vf_dup_alloc;

/* STUB: fix_problem() records code, block and logical block and answers no */
int fix_problem(e2fsck_t ctx, problem_t code, struct problem_context *pctx)
{
	int k;
	(void) ctx;
	vf_nprob++;
	if (code == PR_1_ILLEGAL_BLOCK_NUM || code == PR_1_TOOBIG_REG) {
		for (k = 0; k < NCALL; k++)
			if (pctx->blkcount == k) {
				if (code == PR_1_ILLEGAL_BLOCK_NUM) vf_illegal[k]++; else vf_toobig[k]++;
				if (pctx->blk != IN.blk[k])
					vf_arg_bad++;
			}
		if (pctx->blkcount < 0 || pctx->blkcount >= NCALL)
			vf_arg_bad++;
	} else
		vf_nother++;
	return 0;
}
/* STUB: ext2fs_mark_generic_bmap() on the set model (range-checked) */
int ext2fs_mark_generic_bmap(ext2fs_generic_bitmap b, __u64 a)
{
	struct vf_bm *m = (struct vf_bm *) b;
	int i, r = 0;
	if (a < m->start || a > m->end) { vf_range_err = 1; return 0; }
	for (i = 0; i < VF_NPOS; i++)
		if ((__u64) i == a) { r = m->bit[i]; m->bit[i] = 1; }
	return r;
}
/* STUB: e2fsck_allocate_block_bitmap() is not needed: block_dup_map exists (BOUND); a call is counted */
errcode_t e2fsck_allocate_block_bitmap(ext2_filsys fs, const char *descr, int default_type, const char *profile_name, ext2fs_block_bitmap *ret)
{ (void) fs; (void) descr; (void) default_type; (void) profile_name; (void) ret; vf_dup_alloc++; return 0; }
/* STUB: ext2fs_blocks_count() for a filesystem without the 64bit feature */
blk64_t ext2fs_blocks_count(struct ext2_super_block *super) { return super->s_blocks_count; }
int set_latch_flags(int mask, int setflags, int clearflags) { (void) mask; (void) setflags; (void) clearflags; return 0; }

int main(void)
{
	struct process_block_struct pb;
	struct problem_context pctx;
	static struct process_block_struct zpb;
	unsigned char f[VF_NPOS], d[VF_NPOS];
	int k, p, ret[NCALL], toobig[NCALL], inrange[NCALL];
	__u64 nb;
	blk64_t b;

	VF_INPUT(IN);
	for (p = 0; p < VF_NPOS; p++) {
		ASSUME(IN.found[p] <= 1 && IN.dup[p] <= 1);
		/* ASSUME: block_dup_map only holds blocks that are in block_found_map (mark_block_used's own invariant) */
		ASSUME(!IN.dup[p] || IN.found[p]);
		vf_found.bit[p] = f[p] = IN.found[p];
		vf_dup.bit[p] = d[p] = IN.dup[p];
	}
	vf_found.start = vf_dup.start = vf_meta.start = FDB;
	vf_found.end = vf_dup.end = vf_meta.end = NB - 1;
	vf_fs.super = &vf_sb;
	vf_fs.blocksize = 1024;
	vf_sb.s_first_data_block = FDB;
	vf_sb.s_blocks_count = NB;
	vf_ctx.fs = &vf_fs;
	vf_ctx.block_found_map = (ext2fs_block_bitmap) &vf_found;
	vf_ctx.block_dup_map = (ext2fs_block_bitmap) &vf_dup;
	vf_ctx.block_metadata_map = (ext2fs_block_bitmap) &vf_meta;
	/* BOUND: e2fsck -n, no fragmentation report; one regular indirect-mapped file (inode 12), direct blocks 0..NCALL-1, cluster ratio 1,
	 *        no shared_blocks feature, fewer than 12 illegal blocks so far (the "too many illegal blocks" question is not reached) */
	vf_ctx.options = (IN.options & ~(E2F_OPT_FRAGCHECK | E2F_OPT_YES)) | E2F_OPT_NO | E2F_OPT_READONLY;
	clear_problem_context(&pctx);
	pctx.ino = 12;
	pctx.inode = &vf_inode;
	pb = zpb;
	pb.ino = 12;
	pb.is_reg = 1;
	pb.num_blocks = IN.num_blocks;
	pb.max_blocks = IN.max_blocks;
	ASSUME(IN.num_blocks < 1000 && IN.max_blocks <= ((__u64) 1 << 32));
	pb.inode = &vf_inode;
	pb.pctx = &pctx;
	pb.ctx = &vf_ctx;
	pb.last_init_lblock = -1;
	pb.last_db_block = -1;

	nb = IN.num_blocks;
	for (k = 0; k < NCALL; k++) {
		b = IN.blk[k];
		ret[k] = process_block(&vf_fs, &b, k, 0, 0, &pb);
		PROP(b == IN.blk[k], "answer no: the block pointer is not edited");
		/* reference, step k */
		inrange[k] = IN.blk[k] >= FDB && IN.blk[k] < NB;
		toobig[k] = IN.blk[k] != 0 && inrange[k] && nb + 1 >= IN.max_blocks;	/* size limit of the file reached: PR_1_TOOBIG_REG, block refused */
		if (IN.blk[k] != 0 && inrange[k] && !toobig[k]) {
			for (p = 0; p < VF_NPOS; p++)
				if ((__u64) p == IN.blk[k]) {
					if (f[p])
						d[p] = 1;
					f[p] = 1;
				}
			nb++;
		}
	}
	PROP(!vf_range_err, "no bitmap access outside the filesystem");
	PROP(vf_nother == 0 && vf_arg_bad == 0 && vf_dup_alloc == 0, "only block-number problems, naming the offending block and its logical number");
	for (k = 0; k < NCALL; k++) {
		if (IN.blk[k] != 0 && !inrange[k])
			PROP(vf_illegal[k] == 1, "a mapped block outside [s_first_data_block, blocks_count) raises PR_1_ILLEGAL_BLOCK_NUM");
		PROP(vf_illegal[k] == (IN.blk[k] != 0 && !inrange[k]), "PR_1_ILLEGAL_BLOCK_NUM exactly for the out-of-range blocks");
		PROP(vf_toobig[k] == toobig[k], "PR_1_TOOBIG_REG exactly when the file's block limit is reached");
		PROP(ret[k] == 0, "answer no: process_block asks for no change of the mapping");
	}
	for (p = 0; p < VF_NPOS; p++) {
		PROP(vf_found.bit[p] == f[p], "block_found_map = previous content + exactly the accepted blocks");
		PROP(vf_dup.bit[p] == d[p], "block_dup_map = previous content + exactly the accepted blocks that were already claimed");
	}
	for (k = 0; k < NCALL; k++)
		if (IN.blk[k] != 0 && inrange[k] && !toobig[k])
			for (p = 0; p < VF_NPOS; p++)
				if ((__u64) p == IN.blk[k]) {
					int j, again = IN.found[p];
					for (j = 0; j < NCALL; j++)
						if (j < k && IN.blk[j] == IN.blk[k] && inrange[j] && !toobig[j])
							again = 1;
					PROP(vf_found.bit[p], "every accepted block is in block_found_map");
					if (again)
						PROP(vf_dup.bit[p], "a block claimed twice (by another inode or by this one) is in block_dup_map");
				}
	PROP(pb.num_blocks == nb, "num_blocks counts exactly the accepted blocks");
	VF_END();
	return 0;
}
