/*
 * C02/p4eamagic (memory safety of a pass-4 detector, found while building p4links): the REAL
 * disconnect_inode() of e2fsck/pass4.c on a fully symbolic 256-byte on-disk inode, e2fsck -n.
 *
 * pass 4 keeps the inode in a heap buffer of exactly s_inode_size bytes (e2fsck_allocate_memory in
 * e2fsck_pass4) and disconnect_inode() probes the in-inode EA magic, a __u32 at offset
 * 128 + i_extra_isize, after checking only that this offset lies below the inode size.  Claim decided
 * here with CBMC's pointer checks on: for EVERY inode content the probe stays inside the buffer.
 * GENUINE FINDING on the pinned tree: i_extra_isize = 125 .. 127 (an invalid value that pass 1 reports
 * as PR_1_EXTRA_ISIZE but, with -n, leaves in place) reads 1-3 bytes behind the buffer
 * (whole-tool demo under valgrind: demo_p4_eamagic_overread.sh).
 */
#define ISZ 256
#include "e2fsck/pass4.c"

struct vf_in { unsigned char ino[ISZ]; };
VF_DECLARE_INPUT(struct vf_in, IN)
#include "vf_input.inc"

static struct e2fsck_struct vf_ctx;
static struct struct_ext2_filsys vf_fs;
static struct ext2_super_block vf_sb;
static int vf_nprob, vf_zl, vf_unatt;

/* STUB: fix_problem() records and answers no */
int fix_problem(e2fsck_t ctx, problem_t code, struct problem_context *pctx)
{
	(void) ctx; (void) pctx;
	vf_nprob++;
	if (code == PR_4_ZERO_LEN_INODE) vf_zl++;
	if (code == PR_4_UNATTACHED_INODE) vf_unatt++;
	return 0;
}
/* STUB: clear_problem_context() as in problem.c */
void clear_problem_context(struct problem_context *pctx)
{
	static struct problem_context z;
	*pctx = z;
	pctx->blkcount = -1;
	pctx->group = -1;
}
/* STUB: e2fsck_read_inode_full() delivers the symbolic on-disk inode, bufsize bytes */
void e2fsck_read_inode_full(e2fsck_t ctx, unsigned long ino, struct ext2_inode *inode, const int bufsize, const char *proc)
{
	int i;
	(void) ctx; (void) ino; (void) proc;
	for (i = 0; i < ISZ; i++)
		if (i < bufsize)
			((unsigned char *) inode)[i] = IN.ino[i];
}

int main(void)
{
	struct ext2_inode_large *inode;
	ext2_ino_t last_ino = 0;
	int r;

	VF_INPUT(IN);
	vf_fs.super = &vf_sb;
	vf_sb.s_rev_level = EXT2_DYNAMIC_REV;
	vf_sb.s_inode_size = ISZ;
	vf_sb.s_first_ino = 11;
	vf_sb.s_inodes_count = 16;
	vf_ctx.fs = &vf_fs;
	vf_ctx.options = E2F_OPT_READONLY | E2F_OPT_NO;
	/* the scratch inode of e2fsck_pass4(): a heap object of exactly s_inode_size bytes */
	inode = malloc(ISZ);
	r = disconnect_inode(&vf_ctx, 12, &last_ino, inode);
	PROP(r == 1 && vf_unatt == 1, "answer no: the unattached inode is reported and left alone");
	PROP(!(vf_fs.flags & EXT2_FLAG_VALID), "answer no: the fs is un-marked valid");
	free(inode);
	VF_END();
	return 0;
}
