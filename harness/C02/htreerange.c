/*
 * C02/htreerange: detector completeness of the htree consistency test at the end of the REAL
 * e2fsck_pass2() (pass2.c) under e2fsck -n, optionally composed with the REAL check_dir_block()
 * on one leaf (-DWITH_LEAF), i.e. from the bytes of a leaf block to the reported problem.
 *
 * One indexed directory of NB blocks: block 0 the root, blocks 1..NB-1 leaves hanging off the root
 * (two-level tree).  Per block the collected facts (dx_dirblock_info: content extremes min/max_hash,
 * the range [node_min_hash, node_max_hash] the index assigns, FIRST / REFERENCED / DUP_REF flags) are
 * symbolic, and so is the directory's recorded depth.
 *   default:     the directory-block iteration is a no-op, all facts are symbolic.
 *   WITH_LEAF:   the iteration hands ONE symbolic leaf block (logical block 1, BLK bytes, one symbolic
 *                hash per entry position as in C02/htreeleaf) to the real check_dir_block(), which
 *                computes that leaf's extremes; the other facts stay symbolic.
 * Independent predicate (Documentation/filesystems/ext4: hash tree directories): a leaf holds only names
 * whose hash lies in the range its index entry assigns -- no lower bound for the first leaf of an index
 * node --, every block is referenced exactly once, every leaf sits at the recorded depth.
 *   leaf b, some live entry hash > node_max_hash(b)                  <=> PR_2_HTREE_MAX_HASH for block b
 *   leaf b not first, some live entry hash < node_min_hash(b)        <=> PR_2_HTREE_MIN_HASH for block b
 *   leaf depth (1) != recorded depth                                 <=> PR_2_HTREE_BAD_DEPTH
 *   not referenced / referenced twice                                <=> PR_2_HTREE_NOTREF / PR_2_HTREE_DUPREF
 *   any of them  <=> PR_2_HTREE_CLEAR is offered; answered no, the index is kept; a directory queued for
 *   rebuilding is skipped.
 */
#ifdef WITH_LEAF
struct struct_ext2_filsys; struct ext2_db_entry2; struct check_dir_struct; struct dx_dir_info;
static void parse_int_node(struct struct_ext2_filsys *fs, struct ext2_db_entry2 *db, struct check_dir_struct *cd,
			   struct dx_dir_info *dx_dir, char *block_buf, int failed_csum);	/* cut */
#endif
#include "e2fsck/pass2.c"
#include "env.c"

#ifndef NB
#define NB 4
#endif
#ifndef BLK
#define BLK 36
#endif
#define NSLOT (BLK / 4)
#define HASHV 1		/* EXT2_HASH_HALF_MD4 */

struct vf_blk { __u32 flags, min_hash, max_hash, node_min, node_max; };
struct vf_in {
	struct vf_blk b[NB];
	__u16 depth;
	unsigned char rehash;
	__u32 ino, inodes_count, first_ino;
	unsigned char buf[BLK];
	__u32 hash[NSLOT];
};
VF_DECLARE_INPUT(struct vf_in, IN)
#include "vf_input.inc"

static struct e2fsck_struct vf_ctx;
static struct struct_ext2_filsys vf_fs;
static struct ext2_super_block vf_sb;
static struct dx_dir_info vf_dx;
static struct dx_dirblock_info vf_dxb[NB];
static unsigned char *vf_bufp;
static int vf_nprob, vf_nother, vf_nforeign, vf_nclear, vf_ncorrupt, vf_niter, vf_nfreed, vf_nwrite, vf_nparse;
static int vf_min[NB], vf_max[NB], vf_depth[NB], vf_notref[NB], vf_dupref[NB];
static char vf_usedmap, vf_dirmap, vf_regmap;

/* STUB: fix_problem() records code and block and answers no (e2fsck -n; protocol decided in C01/fixproblem) */
int fix_problem(e2fsck_t ctx, problem_t code, struct problem_context *pctx)
{
	int b, known = 0;
	(void) ctx;
	if (code == PR_2_PASS_HEADER)
		return 0;
	if (code == PR_2_DIR_CORRUPTED)
		vf_ncorrupt++;
	if (code != PR_2_HTREE_CLEAR && code != PR_2_HTREE_MIN_HASH && code != PR_2_HTREE_MAX_HASH &&
	    code != PR_2_HTREE_BAD_DEPTH && code != PR_2_HTREE_NOTREF && code != PR_2_HTREE_DUPREF) {
		vf_nforeign++;		/* not an index-consistency problem (WITH_LEAF: the leaf's entries may raise their own) */
		return 0;
	}
	vf_nprob++;
	if (code == PR_2_HTREE_CLEAR) { vf_nclear++; return 0; }
	for (b = 0; b < NB; b++)
		if (pctx->blkcount == b) {
			if (code == PR_2_HTREE_MIN_HASH) vf_min[b]++;
			if (code == PR_2_HTREE_MAX_HASH) vf_max[b]++;
			if (code == PR_2_HTREE_BAD_DEPTH) vf_depth[b]++;
			if (code == PR_2_HTREE_NOTREF) vf_notref[b]++;
			if (code == PR_2_HTREE_DUPREF) vf_dupref[b]++;
			known = 1;
		}
	if (!known)
		vf_nother++;
	return 0;
}
/* STUB: clear_problem_context() as in problem.c */
void clear_problem_context(struct problem_context *pctx)
{
	static struct problem_context z;
	*pctx = z;
	pctx->blkcount = -1;
	pctx->group = -1;
}
/* STUB: pass-2 set-up and tear-down (resource tracking, icount, dir_info, dblist sort/count/free, encryption info): succeed, no effect */
void init_resource_track(struct resource_track *track, io_channel channel) { (void) track; (void) channel; }
void print_resource_track(e2fsck_t ctx, const char *desc, struct resource_track *track, io_channel channel)
{ (void) ctx; (void) desc; (void) track; (void) channel; }
errcode_t e2fsck_setup_icount(e2fsck_t ctx, const char *n, int flags, ext2_icount_t hint, ext2_icount_t *ret)
{ (void) ctx; (void) n; (void) flags; (void) hint; *ret = 0; return 0; }
void *e2fsck_allocate_memory(e2fsck_t ctx, unsigned long size, const char *d)
{ (void) ctx; (void) d; vf_bufp = malloc(size); return vf_bufp; }
int e2fsck_dir_info_set_parent(e2fsck_t ctx, ext2_ino_t ino, ext2_ino_t parent) { (void) ctx; (void) ino; (void) parent; return 0; }
blk64_t ext2fs_dblist_count2(ext2_dblist dblist) { (void) dblist; return 1; }
void ext2fs_dblist_sort2(ext2_dblist dblist, EXT2_QSORT_TYPE (*sortfunc)(const void *, const void *)) { (void) dblist; (void) sortfunc; }
void ext2fs_free_dblist(ext2_dblist dblist) { (void) dblist; }
void destroy_encrypted_file_info(e2fsck_t ctx) { (void) ctx; }
void ext2fs_free_inode_bitmap(ext2fs_inode_bitmap bitmap) { (void) bitmap; }
/* STUB: e2fsck_dx_dir_info_iter() yields the one indexed directory, then ends; e2fsck_free_dx_dir_info() counts */
struct dx_dir_info *e2fsck_dx_dir_info_iter(e2fsck_t ctx, ext2_ino_t *control)
{ (void) ctx; if (*control) return 0; *control = 1; return &vf_dx; }
void e2fsck_free_dx_dir_info(e2fsck_t ctx) { (void) ctx; vf_nfreed++; }
/* STUB: e2fsck_dir_will_be_rehashed(): symbolic (a directory queued for rebuilding is not judged) */
int e2fsck_dir_will_be_rehashed(e2fsck_t ctx, ext2_ino_t ino) { (void) ctx; (void) ino; return IN.rehash & 1; }
/* STUB: ext2fs_dblist_iterate2(): default no directory block; WITH_LEAF: exactly logical block 1 of the directory */
errcode_t ext2fs_dblist_iterate2(ext2_dblist dblist, int (*func)(ext2_filsys fs, struct ext2_db_entry2 *db_info, void *priv_data),
				 void *priv_data)
{
	(void) dblist;
	vf_niter++;
#ifdef WITH_LEAF
	{
		struct ext2_db_entry2 db;
		db.ino = IN.ino;
		db.blk = 100;
		db.blockcnt = 1;
		(void) func(&vf_fs, &db, priv_data);
	}
#else
	(void) func; (void) priv_data;
#endif
	return 0;
}
/* STUB: fatal_error() ends the path */
void fatal_error(e2fsck_t ctx, const char *msg) { (void) ctx; (void) msg; __CPROVER_assume(0); }
#ifndef VF_REPLAY
char *gettext(const char *s) { return (char *) s; }
#endif

#ifdef WITH_LEAF
/* STUB: ext2fs_dirhash2() returns the symbolic hash of the entry position it is called for (hash functions: C15) */
errcode_t ext2fs_dirhash2(int version, const char *name, int len, const struct ext2fs_nls_table *charset,
			  int hash_flags, const __u32 *seed, ext2_dirhash_t *ret_hash, ext2_dirhash_t *ret_minor_hash)
{
	long off = name - (const char *) vf_bufp - 8;
	__u32 h = 0;
	int p;
	(void) version; (void) len; (void) charset; (void) hash_flags; (void) seed;
	for (p = 0; p < NSLOT; p++)
		if (off == 4 * p)
			h = IN.hash[p];
	*ret_hash = h;
	if (ret_minor_hash)
		*ret_minor_hash = 0;
	return 0;
}
/* STUB: parse_int_node() is cut: records the call (interior nodes: outside) */
static void parse_int_node(struct struct_ext2_filsys *fs, struct ext2_db_entry2 *db, struct check_dir_struct *cd,
			   struct dx_dir_info *dx_dir, char *block_buf, int failed_csum)
{ (void) fs; (void) db; (void) cd; (void) dx_dir; (void) block_buf; (void) failed_csum; vf_nparse++; }
/* STUB: ext2fs_test_generic_bmap(): every inode is in use, none is known as directory / regular file; absent maps test 0 */
int ext2fs_test_generic_bmap(ext2fs_generic_bitmap bmap, __u64 arg) { (void) arg; return (void *) bmap == (void *) &vf_usedmap; }
/* STUB: ext2fs_read_dir_block4() delivers the symbolic block; ext2fs_write_dir_block4() counts writes */
errcode_t ext2fs_read_dir_block4(ext2_filsys fs, blk64_t block, void *buf, int flags, ext2_ino_t ino)
{
	int i;
	(void) fs; (void) block; (void) flags; (void) ino;
	for (i = 0; i < BLK; i++)
		((unsigned char *) buf)[i] = IN.buf[i];
	return 0;
}
errcode_t ext2fs_write_dir_block4(ext2_filsys fs, blk64_t block, void *buf, int flags, ext2_ino_t ino)
{ (void) fs; (void) block; (void) buf; (void) flags; (void) ino; vf_nwrite++; return 0; }
/* STUB: the directory is the indexed one; no encryption policy; error-handler context ignored */
struct dx_dir_info *e2fsck_get_dx_dir_info(e2fsck_t ctx, ext2_ino_t ino) { (void) ctx; (void) ino; return &vf_dx; }
__u32 find_encryption_policy(e2fsck_t ctx, ext2_ino_t ino) { (void) ctx; (void) ino; return NO_ENCRYPTION_POLICY; }
void e2fsck_rehash_dir_later(e2fsck_t ctx, ext2_ino_t ino) { (void) ctx; (void) ino; }
const char *ehandler_operation(const char *op) { (void) op; return 0; }
/* STUB: duplicate-name dictionary: nothing is ever found (duplicate detection is outside) */
dict_t *dict_init(dict_t *d, dictcount_t m, dict_comp_t c) { (void) m; (void) c; return d; }
void dict_set_cmp_context(dict_t *d, const void *c) { (void) d; (void) c; }
dnode_t *dict_lookup(dict_t *d, const void *k) { (void) d; (void) k; return 0; }
int dict_alloc_insert(dict_t *d, const void *k, void *v) { (void) d; (void) k; (void) v; return 1; }
void dict_free_nodes(dict_t *d) { (void) d; }
/* STUB: link counting, dir_info, group descriptor flags: succeed / nothing uninitialised */
errcode_t ext2fs_icount_increment(ext2_icount_t ic, ext2_ino_t ino, __u16 *ret) { (void) ic; (void) ino; if (ret) *ret = 1; return 0; }
int e2fsck_dir_info_set_dotdot(e2fsck_t ctx, ext2_ino_t ino, ext2_ino_t dotdot) { (void) ctx; (void) ino; (void) dotdot; return 0; }
__u32 ext2fs_bg_itable_unused(ext2_filsys fs, dgrp_t group) { (void) fs; (void) group; return 0; }
int ext2fs_bg_flags_test(ext2_filsys fs, dgrp_t group, __u16 f) { (void) fs; (void) group; (void) f; return 0; }

static int ref_any_live, ref_wf;
static __u32 ref_lo, ref_hi;
/* the on-disk format: chain of valid entries tiling [0, BLK); extremes of the hashes of the live entries */
static void ref_scan(const unsigned char *b)
{
	unsigned int o, next = 0, rl, nl;
	unsigned long ino;
	int ok = 1;
	ref_lo = 0xffffffffu;
	ref_hi = 0;
	for (o = 0; o + 8 <= BLK; o += 4) {
		if (o != next)
			continue;
		rl = b[o + 4] | (b[o + 5] << 8);
		nl = b[o + 6];
		if (rl < 12 || (rl & 3) || o + rl > BLK || 8 + nl > rl)
			ok = 0;
		if (!ok)
			break;
		ino = b[o] | (b[o + 1] << 8) | ((unsigned long) b[o + 2] << 16) | ((unsigned long) b[o + 3] << 24);
		if (ino != 0 && (ino == 2 || ino >= IN.first_ino) && ino <= IN.inodes_count) {
			ref_any_live = 1;
			if (IN.hash[o / 4] < ref_lo)
				ref_lo = IN.hash[o / 4];
			if (IN.hash[o / 4] > ref_hi)
				ref_hi = IN.hash[o / 4];
		}
		next = o + rl;
	}
	ref_wf = ok && next == BLK;
}
static int ref_is_node(const unsigned char *b)
{
	return !b[0] && !b[1] && !b[2] && !b[3] && (b[4] | (b[5] << 8)) == BLK && b[6] == 0 &&
	       (b[8] | (b[9] << 8)) == (BLK - 8) / 8;
}
#endif

int main(void)
{
	int b, any = 0, want_min, want_max, want_depth, want_notref, want_dupref;
	__u32 lo, hi;

	VF_INPUT(IN);
	vf_fs.super = &vf_sb;
	vf_fs.blocksize = BLK;
	vf_sb.s_inodes_count = IN.inodes_count;
	vf_sb.s_first_ino = IN.first_ino;
	vf_sb.s_rev_level = 1;
	vf_sb.s_inodes_per_group = 0x10000;
	vf_ctx.fs = &vf_fs;
	vf_ctx.inode_used_map = (ext2fs_inode_bitmap) &vf_usedmap;
	vf_ctx.inode_dir_map = (ext2fs_inode_bitmap) &vf_dirmap;
	vf_ctx.inode_reg_map = (ext2fs_inode_bitmap) &vf_regmap;
	ASSUME(IN.ino >= 2);
	vf_dx.ino = IN.ino;
	vf_dx.depth = (short) IN.depth;
	vf_dx.hashversion = HASHV;
	vf_dx.numblocks = NB;
	vf_dx.dx_block = vf_dxb;
	/* BOUND: two-level tree: block 0 is the root (first and last of its level, as check_dir_block flags it), blocks 1..NB-1 are
	 * leaves whose parent is the root; three-level trees (update_parents over interior nodes) are outside */
	for (b = 0; b < NB; b++) {
		/* ASSUME: only the four defined DX_FLAG_* bits occur */
		ASSUME(IN.b[b].flags <= 15);
		vf_dxb[b].type = b ? DX_DIRBLOCK_LEAF : DX_DIRBLOCK_ROOT;
		vf_dxb[b].flags = (int) IN.b[b].flags | (b ? 0 : (DX_FLAG_FIRST | DX_FLAG_LAST));
		vf_dxb[b].parent = 0;
		vf_dxb[b].previous = 0;
		vf_dxb[b].min_hash = IN.b[b].min_hash;
		vf_dxb[b].max_hash = IN.b[b].max_hash;
		vf_dxb[b].node_min_hash = IN.b[b].node_min;
		vf_dxb[b].node_max_hash = IN.b[b].node_max;
	}
#ifdef WITH_LEAF
	ref_scan(IN.buf);
	/* ASSUME: the leaf block is well-formed and not the interior-node pattern (the other cases: C02/dirdet, C02/htreeleaf) */
	ASSUME(ref_wf && !ref_is_node(IN.buf));
#endif

	e2fsck_pass2(&vf_ctx);

	for (b = 0; b < NB; b++) {
		int fl = (int) IN.b[b].flags;
		lo = IN.b[b].min_hash;
		hi = IN.b[b].max_hash;
		want_min = b != 0 && !(fl & DX_FLAG_FIRST) && lo < IN.b[b].node_min;
		want_max = b != 0 && hi > IN.b[b].node_max;
#ifdef WITH_LEAF
		if (b == 1) {	/* from the bytes of the leaf: does some live entry hash outside the assigned range */
			want_min = !(fl & DX_FLAG_FIRST) && ref_any_live && ref_lo < IN.b[b].node_min;
			want_max = ref_any_live && ref_hi > IN.b[b].node_max;
		}
#endif
		want_depth = b != 0 && IN.depth != 1;
		if (b == 0) {	/* the root is referenced by the directory itself: a recorded reference makes it a duplicate */
			want_notref = 0;
			want_dupref = (fl & (DX_FLAG_REFERENCED | DX_FLAG_DUP_REF)) != 0;
		} else {
			want_notref = !(fl & DX_FLAG_REFERENCED);
			want_dupref = (fl & DX_FLAG_REFERENCED) && (fl & DX_FLAG_DUP_REF);
		}
		if (IN.rehash & 1)
			want_min = want_max = want_depth = want_notref = want_dupref = 0;
		any += want_min + want_max + want_depth + want_notref + want_dupref;
		if (want_max)
			PROP(vf_max[b] > 0, "a leaf holding a hash above the range its index entry assigns raises PR_2_HTREE_MAX_HASH");
		if (want_min)
			PROP(vf_min[b] > 0, "a leaf (not the first) holding a hash below its index entry's hash raises PR_2_HTREE_MIN_HASH");
		PROP(vf_max[b] == want_max, "PR_2_HTREE_MAX_HASH is raised for exactly the offending blocks, once");
		PROP(vf_min[b] == want_min, "PR_2_HTREE_MIN_HASH is raised for exactly the offending blocks, once");
		PROP(vf_depth[b] == want_depth, "PR_2_HTREE_BAD_DEPTH is raised for exactly the leaves off the recorded depth");
		PROP(vf_notref[b] == want_notref, "PR_2_HTREE_NOTREF is raised for exactly the unreferenced blocks");
		PROP(vf_dupref[b] == want_dupref, "PR_2_HTREE_DUPREF is raised for exactly the blocks referenced twice");
	}
	PROP(vf_nclear == (any != 0), "clearing the index is offered exactly when an inconsistency was found");
	PROP(vf_nprob == any + vf_nclear && vf_nother == 0, "no other index-consistency problem is raised");
#ifndef WITH_LEAF
	PROP(vf_nforeign == 0, "no other problem is raised");
#endif
	PROP(vf_dx.numblocks == NB, "answered no, the index is kept");
	PROP(vf_niter == 1 && vf_nfreed == 1, "the directory blocks are iterated once and the index info is released");
	PROP(vf_nwrite == 0 && vf_ncorrupt == 0, "nothing is written");
	VF_END();
	return 0;
}
