/*
 * C08/extent: the relocation table of resize2fs (resize/extent.c), patterns I and D.
 *
 * block_mover() records "old block -> new block" and inode_scan_and_fix() "old inode -> new inode"
 * with ext2fs_add_extent_entry(); every reference in the file system is then rewritten through
 * ext2fs_extent_translate().  A wrong answer here silently redirects file data.
 *
 *  OP 1  ADD        one real add from an ARBITRARY valid table (<= NENT runs): the map after the add is
 *                   the map before plus old->new (probe address arbitrary), run coalescing included,
 *                   representation invariant kept, "sorted" flag cleared when the order is broken.
 *  OP 2  TRANSLATE  real translate (interpolation search, float arithmetic) on an ARBITRARY sorted table
 *                   equals an independent linear scan, for every 64-bit address.
 *  OP 3  UNSORTED   same on an unsorted table: the real qsort comparator extent_cmp() orders it first.
 *  OP 4  HISTORY    real create(size 1) + NH ascending adds (growth through ext2fs_resize_mem) + translate + iterate.
 *  OP 5  CMP        extent_cmp() sign vs. the unsigned order of old_loc.
 */
#include "resize/extent.c"

#ifndef NENT
#define NENT 3
#endif
#define CAP (NENT + 1)
/* NUM: number of runs in the pre-state table, concrete per query (a symbolic count keeps the
 * infeasible table-growth path -- realloc + copy of symbolic length -- in the formula: 1M variables) */
#ifndef NUM
#define NUM 0
#endif

struct vf_ent { __u64 old_loc, new_loc, size; };
struct vf_in {
	__u64 num;
	unsigned char sorted;
	struct vf_ent e[CAP];
	__u64 add_old, add_new;
	__u64 probe;
	struct vf_ent h[3];
#ifndef NH
#define NH 2
#endif
};
VF_DECLARE_INPUT(struct vf_in, IN)
#include "vf_input.inc"

static struct _ext2_extent vf_tab;
static struct ext2_extent_entry vf_list[CAP];
static struct vf_ent vf_pre[CAP];
static __u64 vf_pre_num;

/* BOUND: locations and run lengths below 2^LOCBITS (default 2^62: no wrap of old_loc + size) */
#ifndef LOCBITS
#define LOCBITS 62
#endif
#define VF_LIM (1ULL << LOCBITS)

/* reference: the table read as a set of runs, linear scan, no order assumed */
static __u64 ref_lookup(const struct vf_ent *e, __u64 n, __u64 p)
{
	int i;
	for (i = 0; i < CAP; i++)
		if ((__u64) i < n && p >= e[i].old_loc && p - e[i].old_loc < e[i].size)
			return e[i].new_loc + (p - e[i].old_loc);
	return 0;
}
static __u64 ref_lookup_list(const struct ext2_extent_entry *e, __u64 n, __u64 p)
{
	int i;
	for (i = 0; i < CAP; i++)
		if ((__u64) i < n && p >= e[i].old_loc && p - e[i].old_loc < e[i].size)
			return e[i].new_loc + (p - e[i].old_loc);
	return 0;
}
static int ref_mapped(const struct vf_ent *e, __u64 n, __u64 p)
{
	int i;
	for (i = 0; i < CAP; i++)
		if ((__u64) i < n && p >= e[i].old_loc && p - e[i].old_loc < e[i].size)
			return 1;
	return 0;
}

/* representation invariant of a table: runs non-empty, inside the bound, pairwise disjoint in old space;
 * flag "sorted" set => strictly ascending */
static int vf_inv_in(void)
{
	int i, j, ok = 1;
	for (i = 0; i < CAP; i++) {
		if ((__u64) i >= IN.num) continue;
		if (IN.e[i].size == 0 || IN.e[i].size >= VF_LIM || IN.e[i].old_loc >= VF_LIM || IN.e[i].new_loc >= VF_LIM)
			ok = 0;
		if (IN.e[i].new_loc == 0) ok = 0;	/* block/inode 0 is never a relocation target */
		for (j = 0; j < CAP; j++) {
			if (j <= i || (__u64) j >= IN.num) continue;
			if (!(IN.e[i].old_loc + IN.e[i].size <= IN.e[j].old_loc ||
			      IN.e[j].old_loc + IN.e[j].size <= IN.e[i].old_loc))
				ok = 0;
			if (IN.sorted && !(IN.e[i].old_loc + IN.e[i].size <= IN.e[j].old_loc))
				ok = 0;
		}
	}
	return ok;
}
static int vf_inv_list(void)
{
	int i, j, ok = 1;
	for (i = 0; i < CAP; i++) {
		if ((__u64) i >= vf_tab.num) continue;
		if (vf_list[i].size == 0) ok = 0;
		for (j = 0; j < CAP; j++) {
			if (j <= i || (__u64) j >= vf_tab.num) continue;
			if (!(vf_list[i].old_loc + vf_list[i].size <= vf_list[j].old_loc ||
			      vf_list[j].old_loc + vf_list[j].size <= vf_list[i].old_loc))
				ok = 0;
			if (vf_tab.sorted && !(vf_list[i].old_loc + vf_list[i].size <= vf_list[j].old_loc))
				ok = 0;
		}
	}
	return ok;
}

static void vf_load_table(void)
{
	int i;
	for (i = 0; i < CAP; i++) {
		vf_list[i].old_loc = IN.e[i].old_loc;
		vf_list[i].new_loc = IN.e[i].new_loc;
		vf_list[i].size = IN.e[i].size;
		vf_pre[i] = IN.e[i];
	}
	vf_pre_num = NUM;
	vf_tab.list = vf_list;
	vf_tab.size = CAP;
	vf_tab.num = NUM;
	vf_tab.sorted = IN.sorted;
	vf_tab.cursor = 0;
}

#if OP == 3
/* STUB: qsort(): insertion sort driven by the caller's comparator (libc's algorithm is not the subject);
 * elements are the 24-byte table entries */
void qsort(void *base, size_t n, size_t sz, int (*cmp)(const void *, const void *))
{
	struct ext2_extent_entry *a = base, t;
	size_t i, j;
	(void) sz;
	for (i = 1; i < CAP; i++) {
		if (i >= n) continue;
		for (j = i; j > 0; j--) {
			if (cmp(&a[j - 1], &a[j]) > 0) {
				t = a[j - 1]; a[j - 1] = a[j]; a[j] = t;
			}
		}
	}
}
#endif

int main(void)
{
	VF_INPUT(IN);
#if OP == 1
	{
		errcode_t rc;
		__u64 before, after;
		/* BOUND: table of 0..NENT runs before the add (capacity NENT+1: no reallocation in this step) */
		ASSUME(IN.num == NUM && NUM <= NENT && IN.sorted <= 1);
		ASSUME(vf_inv_in());
		/* ASSUME: callers add each old location once (block_mover / inode_scan_and_fix walk the old
		 * file system once): the added old location is not mapped yet; target is not 0 */
		ASSUME(IN.add_old < VF_LIM && IN.add_new < VF_LIM && IN.add_new != 0);
		ASSUME(!ref_mapped(IN.e, IN.num, IN.add_old));
		vf_load_table();
		before = ref_lookup(vf_pre, vf_pre_num, IN.probe);
		rc = ext2fs_add_extent_entry(&vf_tab, IN.add_old, IN.add_new);
		PROP(rc == 0, "add succeeds");
		PROP(vf_tab.num <= CAP && vf_tab.num >= vf_pre_num && vf_tab.num <= vf_pre_num + 1, "add: at most one new run");
		after = ref_lookup_list(vf_list, vf_tab.num, IN.probe);
		if (IN.probe == IN.add_old)
			PROP(after == IN.add_new, "add: the added location maps to its new location");
		else
			PROP(after == before, "add: every other location keeps its mapping (or stays unmapped)");
		PROP(vf_inv_list(), "add: runs stay non-empty and disjoint; flag 'sorted' only on an ascending table");
	}
#elif OP == 2 || OP == 3
	{
		__u64 got, want;
		ASSUME(IN.num == NUM && NUM <= CAP);
#if OP == 2
		/* ASSUME: table sorted (the only state callers produce: they add in ascending old order) */
		ASSUME(IN.sorted == 1);
#else
		ASSUME(IN.sorted == 0);
#endif
		ASSUME(vf_inv_in());
		vf_load_table();
		want = ref_lookup(vf_pre, vf_pre_num, IN.probe);
		got = ext2fs_extent_translate(&vf_tab, IN.probe);
		PROP(got == want, "translate: equals the linear-scan reference (mapped: new + offset, unmapped: 0)");
		PROP(vf_tab.sorted == 1 && vf_tab.num == vf_pre_num, "translate: table sorted afterwards, no run lost");
#if OP == 3
		PROP(vf_inv_list(), "translate: the sort produced an ascending table");
#endif
	}
#elif OP == 4
	{
		ext2_extent t = 0;
		errcode_t rc;
		int i;
		__u64 got, want, o, n, s = 0, total = 0;
		struct vf_ent runs[NH];
		/* BOUND: history of exactly NH adds into a table created with capacity 1 (the second add grows it through ext2fs_resize_mem) */
		for (i = 0; i < NH; i++) {
			ASSUME(IN.h[i].old_loc < VF_LIM && IN.h[i].new_loc < VF_LIM && IN.h[i].new_loc != 0);
			runs[i].old_loc = IN.h[i].old_loc; runs[i].new_loc = IN.h[i].new_loc; runs[i].size = 1;
		}
		/* ASSUME: adds come in ascending old order, as block_mover()/inode_scan_and_fix() issue them */
		for (i = 1; i < NH; i++)
			ASSUME(IN.h[i - 1].old_loc < IN.h[i].old_loc);
		rc = ext2fs_create_extent_table(&t, 1);
		PROP(rc == 0 && t != 0, "create succeeds");
		for (i = 0; i < NH; i++) {
			rc = ext2fs_add_extent_entry(t, IN.h[i].old_loc, IN.h[i].new_loc);
			PROP(rc == 0, "history: add succeeds");
		}
		want = ref_lookup(runs, NH, IN.probe);
		got = ext2fs_extent_translate(t, IN.probe);
		PROP(got == want, "history: translate after the adds returns what was added, 0 otherwise");
		/* iteration (used by callers walking the map) covers exactly the added locations */
		ext2fs_iterate_extent(t, 0, 0, 0);
		for (i = 0; i < NH + 1; i++) {
			ext2fs_iterate_extent(t, &o, &n, &s);
			if (s) {
				PROP(ref_lookup(runs, NH, o) == n && ref_lookup(runs, NH, o + s - 1) == n + s - 1,
				     "history: every iterated run agrees with what was added");
				total += s;
			}
		}
		PROP(total == NH && s == 0, "history: iteration yields exactly the added locations, then the end marker");
		ext2fs_free_extent_table(t);
	}
#elif OP == 5
	{
		struct ext2_extent_entry a, b;
		int c;
		a.old_loc = IN.e[0].old_loc; b.old_loc = IN.e[1].old_loc;
		a.new_loc = b.new_loc = 1; a.size = b.size = 1;
		ASSUME(a.old_loc < VF_LIM && b.old_loc < VF_LIM);
		c = extent_cmp(&a, &b);
		PROP((a.old_loc < b.old_loc) == (c < 0) && (a.old_loc > b.old_loc) == (c > 0) && (a.old_loc == b.old_loc) == (c == 0),
		     "extent_cmp: sign agrees with the unsigned order of old_loc");
	}
#else
#error OP
#endif
	VF_END();
	return 0;
}
