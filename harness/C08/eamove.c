/*
 * C08/eamove: relocation of an inode's extended-attribute block reference (pattern D + P).
 *
 * The real static migrate_ea_block() and extent_translate() (resize/resize2fs.c), the real relocation table
 * (resize/extent.c: create + one add + translate) and the real ext2fs_file_acl_block()/..._set() (blknum.c).
 * block_mover() has already copied the block; this step rewrites the REFERENCE in the inode, and, when
 * metadata_csum is on, rewrites the block at its new place because its checksum covers the block number.
 * The caller (inode_scan_and_fix) writes the inode back only if *changed is set.
 *
 * Decided for every i_file_acl (48 bit with the 64bit feature), every one-run map, with and without map:
 *   - no EA block, no map, or block not in the map: inode, *changed, disk untouched, return 0;
 *   - block in the map: i_file_acl becomes exactly the mapped block; on success *changed is set -- with AND
 *     without metadata_csum -- and a set *changed is never cleared;
 *   - metadata_csum (CSUM=1): the block is read once and written once at the NEW number, same buffer, same
 *     inode number, read with EXT2_FLAG_IGNORE_CSUM_ERRORS which is cleared again; a failing read suppresses
 *     the write; the first error is returned.  CSUM=0: no block I/O at all.
 */
#include "resize/resize2fs.c"

#ifndef CSUM
#define CSUM 0
#endif

struct vf_in {
	__u32 acl_lo; __u16 acl_hi;
	unsigned char is64, has_map, changed0;
	__u64 map_old, map_new, map_len;	/* the run [map_old, map_old+map_len) -> map_new.. */
	__u32 ino;
	int rd_err, wr_err;
};
VF_DECLARE_INPUT(struct vf_in, IN)
#include "vf_input.inc"

static struct struct_ext2_filsys vf_old, vf_new;
static struct ext2_super_block vf_osb, vf_nsb;
static struct ext2_resize_struct vf_rfs;
static struct ext2_inode vf_inode;

static int vf_nread, vf_nwrite, vf_read_flag_ok, vf_order_ok = 1;
static blk64_t vf_rblk, vf_wblk;
static ext2_ino_t vf_rino, vf_wino;
static void *vf_rbuf, *vf_wbuf;

/* STUB: ext2fs_read_ext_attr3()/ext2fs_write_ext_attr3() log (handle, block, buffer, inode) and return a symbolic error */
errcode_t ext2fs_read_ext_attr3(ext2_filsys fs, blk64_t block, void *buf, ext2_ino_t inum)
{
	if (fs != &vf_old || vf_nwrite) vf_order_ok = 0;
	vf_nread++; vf_rblk = block; vf_rbuf = buf; vf_rino = inum;
	vf_read_flag_ok = (fs->flags & EXT2_FLAG_IGNORE_CSUM_ERRORS) != 0;
	return (errcode_t) IN.rd_err;
}
errcode_t ext2fs_write_ext_attr3(ext2_filsys fs, blk64_t block, void *buf, ext2_ino_t inum)
{
	if (fs != &vf_old || vf_nread != 1) vf_order_ok = 0;
	vf_nwrite++; vf_wblk = block; vf_wbuf = buf; vf_wino = inum;
	return (errcode_t) IN.wr_err;
}

int main(void)
{
	errcode_t rc;
	int changed;
	__u64 acl, want;
	int mapped;

	VF_INPUT(IN);
	ASSUME(IN.is64 <= 1 && IN.has_map <= 1 && IN.changed0 <= 1);
	/* BOUND: one single-block run in the map (runs and offsets inside a run: harness extent); block numbers < 2^48
	 * (< 2^32 without the 64bit feature) */
	ASSUME(IN.map_len == 1);
	ASSUME(IN.map_old >= 1 && IN.map_new >= 1);
	if (IN.is64) ASSUME(IN.map_old < (1ULL << 48) - 4 && IN.map_new < (1ULL << 48) - 4);
	else ASSUME(IN.map_old < (1ULL << 32) - 4 && IN.map_new < (1ULL << 32) - 4 && IN.acl_hi == 0);

	vf_osb.s_magic = vf_nsb.s_magic = EXT2_SUPER_MAGIC;
	vf_osb.s_rev_level = vf_nsb.s_rev_level = EXT2_DYNAMIC_REV;
	vf_osb.s_feature_incompat = vf_nsb.s_feature_incompat = IN.is64 ? EXT4_FEATURE_INCOMPAT_64BIT : 0;
	vf_nsb.s_feature_ro_compat = vf_osb.s_feature_ro_compat = CSUM ? EXT4_FEATURE_RO_COMPAT_METADATA_CSUM : 0;
	vf_old.magic = vf_new.magic = EXT2_ET_MAGIC_EXT2FS_FILSYS;
	vf_old.super = &vf_osb; vf_new.super = &vf_nsb;
	vf_old.blocksize = vf_new.blocksize = 1024;
	vf_old.cluster_ratio_bits = vf_new.cluster_ratio_bits = 0;	/* OUTSIDE: bigalloc (cluster ratio > 1) */
	vf_rfs.old_fs = &vf_old; vf_rfs.new_fs = &vf_new;
	if (IN.has_map) {
		rc = ext2fs_create_extent_table(&vf_rfs.bmap, 1);
		ASSUME(rc == 0);
		ext2fs_add_extent_entry(vf_rfs.bmap, IN.map_old, IN.map_new);
	}
	vf_inode.i_file_acl = IN.acl_lo;
	vf_inode.osd2.linux2.l_i_file_acl_high = IN.acl_hi;
	vf_inode.i_links_count = 1;
	acl = IN.acl_lo | (IN.is64 ? ((__u64) IN.acl_hi << 32) : 0);
	changed = IN.changed0;

	rc = migrate_ea_block(&vf_rfs, IN.ino, &vf_inode, &changed);

	mapped = IN.has_map && acl != 0 && acl >= IN.map_old && acl - IN.map_old < IN.map_len;
	PROP(!(vf_old.flags & EXT2_FLAG_IGNORE_CSUM_ERRORS), "IGNORE_CSUM_ERRORS is not left set");
	PROP(vf_order_ok, "block I/O on old_fs, read before write");
	if (!mapped) {
		PROP(rc == 0 && changed == IN.changed0 && vf_nread == 0 && vf_nwrite == 0 &&
		     vf_inode.i_file_acl == IN.acl_lo && vf_inode.osd2.linux2.l_i_file_acl_high == IN.acl_hi,
		     "EA block absent or not relocated: inode, *changed and disk untouched");
	} else {
		want = IN.map_new + (acl - IN.map_old);
		PROP(ext2fs_file_acl_block(&vf_old, &vf_inode) == want && vf_inode.i_file_acl == (__u32) want,
		     "relocated EA block: i_file_acl is exactly the mapped block");
		if (rc == 0)
			PROP(changed == 1, "relocated EA block: *changed is set so that the caller writes the inode (with and without metadata_csum)");
		PROP(changed == 1 || IN.changed0 == 0, "a set *changed is never cleared");
#if CSUM
		PROP(vf_nread == 1 && vf_rblk == want && vf_rino == IN.ino && vf_read_flag_ok,
		     "metadata_csum: the block is read once at its new number, for this inode, ignoring checksum errors");
		if (IN.rd_err) {
			PROP(vf_nwrite == 0 && rc == (errcode_t) IN.rd_err, "metadata_csum: a failed read is returned and nothing is written");
		} else {
			PROP(vf_nwrite == 1 && vf_wblk == want && vf_wino == IN.ino && vf_wbuf == vf_rbuf,
			     "metadata_csum: the block is rewritten once at its new number from the buffer just read");
			PROP(rc == (errcode_t) IN.wr_err, "metadata_csum: the write result is returned");
		}
#else
		PROP(rc == 0 && vf_nread == 0 && vf_nwrite == 0, "no metadata_csum: no block I/O, success");
#endif
	}
	VF_END();
	return 0;
}
