META = {
    "assumptions": ["allocation failure out of scope (--no-malloc-may-fail)",
                    "errflag: the disk is modelled as one word (s_state of the on-disk primary superblock), rewritten exactly when ext2fs_flush / "
                    "a dirty ext2fs_close_free would rewrite the primary superblock; every stage of resize_fs is a stub with a symbolic return code",
                    "extent: callers add each old location once and (for the 62-bit configurations) in ascending order, as block_mover and "
                    "inode_scan_and_fix do; qsort replaced by an insertion sort driven by the real comparator",
                    "newsize: ext2fs_bg_has_super cut to the on-disk format rule (the real function is decided against it in C20/bg_has_super; "
                    "thorough-tier harness newsize_real links the real one for sizes < 2^24); blocks per group a power of two",
                    "gdconv: consistent old file system for the accessor-level claim (locations below the block count, counters < 2^16)",
                    "eamove / inoscan / blkmove / ss2reserve: kernel-level steps of the data-moving stages with the I/O, allocator and bitmap "
                    "layers replaced by recording stubs (bitmaps: one byte per block, harness/C08/bytemap.h); inoscan delivers ONE inode per scan; "
                    "blkmove cuts mark_table_blocks (symbolic metadata set) and reserve_sparse_super2_last_group (decided separately in ss2reserve); "
                    "ext2fs_allocate_group_table is assumed to place tables inside the new size (and outside an already marked backup footprint)",
                    "dirref: the directory iterator presents 2 symbolic entries of one directory to the real callback; sumstats: bitmaps as one byte "
                    "per cluster / inode; itmove: device of 16 blocks with one symbolic tag byte per block (block all-zero == tag 0), one group"],
    "outside": ["THIS IS A THIN SLICE: no harness moves a block or an inode. File preservation (path, content, attributes) and "
                "e2fsck-consistency of the resized file system are whole-tool statements and are not decided",
                "the stages behind the stubs of errflag except the kernels named in the harness list: block_mover (copying, allocation order), "
                "the block walk itself (ext2fs_block_iterate3 + process_block on real extent trees / indirect blocks), the growth branch of "
                "blocks_to_move beyond 'succeeds, stays inside the file system' (mark_fs_metablock bookkeeping, needed_blocks there), "
                "mark_table_blocks, fix_ea_inode_refs, the real directory iterator under inode_ref_fix (ext2fs_dblist_dir_iterate / "
                "ext2fs_process_dir_block: which entries it presents, rewriting and checksumming of the block), move_itables with more than one group, "
                "bigalloc or failing I/O, "
                "move_bg_metadata, zero_high_bits_in_inodes, fix_resize_inode, fix_orphan_file_inode, fix_sb_journal_backup, "
                "resize2fs_calculate_summary_stats, clear/reserve_sparse_super2_last_group, fix_uninit_block_bitmaps",
                "crash points INSIDE a stage (e.g. between the copy of a block and the rewrite of its reference) and the order of data writes "
                "against io_channel_flush; errflag covers only the marker protocol around the stages",
                "resize/main.c: the 'Please run e2fsck -f first' precondition, size parsing, device-size and 32-bit limits, -M, online resize "
                "(online.c), the close of the caller's handle after a failed run; 'a refused request changes nothing' is decided only for "
                "refusals inside resize_fs before its first write and inside resize_group_descriptors",
                "calculate_minimum_resize_size (-M / -P), of adjust_fs_info: the shrink branch (free_gdp_blocks), a partial old last group, growth of the descriptor "
                "table (resize of group_desc, reserved GDT adjustment), meta_bg / flex_bg / bigalloc, the real ext2fs_allocate_group_table under it "
                "(newgroups uses a specification stub: tables go to blocks free in fs->block_map), reserved-blocks percentage in floating point, adjust_superblock's inode-table zeroing",
                "ext2fs_flush2 / ext2fs_close2 themselves (C20 decides backup placement and 'primary superblock last'), ext2fs_allocate_group_table "
                "(C07), ext2fs_create_resize_inode (res_gdt.c), bigalloc cluster arithmetic (extent_translate with cluster ratio > 1)",
                "extent tables of more than 4 runs; unsorted tables with locations >= 2^31 (see the extent_cmp note in the report); "
                "block sizes other than 1 KiB / 4 KiB and blocks-per-group other than 8192 / 32768 in newsize; more than 17 groups in gdconv"],
}

RESIZE_STAGES = ["fix_uninit_block_bitmaps", "resize_group_descriptors", "move_bg_metadata", "zero_high_bits_in_inodes",
                 "adjust_superblock", "blocks_to_move", "block_mover", "inode_scan_and_fix", "inode_ref_fix",
                 "move_itables", "clear_sparse_super2_last_group", "resize2fs_calculate_summary_stats",
                 "fix_resize_inode", "fix_orphan_file_inode", "fix_sb_journal_backup"]

NS_UW = ["ref_is_power.0:25", "adjust_new_size.0:2", "adjust_new_size.1:2", "adjust_fs_info.0:2", "adjust_fs_info.1:2"]

def gd_uw(ng):
    return ["main.%d:%d" % (i, ng * 64 + 2) for i in range(12)] + \
        ["resize_group_descriptors.0:%d" % (ng + 1), "resize_group_descriptors.1:%d" % (ng + 1),
         "ext2fs_group_desc_csum_set.0:%d" % (ng + 1)]

def bm_uw(og, ng, bpg=16):
    nb = 1 + max(og, ng) * bpg
    mn = min(og, ng)
    beyond = max(og - ng, 0) * bpg + 1
    return ["main.%d:%d" % (i, nb + 1) for i in range(13)] + \
        ["blocks_to_move.0:%d" % (ng + 1), "blocks_to_move.1:%d" % beyond, "blocks_to_move.2:5", "blocks_to_move.3:%d" % (mn + 1),
         "blocks_to_move.4:5", "blocks_to_move.5:%d" % (mn + 1), "blocks_to_move.6:3", "blocks_to_move.7:3",
         "blocks_to_move.8:%d" % (mn + 1), "test_root.0:3",
         "ext2fs_mark_generic_bmap.0:%d" % (nb + 1), "ext2fs_unmark_generic_bmap.0:%d" % (nb + 1),
         "ext2fs_test_generic_bmap.0:%d" % (nb + 1), "ext2fs_block_alloc_stats2.0:%d" % (nb + 1),
         "mark_table_blocks.0:%d" % (nb + 1), "reserve_sparse_super2_last_group.0:%d" % (nb + 1),
         "ext2fs_mark_block_bitmap_range2.0:6"]

def ss2_uw(og, ng, bpg=16):
    nb = 1 + og * bpg
    return ["main.%d:%d" % (i, nb + 1) for i in range(10)] + \
        ["reserve_sparse_super2_last_group.0:%d" % (ng + 1), "reserve_sparse_super2_last_group.1:7", "test_root.0:3",
         "ext2fs_mark_generic_bmap.0:%d" % (nb + 1), "ext2fs_unmark_generic_bmap.0:%d" % (nb + 1),
         "ext2fs_test_generic_bmap.0:%d" % (nb + 1), "ext2fs_mark_block_bitmap_range2.0:6"]

def ss_uw(ng):
    n = max(ng * 8, 16) + 2
    ncl = 2 + ng * 16
    return ["main.%d:%d" % (i, ncl + 1) for i in range(10)] + \
        ["resize2fs_calculate_summary_stats.%d:%d" % (i, n) for i in range(4)] + \
        ["ext2fs_bitcount.0:5", "ext2fs_bitcount.1:3", "ext2fs_bitcount.2:5",
         "ext2fs_test_generic_bmap.0:%d" % ncl, "ext2fs_test_generic_bmap.1:%d" % ncl,
         "ext2fs_get_block_bitmap_range2.0:%d" % ncl, "ext2fs_get_block_bitmap_range2.1:9", "ext2fs_get_block_bitmap_range2.2:3",
         "ext2fs_group_desc_csum_set.0:%d" % (ng + 1)]

def it_uw(ngrp, ipb, nblk=16):
    return ["main.%d:%d" % (i, nblk + 1) for i in range(11)] + \
        ["move_itables.0:%d" % (ngrp + 1), "move_itables.1:%d" % (ipb * 1024 + 1), "move_itables.2:%d" % (ipb + 1),
         "move_itables.3:%d" % (ngrp + 1), "ext2fs_block_alloc_stats2.0:%d" % (nblk + 1),
         "io_channel_read_blk64.0:%d" % (nblk + 1), "io_channel_read_blk64.1:%d" % (ipb + 1),
         "io_channel_write_blk64.0:%d" % (nblk + 1), "io_channel_write_blk64.1:%d" % (ipb + 1)]

def ngr_uw(ng, bpg=16):
    nb = 1 + ng * bpg
    return ["main.%d:%d" % (i, nb + 1) for i in range(7)] + \
        ["adjust_fs_info.0:2", "adjust_fs_info.1:2", "adjust_fs_info.2:3", "adjust_fs_info.3:5", "adjust_fs_info.4:%d" % (ng - 1),
         "ext2fs_allocate_group_table.0:%d" % (ng - 1), "ext2fs_mark_block_bitmap_range2.0:6", "test_root.0:3",
         "ext2fs_test_generic_bmap.0:%d" % (nb + 1), "ext2fs_mark_generic_bmap.0:%d" % (nb + 1),
         "ext2fs_unmark_generic_bmap.0:%d" % (nb + 1), "ext2fs_group_desc_csum_set.0:%d" % (ng + 1)]

HARNESSES = [
    dict(name="errflag", src="errflag.c",
         funcs=["resize_fs", "ext2fs_dup_handle"],
         extra_src=["lib/ext2fs/dupfs.c", "lib/ext2fs/blknum.c"],
         cut_statics={"resize/resize2fs.c": RESIZE_STAGES},
         configs=[{}, {"FLUSH_FAULT": None}],
         unwind=4, backends=["default"],
         bound="all original s_state values, all fault schedules of the 20 stages (symbolic return code each), "
               "all choices of move_itables' intermediate flushes; geometry fixed (irrelevant to the protocol)"),
    dict(name="extent", src="extent.c",
         funcs=["ext2fs_add_extent_entry", "ext2fs_extent_translate", "ext2fs_create_extent_table",
                "ext2fs_iterate_extent", "ext2fs_free_extent_table"],
         configs=[{"OP": 4, "NH": 2}] +
                 [{"OP": 1, "NENT": 2, "NUM": n} for n in (0, 1, 2)] +
                 [{"OP": 2, "NENT": 2, "NUM": n} for n in (1, 2, 3)] +
                 [{"OP": 2, "NENT": 3, "NUM": 4, "_tier": "thorough"}],
         unwind=6, backends=["default"], witness_per_config=True,
         bound="table of <= 3 runs (thorough: 4), locations/lengths < 2^62; probe address: all 2^64 values; "
               "history: capacity-1 table, 2 ascending adds (growth), translate, iterate"),
    dict(name="extent_sort", src="extent.c",
         funcs=["ext2fs_extent_translate", "extent_cmp"],
         configs=[{"OP": 3, "NENT": 2, "NUM": 2, "LOCBITS": 31},
                  {"OP": 3, "NENT": 2, "NUM": 3, "LOCBITS": 31, "_tier": "thorough"}] +
                 [{"OP": 5, "LOCBITS": 31}],
         unwind=6, backends=["default"], witness_per_config=True,
         bound="unsorted table of 2..3 runs, locations/lengths < 2^31 (extent_cmp returns the 64-bit difference as int); probe: all 2^64 values"),
    dict(name="newsize", src="newsize.c",
         funcs=["adjust_new_size", "adjust_fs_info"],
         extra_src=["lib/ext2fs/blknum.c"],
         configs=[{"CHECK": 1, "LOGBS": 0, "BPG": 8192, "DESC": 32, "SBITS": 32, "IPG": 8192},
                  {"CHECK": 1, "LOGBS": 2, "BPG": 32768, "DESC": 64, "SBITS": 36, "IPG": 32768},
                  {"CHECK": 2, "LOGBS": 0, "BPG": 8192, "DESC": 32, "SBITS": 32},
                  {"CHECK": 2, "LOGBS": 2, "BPG": 32768, "DESC": 32, "SBITS": 32},
                  {"CHECK": 2, "LOGBS": 2, "BPG": 32768, "DESC": 64, "SBITS": 36, "_tier": "thorough", "_backends": ["kissat", "default"]},
                  {"CHECK": 1, "LOGBS": 0, "BPG": 8192, "DESC": 32, "SBITS": 32, "IPG": 2048, "_tier": "thorough"},
                  {"CHECK": 1, "LOGBS": 2, "BPG": 32768, "DESC": 32, "SBITS": 32, "IPG": 32768, "_tier": "thorough"},
                  {"CHECK": 1, "LOGBS": 2, "BPG": 32768, "DESC": 64, "SBITS": 36, "IPG": 8192, "_tier": "thorough"},
                  {"CHECK": 1, "LOGBS": 0, "BPG": 8192, "DESC": 32, "SBITS": 32, "IPG": 128, "_tier": "thorough"},
                 ],
         unwind=4, unwindset=NS_UW, witness_per_config=True,
         backends=["default"],
         bound="requested/old size: every value < 2^32 (2^36 with 64bit descriptors); block size 1 KiB / 4 KiB, 8192 / 32768 blocks per group "
               "(concrete per query); inode-table size, reserved GDT blocks, sparse_super / sparse_super2 + backup groups: symbolic; "
               "inodes per group symbolic in CHECK 2, concrete per query in CHECK 1; ext2fs_bg_has_super cut to the format rule (decided in C20)"),
    dict(name="newsize_real", src="newsize.c", defs=["REAL_HAS_SUPER"],
         funcs=["adjust_new_size", "ext2fs_bg_has_super", "test_root"],
         extra_src=["lib/ext2fs/closefs.c", "lib/ext2fs/blknum.c"],
         configs=[{"CHECK": 2, "LOGBS": 0, "BPG": 8192, "DESC": 32, "SBITS": 24},
                  {"CHECK": 1, "LOGBS": 0, "BPG": 8192, "DESC": 32, "SBITS": 24, "IPG": 8192, "_tier": "thorough"}],
         unwind=4, unwindset=NS_UW + ["test_root.0:9"],
         backends=["default"], cap_thorough=1200,
         bound="as newsize, with the real ext2fs_bg_has_super/test_root linked; sizes < 2^24 blocks (<= 2048 groups)"),
    dict(name="gdconv", src="gdconv.c",
         funcs=["resize_group_descriptors", "adjust_reserved_gdt_blocks", "ext2fs_block_bitmap_loc", "ext2fs_bg_flags"],
         extra_src=["lib/ext2fs/blknum.c"],
         configs=[{"NG": 3, "CONV": d, "FL": 1, "_unwindset": gd_uw(3)} for d in (1, 2)] +
                 [{"NG": 17, "CONV": 2, "FL": 1, "_unwindset": gd_uw(17)},
                  {"NG": 17, "CONV": 1, "FL": 1, "_unwindset": gd_uw(17), "_tier": "thorough"}] +
                 [{"NG": 3, "CONV": d, "FL": fl, "_unwindset": gd_uw(3)} for d in (1, 2) for fl in (2, 3, 4, 5)],
         unwind=4, backends=["default"],
         bound="3 and 17 groups (17: the table grows from 1 to 2 descriptor blocks), 1 KiB blocks; all descriptor bytes, "
               "size, requested size, flags, reserved GDT count symbolic"),
    dict(name="eamove", src="eamove.c",
         funcs=["migrate_ea_block", "extent_translate", "ext2fs_extent_translate", "ext2fs_add_extent_entry",
                "ext2fs_file_acl_block", "ext2fs_file_acl_block_set"],
         extra_src=["resize/extent.c", "lib/ext2fs/blknum.c"],
         configs=[{"CSUM": 0}, {"CSUM": 1}],
         unwind=4, witness_per_config=True, backends=["default"],
         bound="every i_file_acl (32 bit / 48 bit with the 64bit feature), every single-block map entry, with and without map, "
               "metadata_csum on/off (one query each), symbolic read/write errors"),
    dict(name="inoscan", src="inoscan.c",
         funcs=["inode_scan_and_fix", "ext2fs_add_extent_entry", "ext2fs_extent_translate", "ext2fs_free_extent_table"],
         extra_src=["resize/extent.c"],
         cut_statics={"resize/resize2fs.c": ["migrate_ea_block", "fix_ea_inode_refs"]},
         configs=[{"OLDG": 3, "HAS_BMAP": 1}, {"OLDG": 3, "HAS_BMAP": 0}, {"OLDG": 2, "HAS_BMAP": 1}, {"OLDG": 2, "HAS_BMAP": 0}],
         unwind=4, unwindset=["inode_scan_and_fix.0:3"], witness_per_config=True, backends=["default"],
         bound="one inode per scan: every number 1..48 (old: 3 or 2 groups x 16 inodes; new: 2 x 16, start_to_move = 32), every link count, "
               "mode, flag word; EA step result, valid-blocks answer, metadata_csum, ea_inode feature symbolic; with / without block map"),
    dict(name="blkmove", src="blkmove.c",
         funcs=["blocks_to_move", "mark_fs_metablock", "ext2fs_bg_has_super", "ext2fs_group_of_blk2", "ext2fs_inode_table_loc"],
         extra_src=["lib/ext2fs/closefs.c", "lib/ext2fs/blknum.c"],
         cut_statics={"resize/resize2fs.c": ["mark_table_blocks", "reserve_sparse_super2_last_group"]},
         configs=[{"OLDG": 3, "NEWG": 2, "_unwindset": bm_uw(3, 2)},
                  {"OLDG": 2, "NEWG": 3, "_unwindset": bm_uw(2, 3)},
                  {"OLDG": 3, "NEWG": 1, "_unwindset": bm_uw(3, 1)},
                  {"OLDG": 4, "NEWG": 2, "_unwindset": bm_uw(4, 2), "_tier": "thorough"}],
         unwind=4, witness_per_config=True, backends=["default"],
         bound="3 -> 2 and 3 -> 1 groups (shrink), 2 -> 3 groups (grow), thorough 4 -> 2; 16 blocks per group, inode table 2 blocks; in-use and metadata sets, "
               "all group metadata locations and flags, descriptor blocks 1..2 and reserved GDT 0..2 on both sides, sparse_super(2), csum: symbolic"),
    dict(name="ss2clear", src="ss2clear.c",
         funcs=["clear_sparse_super2_last_group", "ext2fs_super_and_bgd_loc2", "ext2fs_bg_has_super"],
         extra_src=["lib/ext2fs/closefs.c", "lib/ext2fs/blknum.c"],
         configs=[{"OLDG": 2, "NEWG": 3, "_unwindset": ss2_uw(3, 3) + ["ext2fs_unmark_block_bitmap_range2.0:9"]},
                  {"OLDG": 3, "NEWG": 4, "_unwindset": ss2_uw(4, 4) + ["ext2fs_unmark_block_bitmap_range2.0:9"]},
                  {"OLDG": 3, "NEWG": 3, "_unwindset": ss2_uw(3, 3) + ["ext2fs_unmark_block_bitmap_range2.0:9"]}],
         unwind=4, witness_per_config=True, backends=["default"],
         bound="2 -> 3 and 3 -> 4 groups, 3 -> 3 (function must not apply); 16 blocks per group; in-use set, descriptor blocks 1..2, reserved GDT 0..2, "
               "sparse_super2 and both s_backup_bgs pairs symbolic"),
    dict(name="ss2reserve", src="ss2reserve.c",
         funcs=["reserve_sparse_super2_last_group", "ext2fs_super_and_bgd_loc2", "ext2fs_bg_has_super"],
         extra_src=["lib/ext2fs/closefs.c", "lib/ext2fs/blknum.c"],
         configs=[{"OLDG": 3, "NEWG": 2, "_unwindset": ss2_uw(3, 2)},
                  {"OLDG": 3, "NEWG": 3, "_unwindset": ss2_uw(3, 3)},
                  {"OLDG": 4, "NEWG": 3, "_unwindset": ss2_uw(4, 3), "_tier": "thorough"}],
         unwind=4, witness_per_config=True, backends=["default"],
         bound="3 -> 2 groups, 3 -> 3 (function must not apply), thorough 4 -> 3; 16 blocks per group, inode table 2 blocks; in-use / metadata sets, "
               "group metadata locations, descriptor blocks 1..2, reserved GDT 0..2, sparse_super2 and both s_backup_bgs pairs symbolic"),
    dict(name="dirref", src="dirref.c",
         funcs=["inode_ref_fix", "check_and_change_inodes", "ext2fs_extent_translate", "ext2fs_free_extent_table"],
         extra_src=["resize/extent.c"],
         configs=[{"NENT": 2, "HAS_PROGRESS": 0}, {"NENT": 2, "HAS_PROGRESS": 1}],
         unwind=6, witness_per_config=True, backends=["default"],
         bound="one directory, 2 entries (inode number incl. 0, offset incl. 0, name bytes symbolic), inode map of 2 symbolic entries, "
               "metadata_csum and 'directory number existed in the old fs' symbolic, symbolic read/write/progress/iterator errors"),
    dict(name="sumstats", src="sumstats.c",
         funcs=["resize2fs_calculate_summary_stats", "ext2fs_bitcount", "ext2fs_group_blocks_count", "ext2fs_bg_free_blocks_count_set"],
         extra_src=["lib/ext2fs/bitops.c", "lib/ext2fs/blknum.c"],
         configs=[{"NG": 2, "RATIO": 1, "_unwindset": ss_uw(2)}, {"NG": 2, "RATIO": 4, "_unwindset": ss_uw(2)},
                  {"NG": 3, "RATIO": 4, "_unwindset": ss_uw(3), "_tier": "thorough"}],
         unwind=4, witness_per_config=True, backends=["default"],
         bound="2 (thorough 3) groups x 16 clusters, cluster ratio 1 and 4, 8 inodes per group, last group 1..16 clusters; every bitmap bit and BG flag symbolic"),
    dict(name="itmove", src="itmove.c",
         funcs=["move_itables", "ext2fs_inode_table_loc", "ext2fs_inode_table_loc_set"],
         extra_src=["lib/ext2fs/blknum.c"],
         cut_statics={"resize/resize2fs.c": ["mark_table_blocks"]},
         configs=[{"MOVE": 1, "_unwindset": it_uw(1, 4)}, {"MOVE": 2, "_unwindset": it_uw(1, 4)}, {"MOVE": 0, "IPB": 1, "_unwindset": it_uw(1, 1)}],
         cbmc_flags=["--max-field-sensitivity-array-size", "4096"],
         unwind=4, backends=["default"],
         bound="1 group, inode table of 4 blocks of 1 KiB (one symbolic tag byte per block, rest zero), device of 16 blocks with arbitrary content, "
               "old and new table anywhere on it (all overlaps); direction of the move per query"),
    dict(name="newgroups", src="newgroups.c",
         funcs=["adjust_fs_info", "ext2fs_bg_has_super", "ext2fs_reserve_super_and_bgd", "ext2fs_super_and_bgd_loc2",
                "ext2fs_bg_flags_set", "ext2fs_group_blocks_count"],
         extra_src=["lib/ext2fs/closefs.c", "lib/ext2fs/alloc_sb.c", "lib/ext2fs/blknum.c"],
         configs=[{"NEWG": 3, "_unwindset": ngr_uw(3)}, {"NEWG": 4, "_unwindset": ngr_uw(4)}],
         unwind=4, witness_per_config=True, backends=["default"],
         bound="2 -> 3 and 2 -> 4 groups of 16 blocks, 8 inodes per group, inode table 2 blocks, 1 descriptor block; old block bitmap, "
               "sparse_super / sparse_super2 + old s_backup_bgs, descriptor checksums, lazy_itable_init, reserved GDT 0..2, table placement symbolic"),
    dict(name="eafix", src="eafix.c",
         funcs=["fix_ea_block_entries", "fix_ea_entries", "ext2fs_extent_translate"],
         extra_src=["resize/extent.c"],
         configs=[{"NLEN": 3}, {"NLEN": 8}],
         unwind=5, unwindset=["main.%d:97" % i for i in range(12)] + ["vf_put.0:5", "vf_put.1:9"],
         witness_per_config=True, backends=["default"],
         bound="EA block of 96 bytes with 1..2 entries (name length 3 / 8, all other fields symbolic), inode map of 2 symbolic entries, last_ino symbolic"),
    dict(name="bbmove", src="bbmove.c",
         funcs=["block_mover", "get_new_block", "init_block_alloc"],
         extra_src=["lib/ext2fs/blknum.c"],
         configs=[{}],
         unwind=4, unwindset=["main.%d:10" % i for i in range(12)] +
                   ["block_mover.0:10", "block_mover.1:10", "block_mover.2:10", "block_mover.3:10", "get_new_block.0:14",
                    "ext2fs_mark_generic_bmap.0:10", "ext2fs_unmark_generic_bmap.0:10", "ext2fs_test_generic_bmap.0:10",
                    "io_channel_write_blk64.0:10", "io_channel_write_blk64.1:3", "ext2fs_add_extent_entry.0:10", "ext2fs_iterate_extent.0:10", "ext2fs_mark_block_bitmap_range2.0:6"],
         backends=["default", "kissat"],
         bound="old file system 2 groups x 4 blocks shrinks to 1 group; in-use / move / reserve sets and 0..2 bad blocks symbolic; "
               "copy chunks of at most 2 blocks"),
]
MANIFEST = {
    "text": "Bounded-exhaustive model checking (CBMC) of kernels of resize2fs compiled from the real sources: the error-flag "
            "protocol of resize_fs() under every fault schedule of its stages, the relocation table (add / translate / sort / iterate), "
            "the size resize2fs settles on (adjust_new_size vs adjust_fs_info vs the format rules, every size below 2^32 / 2^36) and the "
            "32/64-bit group descriptor conversion; plus kernel-level steps of the data-moving stages with recording stubs underneath: EA block "
            "reference relocation (eamove), the per-inode renumbering decision of inode_scan_and_fix (inoscan), blocks_to_move incl. the "
            "sparse_super2 call protocol (blkmove), reserve/clear_sparse_super2_last_group against the backup-group footprint (ss2reserve, "
            "ss2clear), the directory-entry callback of inode_ref_fix (dirref), resize2fs_calculate_summary_stats against a plain count incl. "
            "bigalloc (sumstats), move_itables on a tagged block device incl. overlapping moves (itmove), and the initialisation of added groups "
            "by adjust_fs_info on a grow against the backup footprint of the NEW file system (newgroups), the rewriting of EA-inode references (eafix) and block_mover incl. the bad-blocks inode protocol on a list model (bbmove). Within each harness's stated bounds the verdict covers every value. This is a thin "
            "slice of C08: no file content is ever moved or compared.",
    "note": "Trusted: CBMC's C semantics (incl. its float model for the interpolation search), the stage stubs of errflag and their "
            "stated side effects, the harness's restatement of the on-disk format. Query errflag[FLUSH_FAULT] (the flush that makes the error flag durable may "
            "fail) found that resize_fs ignored that result; repaired in /repo by 58c4b827, the query now passes. Recording stubs of "
            "eamove / inoscan / blkmove / ss2reserve / dirref / sumstats / itmove / eafix / bbmove / newgroups (incl. the allocator specification stub of newgroups) "
            "and the byte-per-block bitmap stand-in (bytemap.h) are part of the trusted base.",
}
