META = {
    "assumptions": ["allocation failure out of scope (--no-malloc-may-fail)"],
    "outside": ["everything that moves data: blocks_to_move, block_mover, inode_scan_and_fix, inode_ref_fix, move_itables, "
                "fix_resize_inode, orphan file, journal backup (stubbed in errflag; their effect on files is not examined)",
                "file preservation (path, content, attributes) and e2fsck-consistency of the result: whole tool"],
}

RESIZE_STAGES = ["fix_uninit_block_bitmaps", "resize_group_descriptors", "move_bg_metadata", "zero_high_bits_in_inodes",
                 "adjust_superblock", "blocks_to_move", "block_mover", "inode_scan_and_fix", "inode_ref_fix",
                 "move_itables", "clear_sparse_super2_last_group", "resize2fs_calculate_summary_stats",
                 "fix_resize_inode", "fix_orphan_file_inode", "fix_sb_journal_backup"]

NS_UW = ["ref_is_power.0:25", "adjust_new_size.0:2", "adjust_new_size.1:2", "adjust_fs_info.0:2", "adjust_fs_info.1:2"]

def gd_uw(ng):
    return ["main.%d:%d" % (i, ng * 64 + 2) for i in range(12)] + \
        ["resize_group_descriptors.0:%d" % (ng + 1), "resize_group_descriptors.1:%d" % (ng + 1),
         "ext2fs_group_desc_csum_set.0:%d" % (ng + 1)]

HARNESSES = [
    dict(name="errflag", src="errflag.c",
         funcs=["resize_fs", "ext2fs_dup_handle"],
         extra_src=["lib/ext2fs/dupfs.c", "lib/ext2fs/blknum.c"],
         cut_statics={"resize/resize2fs.c": RESIZE_STAGES},
         configs=[{}, {"FLUSH_FAULT": None}],
         unwind=4, backends=["default", "kissat"],
         bound="all original s_state values, all fault schedules of the 20 stages (symbolic return code each), "
               "all choices of move_itables' intermediate flushes; geometry fixed (irrelevant to the protocol)"),
    dict(name="extent", src="extent.c",
         funcs=["ext2fs_add_extent_entry", "ext2fs_extent_translate", "extent_cmp", "ext2fs_create_extent_table",
                "ext2fs_iterate_extent", "ext2fs_free_extent_table"],
         configs=[{"OP": 4, "NH": 2}] +
                 [{"OP": 1, "NENT": 2, "NUM": n} for n in (0, 1, 2)] +
                 [{"OP": 2, "NENT": 2, "NUM": n} for n in (1, 2, 3)] +
                 [{"OP": 2, "NENT": 3, "NUM": 4, "_tier": "thorough"}] +
                 [{"OP": 3, "NENT": 2, "NUM": n, "LOCBITS": 31} for n in (2, 3)] +
                 [{"OP": 5, "LOCBITS": 31}],
         unwind=6, backends=["default", "kissat", "z3"], witness_per_config=True,
         bound="table of <= 4 runs, locations/lengths < 2^62 (sorted table, add) or < 2^31 (paths through the qsort comparator); "
               "probe address: all 2^64 values"),
    dict(name="newsize", src="newsize.c",
         funcs=["adjust_new_size", "adjust_fs_info"],
         extra_src=["lib/ext2fs/blknum.c"],
         configs=[{"CHECK": 1, "LOGBS": 0, "BPG": 8192, "DESC": 32, "SBITS": 32, "IPG": 8192},
                  {"CHECK": 1, "LOGBS": 2, "BPG": 32768, "DESC": 64, "SBITS": 36, "IPG": 32768},
                  {"CHECK": 2, "LOGBS": 0, "BPG": 8192, "DESC": 32, "SBITS": 32},
                  {"CHECK": 2, "LOGBS": 2, "BPG": 32768, "DESC": 32, "SBITS": 32},
                  {"CHECK": 2, "LOGBS": 2, "BPG": 32768, "DESC": 64, "SBITS": 36, "_tier": "thorough"},
                  {"CHECK": 1, "LOGBS": 0, "BPG": 8192, "DESC": 32, "SBITS": 32, "IPG": 2048, "_tier": "thorough"},
                  {"CHECK": 1, "LOGBS": 2, "BPG": 32768, "DESC": 32, "SBITS": 32, "IPG": 32768, "_tier": "thorough"},
                  {"CHECK": 1, "LOGBS": 2, "BPG": 32768, "DESC": 64, "SBITS": 36, "IPG": 8192, "_tier": "thorough"},
                  {"CHECK": 1, "LOGBS": 0, "BPG": 8192, "DESC": 32, "SBITS": 32, "_tier": "thorough"},
                 ],
         unwind=4, unwindset=NS_UW, witness_per_config=True,
         backends=["default", "kissat"],
         bound="requested/old size: every value < 2^32 (2^36 with 64bit descriptors); block size 1 KiB / 4 KiB, 8192 / 32768 blocks per group "
               "(concrete per query); inode-table size, reserved GDT blocks, sparse_super / sparse_super2 + backup groups: symbolic; "
               "inodes per group symbolic in CHECK 2, concrete per query in CHECK 1; ext2fs_bg_has_super cut to the format rule (decided in C20)"),
    dict(name="newsize_real", src="newsize.c", defs=["REAL_HAS_SUPER"],
         funcs=["adjust_new_size", "adjust_fs_info", "ext2fs_bg_has_super", "test_root"],
         extra_src=["lib/ext2fs/closefs.c", "lib/ext2fs/blknum.c"],
         configs=[{"CHECK": 2, "LOGBS": 0, "BPG": 8192, "DESC": 32, "SBITS": 24, "_tier": "thorough"},
                  {"CHECK": 1, "LOGBS": 0, "BPG": 8192, "DESC": 32, "SBITS": 24, "IPG": 8192, "_tier": "thorough"}],
         unwind=4, unwindset=NS_UW + ["test_root.0:9"],
         backends=["default", "kissat"], cap_thorough=1200,
         bound="as newsize, with the real ext2fs_bg_has_super/test_root linked; sizes < 2^24 blocks (<= 2048 groups)"),
    dict(name="gdconv", src="gdconv.c",
         funcs=["resize_group_descriptors", "adjust_reserved_gdt_blocks", "ext2fs_block_bitmap_loc", "ext2fs_bg_flags"],
         extra_src=["lib/ext2fs/blknum.c"],
         configs=[{"NG": ng, "CONV": d, "FL": 1, "_unwindset": gd_uw(ng)} for ng in (3, 17) for d in (1, 2)] +
                 [{"NG": 3, "CONV": d, "FL": fl, "_unwindset": gd_uw(3)} for d in (1, 2) for fl in (2, 3, 4, 5)],
         unwind=4, witness_per_config=True, backends=["default", "kissat"],
         bound="3 and 17 groups (17: the table grows from 1 to 2 descriptor blocks), 1 KiB blocks; all descriptor bytes, "
               "size, requested size, flags, reserved GDT count symbolic"),
]
MANIFEST = {
    "text": "Bounded-exhaustive within each harness's stated bounds.",
    "note": "Trusted: CBMC's C semantics, the stage stubs' stated side effects.",
}
