META = {
    "assumptions": ["allocation failure out of scope (--no-malloc-may-fail)",
                    "errflag: the disk is modelled as one word (s_state of the on-disk primary superblock), rewritten exactly when ext2fs_flush / "
                    "a dirty ext2fs_close_free would rewrite the primary superblock; every stage of resize_fs is a stub with a symbolic return code",
                    "extent: callers add each old location once and (for the 62-bit configurations) in ascending order, as block_mover and "
                    "inode_scan_and_fix do; qsort replaced by an insertion sort driven by the real comparator",
                    "newsize: ext2fs_bg_has_super cut to the on-disk format rule (the real function is decided against it in C20/bg_has_super; "
                    "thorough-tier harness newsize_real links the real one for sizes < 2^24); blocks per group a power of two",
                    "gdconv: consistent old file system for the accessor-level claim (locations below the block count, counters < 2^16)"],
    "outside": ["THIS IS A THIN SLICE: no harness moves a block or an inode. File preservation (path, content, attributes) and "
                "e2fsck-consistency of the resized file system are whole-tool statements and are not decided",
                "every stage behind the stubs of errflag: blocks_to_move, block_mover, inode_scan_and_fix (block remapping through extents / "
                "indirect blocks / xattr blocks, inode renumbering), inode_ref_fix (directory entries), fix_ea_inode_refs, move_itables, "
                "move_bg_metadata, zero_high_bits_in_inodes, fix_resize_inode, fix_orphan_file_inode, fix_sb_journal_backup, "
                "resize2fs_calculate_summary_stats, clear/reserve_sparse_super2_last_group, fix_uninit_block_bitmaps",
                "crash points INSIDE a stage (e.g. between the copy of a block and the rewrite of its reference) and the order of data writes "
                "against io_channel_flush; errflag covers only the marker protocol around the stages",
                "resize/main.c: the 'Please run e2fsck -f first' precondition, size parsing, device-size and 32-bit limits, -M, online resize "
                "(online.c), the close of the caller's handle after a failed run; 'a refused request changes nothing' is decided only for "
                "refusals inside resize_fs before its first write and inside resize_group_descriptors",
                "calculate_minimum_resize_size (-M / -P), the rest of adjust_fs_info behind its first bitmap call (bitmap resizing, new group "
                "initialisation, sparse_super2 backup bookkeeping, reserved-blocks percentage in floating point), adjust_superblock's inode-table zeroing",
                "ext2fs_flush2 / ext2fs_close2 themselves (C20 decides backup placement and 'primary superblock last'), ext2fs_allocate_group_table "
                "(C07), ext2fs_create_resize_inode (res_gdt.c), bigalloc cluster arithmetic (extent_translate with cluster ratio > 1)",
                "extent tables of more than 4 runs; unsorted tables with locations >= 2^31 (see the extent_cmp note in the report); "
                "block sizes other than 1 KiB / 4 KiB and blocks-per-group other than 8192 / 32768 in newsize; more than 17 groups in gdconv"],
}

RESIZE_STAGES = ["fix_uninit_block_bitmaps", "resize_group_descriptors", "move_bg_metadata", "zero_high_bits_in_inodes",
                 "adjust_superblock", "blocks_to_move", "block_mover", "inode_scan_and_fix", "inode_ref_fix",
                 "move_itables", "clear_sparse_super2_last_group", "resize2fs_calculate_summary_stats",
                 "fix_resize_inode", "fix_orphan_file_inode", "fix_sb_journal_backup"]

NS_UW = ["ref_is_power.0:25", "adjust_new_size.0:2", "adjust_new_size.1:2", "adjust_fs_info.0:2", "adjust_fs_info.1:2"]

def gd_uw(ng):
    return ["main.%d:%d" % (i, ng * 64 + 2) for i in range(12)] + \
        ["resize_group_descriptors.0:%d" % (ng + 1), "resize_group_descriptors.1:%d" % (ng + 1),
         "ext2fs_group_desc_csum_set.0:%d" % (ng + 1)]

HARNESSES = [
    dict(name="errflag", src="errflag.c",
         funcs=["resize_fs", "ext2fs_dup_handle"],
         extra_src=["lib/ext2fs/dupfs.c", "lib/ext2fs/blknum.c"],
         cut_statics={"resize/resize2fs.c": RESIZE_STAGES},
         configs=[{}, {"FLUSH_FAULT": None}],
         unwind=4, backends=["default"],
         bound="all original s_state values, all fault schedules of the 20 stages (symbolic return code each), "
               "all choices of move_itables' intermediate flushes; geometry fixed (irrelevant to the protocol)"),
    dict(name="extent", src="extent.c",
         funcs=["ext2fs_add_extent_entry", "ext2fs_extent_translate", "ext2fs_create_extent_table",
                "ext2fs_iterate_extent", "ext2fs_free_extent_table"],
         configs=[{"OP": 4, "NH": 2}] +
                 [{"OP": 1, "NENT": 2, "NUM": n} for n in (0, 1, 2)] +
                 [{"OP": 2, "NENT": 2, "NUM": n} for n in (1, 2, 3)] +
                 [{"OP": 2, "NENT": 3, "NUM": 4, "_tier": "thorough"}],
         unwind=6, backends=["default"], witness_per_config=True,
         bound="table of <= 3 runs (thorough: 4), locations/lengths < 2^62; probe address: all 2^64 values; "
               "history: capacity-1 table, 2 ascending adds (growth), translate, iterate"),
    dict(name="extent_sort", src="extent.c",
         funcs=["ext2fs_extent_translate", "extent_cmp"],
         configs=[{"OP": 3, "NENT": 2, "NUM": n, "LOCBITS": 31} for n in (2, 3)] +
                 [{"OP": 5, "LOCBITS": 31}],
         unwind=6, backends=["default"], witness_per_config=True,
         bound="unsorted table of 2..3 runs, locations/lengths < 2^31 (extent_cmp returns the 64-bit difference as int); probe: all 2^64 values"),
    dict(name="newsize", src="newsize.c",
         funcs=["adjust_new_size", "adjust_fs_info"],
         extra_src=["lib/ext2fs/blknum.c"],
         configs=[{"CHECK": 1, "LOGBS": 0, "BPG": 8192, "DESC": 32, "SBITS": 32, "IPG": 8192},
                  {"CHECK": 1, "LOGBS": 2, "BPG": 32768, "DESC": 64, "SBITS": 36, "IPG": 32768},
                  {"CHECK": 2, "LOGBS": 0, "BPG": 8192, "DESC": 32, "SBITS": 32},
                  {"CHECK": 2, "LOGBS": 2, "BPG": 32768, "DESC": 32, "SBITS": 32},
                  {"CHECK": 2, "LOGBS": 2, "BPG": 32768, "DESC": 64, "SBITS": 36, "_tier": "thorough", "_backends": ["kissat", "default"]},
                  {"CHECK": 1, "LOGBS": 0, "BPG": 8192, "DESC": 32, "SBITS": 32, "IPG": 2048, "_tier": "thorough"},
                  {"CHECK": 1, "LOGBS": 2, "BPG": 32768, "DESC": 32, "SBITS": 32, "IPG": 32768, "_tier": "thorough"},
                  {"CHECK": 1, "LOGBS": 2, "BPG": 32768, "DESC": 64, "SBITS": 36, "IPG": 8192, "_tier": "thorough"},
                  {"CHECK": 1, "LOGBS": 0, "BPG": 8192, "DESC": 32, "SBITS": 32, "IPG": 128, "_tier": "thorough"},
                 ],
         unwind=4, unwindset=NS_UW, witness_per_config=True,
         backends=["default"],
         bound="requested/old size: every value < 2^32 (2^36 with 64bit descriptors); block size 1 KiB / 4 KiB, 8192 / 32768 blocks per group "
               "(concrete per query); inode-table size, reserved GDT blocks, sparse_super / sparse_super2 + backup groups: symbolic; "
               "inodes per group symbolic in CHECK 2, concrete per query in CHECK 1; ext2fs_bg_has_super cut to the format rule (decided in C20)"),
    dict(name="newsize_real", src="newsize.c", defs=["REAL_HAS_SUPER"],
         funcs=["adjust_new_size", "ext2fs_bg_has_super", "test_root"],
         extra_src=["lib/ext2fs/closefs.c", "lib/ext2fs/blknum.c"],
         configs=[{"CHECK": 2, "LOGBS": 0, "BPG": 8192, "DESC": 32, "SBITS": 24},
                  {"CHECK": 1, "LOGBS": 0, "BPG": 8192, "DESC": 32, "SBITS": 24, "IPG": 8192, "_tier": "thorough"}],
         unwind=4, unwindset=NS_UW + ["test_root.0:9"],
         backends=["default"], cap_thorough=1200,
         bound="as newsize, with the real ext2fs_bg_has_super/test_root linked; sizes < 2^24 blocks (<= 2048 groups)"),
    dict(name="gdconv", src="gdconv.c",
         funcs=["resize_group_descriptors", "adjust_reserved_gdt_blocks", "ext2fs_block_bitmap_loc", "ext2fs_bg_flags"],
         extra_src=["lib/ext2fs/blknum.c"],
         configs=[{"NG": 3, "CONV": d, "FL": 1, "_unwindset": gd_uw(3)} for d in (1, 2)] +
                 [{"NG": 17, "CONV": 2, "FL": 1, "_unwindset": gd_uw(17)},
                  {"NG": 17, "CONV": 1, "FL": 1, "_unwindset": gd_uw(17), "_tier": "thorough"}] +
                 [{"NG": 3, "CONV": d, "FL": fl, "_unwindset": gd_uw(3)} for d in (1, 2) for fl in (2, 3, 4, 5)],
         unwind=4, witness_per_config=True, backends=["default"],
         bound="3 and 17 groups (17: the table grows from 1 to 2 descriptor blocks), 1 KiB blocks; all descriptor bytes, "
               "size, requested size, flags, reserved GDT count symbolic"),
]
MANIFEST = {
    "text": "Bounded-exhaustive model checking (CBMC) of four kernels of resize2fs compiled from the real sources: the error-flag "
            "protocol of resize_fs() under every fault schedule of its stages, the relocation table (add / translate / sort / iterate), "
            "the size resize2fs settles on (adjust_new_size vs adjust_fs_info vs the format rules, every size below 2^32 / 2^36) and the "
            "32/64-bit group descriptor conversion. Within each harness's stated bounds the verdict covers every value. This is a thin "
            "slice of C08: nothing that moves file data is decided.",
    "note": "Trusted: CBMC's C semantics (incl. its float model for the interpolation search), the stage stubs of errflag and their "
            "stated side effects, the harness's restatement of the on-disk format. Query errflag[FLUSH_FAULT] fails on the unchanged tree "
            "(resize_fs ignores the result of the ext2fs_flush that makes the error flag durable); see known_findings.",
}
