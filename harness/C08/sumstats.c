/*
 * C08/sumstats: resize2fs_calculate_summary_stats() -- free block / inode counters of the resized file system
 * recomputed from the bitmaps (pattern D).
 *
 * Real: the static resize2fs_calculate_summary_stats() (resize/resize2fs.c), ext2fs_bitcount() (bitops.c), the
 * group descriptor accessors, ext2fs_group_blocks_count(), ext2fs_free_blocks_count_set() (blknum.c).
 * Stubbed: the bitmap objects (one byte per CLUSTER / per inode; a block bitmap is addressed by block number and
 * shifts by the cluster ratio like the real one; ext2fs_get_block_bitmap_range2 packs the bytes into bits) and
 * ext2fs_group_desc_csum_set() (counted).
 *
 * Geometry: NG groups of 16 clusters, cluster ratio RATIO (1 or 4; concrete per query), 8 inodes per group; the
 * LAST group holds 1..16 clusters (symbolic: both the byte-wise path and the bit-by-bit path for a cluster count
 * that is not a multiple of 8).  All bitmap bits, all BG flags symbolic.
 * Decided against a plain count over the model:
 *   - every group's bg_free_blocks_count == clusters of the group - clusters in use (the unit the code and the
 *     kernel use for this field: clusters);  s_free_blocks_count == sum * cluster ratio (blocks);
 *   - every group's bg_free_inodes_count == inodes of the group not in use (all of them when INODE_UNINIT);
 *     s_free_inodes_count == sum;
 *   - every group's checksum is recomputed after its last counter update; the superblock is marked dirty.
 */
#include "resize/resize2fs.c"

#ifndef NG
#define NG 2
#endif
#ifndef RATIO
#define RATIO 1
#endif
#define RBITS ((RATIO == 1) ? 0 : (RATIO == 2) ? 1 : (RATIO == 4) ? 2 : 3)
#define CPG 16
#define BPG (CPG * RATIO)
#define IPG 8
#define FIRST ((RATIO == 1) ? 1 : 0)	/* 1 KiB blocks: first data block 1, with bigalloc 0 */
#define NCL (1 + NG * CPG)		/* cluster numbers 0 .. */
#define NINO (NG * IPG + 1)

struct vf_in {
	unsigned char cl[NCL];		/* cluster in use */
	unsigned char ino[NINO];	/* inode in use (index = inode number) */
	__u16 gflags[NG];
	__u32 last_clusters;		/* clusters in the last group */
};
VF_DECLARE_INPUT(struct vf_in, IN)
#include "vf_input.inc"

struct vf_bm { int is_block; };
static struct vf_bm vf_bmap = { 1 }, vf_imap = { 0 };
static int vf_oob;
static struct struct_ext2_filsys vf_fs;
static struct ext2_super_block vf_sb;
static unsigned char vf_gd[1024] __attribute__((aligned(8)));
static int vf_ncsum[NG], vf_csum_after_blocks[NG], vf_csum_after_inodes[NG];
static int vf_blocks_done, vf_inodes_phase;

/* STUB: bitmap test: block bitmap addressed by BLOCK number (shifted by the cluster ratio, as the real 64-bit
 * bitmap does), inode bitmap by inode number */
int ext2fs_test_generic_bmap(ext2fs_generic_bitmap b, blk64_t n)
{
	int p, r = 0;
	if (((struct vf_bm *) b)->is_block) {
		blk64_t c = n >> RBITS;
		if (c >= NCL) { vf_oob = 1; return 0; }
		for (p = 0; p < NCL; p++) if ((blk64_t) p == c) r = IN.cl[p];
	} else {
		if (n >= NINO || n == 0) { vf_oob = 1; return 0; }
		for (p = 0; p < NINO; p++) if ((blk64_t) p == n) r = IN.ino[p];
	}
	return r;
}
/* STUB: ext2fs_get_block_bitmap_range2(): start and count in CLUSTERS, packs the model into bits (LSB first);
 * bits behind the end of the file system read as 1 (the real bitmap pads them) */
errcode_t ext2fs_get_block_bitmap_range2(ext2fs_block_bitmap b, blk64_t start, size_t num, void *out)
{
	unsigned char *o = out;
	int j, k, p;
	if (b != (ext2fs_block_bitmap) &vf_bmap || num != CPG) vf_oob = 1;
	for (j = 0; j < CPG / 8; j++) {
		unsigned char v = 0;
		for (k = 0; k < 8; k++) {
			blk64_t c = start + 8 * j + k;
			int bit = 1;
			for (p = 0; p < NCL; p++) if ((blk64_t) p == c) bit = IN.cl[p];
			if ((c << RBITS) >= ext2fs_blocks_count(&vf_sb)) bit = 1;
			v |= (unsigned char) (bit << k);
		}
		o[j] = v;
	}
	return 0;
}
/* STUB: ext2fs_group_desc_csum_set(): counts per group and remembers which counters were final at that time */
void ext2fs_group_desc_csum_set(ext2_filsys fs, dgrp_t group)
{
	int g;
	(void) fs;
	for (g = 0; g < NG; g++)
		if ((dgrp_t) g == group) {
			vf_ncsum[g]++;
			vf_csum_after_blocks[g] = ext2fs_bg_free_blocks_count(&vf_fs, g);
			vf_csum_after_inodes[g] = ext2fs_bg_free_inodes_count(&vf_fs, g);
		}
}

int main(void)
{
	errcode_t rc;
	int g, k;
	__u64 blocks, total_cl = 0;
	__u32 total_ino = 0;

	VF_INPUT(IN);
	/* BOUND: NG groups x 16 clusters x RATIO blocks, 8 inodes per group, last group 1..16 clusters */
	ASSUME(IN.last_clusters >= 1 && IN.last_clusters <= CPG);
	for (k = 0; k < NCL; k++) ASSUME(IN.cl[k] <= 1);
	for (k = 0; k < NINO; k++) ASSUME(IN.ino[k] <= 1);
	blocks = FIRST + (__u64) (NG - 1) * BPG + (__u64) IN.last_clusters * RATIO;

	vf_sb.s_magic = EXT2_SUPER_MAGIC;
	vf_sb.s_rev_level = EXT2_DYNAMIC_REV;
	vf_sb.s_first_data_block = FIRST;
	vf_sb.s_log_block_size = 0;
	vf_sb.s_log_cluster_size = RBITS;
	vf_sb.s_blocks_per_group = BPG;
	vf_sb.s_clusters_per_group = CPG;
	vf_sb.s_inodes_per_group = IPG;
	vf_sb.s_inodes_count = NG * IPG;
	vf_sb.s_blocks_count = (__u32) blocks;
	vf_sb.s_feature_ro_compat = (RATIO > 1) ? EXT4_FEATURE_RO_COMPAT_BIGALLOC : 0;
	for (g = 0; g < NG; g++)
		((struct ext2_group_desc *) (vf_gd + 32 * g))->bg_flags = IN.gflags[g];
	vf_fs.magic = EXT2_ET_MAGIC_EXT2FS_FILSYS;
	vf_fs.super = &vf_sb;
	vf_fs.blocksize = 1024;
	vf_fs.cluster_ratio_bits = RBITS;
	vf_fs.group_desc_count = NG;
	vf_fs.desc_blocks = 1;
	vf_fs.group_desc = (struct opaque_ext2_group_desc *) vf_gd;
	vf_fs.block_map = (ext2fs_block_bitmap) &vf_bmap;
	vf_fs.inode_map = (ext2fs_inode_bitmap) &vf_imap;

	rc = resize2fs_calculate_summary_stats(&vf_fs);

	PROP(rc == 0 && !vf_oob, "succeeds, no bitmap access outside the file system");
	for (g = 0; g < NG; g++) {
		__u32 ncl = (g == NG - 1) ? IN.last_clusters : CPG, used = 0, ifree = 0;
		__u32 c0 = (FIRST >> RBITS) + g * CPG;		/* first cluster of the group */
		for (k = 0; k < CPG; k++)
			if ((__u32) k < ncl) used += IN.cl[c0 + k];
		PROP(ext2fs_bg_free_blocks_count(&vf_fs, g) == ncl - used,
		     "group free count = clusters of the group - clusters in use (bg_free_blocks_count is kept in clusters)");
		total_cl += ncl - used;
		for (k = 1; k <= IPG; k++)
			if ((IN.gflags[g] & EXT2_BG_INODE_UNINIT) || !IN.ino[g * IPG + k]) ifree++;
		PROP(ext2fs_bg_free_inodes_count(&vf_fs, g) == ifree, "group free inode count = inodes of the group not in use (all when INODE_UNINIT)");
		total_ino += ifree;
		PROP(vf_ncsum[g] >= 1 && vf_csum_after_blocks[g] == (int) (ncl - used) && vf_csum_after_inodes[g] == (int) ifree,
		     "group checksum recomputed after the group's final counters were stored");
	}
	PROP(ext2fs_free_blocks_count(&vf_sb) == total_cl * RATIO, "s_free_blocks_count = sum of the groups' free clusters * cluster ratio (blocks)");
	PROP(vf_sb.s_free_inodes_count == total_ino, "s_free_inodes_count = sum of the groups' free inodes");
	PROP((vf_fs.flags & EXT2_FLAG_DIRTY) != 0, "superblock marked dirty");
	VF_END();
	return 0;
}
