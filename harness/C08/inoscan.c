/*
 * C08/inoscan: the per-inode step of inode_scan_and_fix() (patterns P + D): which inodes are renumbered when
 * the file system shrinks, and which inode number every follow-up action uses.
 *
 * The real body of the static inode_scan_and_fix() (resize/resize2fs.c) and the real relocation table
 * (resize/extent.c) for rfs->imap / rfs->bmap.  The inode scan is a stub that delivers ONE inode with symbolic
 * number, link count, mode, flags, then the end marker.  migrate_ea_block() and fix_ea_inode_refs() are cut
 * (run.py cut_statics; migrate_ea_block has its own harness eamove); the allocator, inode writer and block
 * iterator are recording stubs.
 *
 * Decided for every inode number of the old file system (OLDG groups x IPG) against
 * start_to_move = new group count x inodes per group (the NEW s_inodes_count):
 *   - link count 0 and not the resize inode: skipped entirely;
 *   - in use and number <= start_to_move: keeps its number: no allocation, imap untouched, the inode is written
 *     (under its own number) only if the EA step changed it;
 *   - in use and number > start_to_move: exactly one ext2fs_new_inode() on new_fs, accounted once
 *     (ext2fs_inode_alloc_stats2 +1, directory flag from i_mode), the inode body written once under the NEW
 *     number (ctime refreshed unless it is an EA inode), imap translates old -> new;
 *   - block remapping / directory-block collection / extent checksum repair all run with the inode's FINAL
 *     number and under the documented conditions; EA-inode reference repair is requested iff an EA inode moved;
 *   - the block map is released, IGNORE_CSUM_ERRORS cleared; no work at all when nothing shrinks and no block moved.
 */
#include <stdarg.h>
#include "config.h"
#include "ext2fs/ext2_fs.h"
#include "ext2fs/ext2fs.h"
/* prototypes of the two cut statics (resize2fs.h has no include guard: struct tag instead of ext2_resize_t) */
struct ext2_resize_struct;
static errcode_t migrate_ea_block(struct ext2_resize_struct *rfs, ext2_ino_t ino, struct ext2_inode *inode, int *changed);
static errcode_t fix_ea_inode_refs(struct ext2_resize_struct *rfs, struct ext2_inode *inode, char *block_buf, ext2_ino_t last_ino);
#include "resize/resize2fs.c"

#ifndef OLDG
#define OLDG 3
#endif
#define NEWG 2
#define IPG 16
#ifndef HAS_BMAP
#define HAS_BMAP 0
#endif
#define VF_START ((ext2_ino_t) (NEWG * IPG))

struct vf_in {
	__u32 ino, new_ino;
	__u16 links, mode;
	__u32 flags, ctime, now;
	unsigned char ea_changed, valid_blocks, csum, ea_inode_feat;
};
VF_DECLARE_INPUT(struct vf_in, IN)
#include "vf_input.inc"

static struct struct_ext2_filsys vf_old, vf_new;
static struct ext2_super_block vf_osb, vf_nsb;
static struct ext2_resize_struct vf_rfs;
static struct struct_io_channel vf_io;
static struct struct_io_manager vf_mgr;
static long vf_scan_obj, vf_dblist_obj;

static int vf_delivered, vf_nopen, vf_nclose, vf_nflush;
static int vf_nmig; static ext2_ino_t vf_mig_ino;
static int vf_nnew, vf_new_on_newfs;
static int vf_nstats, vf_stats_ok;
static int vf_nwrite, vf_write_ok; static ext2_ino_t vf_wino; static __u32 vf_wctime; static __u16 vf_wlinks;
static int vf_niter; static ext2_ino_t vf_iter_ino, vf_pb_ino, vf_pb_old; static int vf_iter_flag_ok;
static int vf_ndir; static ext2_ino_t vf_dir_ino;
static int vf_nfixext; static ext2_ino_t vf_fixext_ino;
static int vf_nearefs; static ext2_ino_t vf_earefs_last;

typedef void (*vf_hook_t)(const char *, long, const char *, va_list);
/* STUB: com_err hook switching, inode-scan open/close/callback, dblist init: succeed, counted */
vf_hook_t set_com_err_hook(vf_hook_t h) { (void) h; return 0; }
vf_hook_t reset_com_err_hook(void) { return 0; }
errcode_t ext2fs_open_inode_scan(ext2_filsys fs, int nb, ext2_inode_scan *ret)
{
	(void) nb;
	if (fs == &vf_old) vf_nopen++;
	*ret = (ext2_inode_scan) &vf_scan_obj;
	return 0;
}
void ext2fs_close_inode_scan(ext2_inode_scan scan) { (void) scan; vf_nclose++; }
void ext2fs_set_inode_callback(ext2_inode_scan scan,
			       errcode_t (*done_group)(ext2_filsys fs, ext2_inode_scan scan, dgrp_t group, void *priv_data),
			       void *done_group_data)
{ (void) scan; (void) done_group; (void) done_group_data; }
errcode_t ext2fs_init_dblist(ext2_filsys fs, ext2_dblist *ret)
{
	(void) ret;
	fs->dblist = (ext2_dblist) &vf_dblist_obj;
	return 0;
}
errcode_t stub_io_flush(io_channel c) { (void) c; vf_nflush++; return 0; }

/* STUB: ext2fs_get_next_inode_full() delivers the one symbolic inode, then inode number 0 (end of scan) */
errcode_t ext2fs_get_next_inode_full(ext2_inode_scan scan, ext2_ino_t *ino, struct ext2_inode *inode, int bufsize)
{
	static const struct ext2_inode zero;
	(void) scan; (void) bufsize;
	if (vf_delivered) { *ino = 0; return 0; }
	vf_delivered = 1;
	*inode = zero;
	inode->i_links_count = IN.links;
	inode->i_mode = IN.mode;
	inode->i_flags = IN.flags;
	inode->i_ctime = IN.ctime;
	*ino = IN.ino;
	return 0;
}
/* STUB: migrate_ea_block() (cut; decided in harness eamove): logs the inode, may report a change */
static errcode_t migrate_ea_block(ext2_resize_t rfs, ext2_ino_t ino, struct ext2_inode *inode, int *changed)
{
	(void) rfs; (void) inode;
	vf_nmig++; vf_mig_ino = ino;
	if (IN.ea_changed) *changed = 1;
	return 0;
}
/* STUB: ext2fs_new_inode() returns a symbolic free inode of the NEW file system (1..new s_inodes_count) */
errcode_t ext2fs_new_inode(ext2_filsys fs, ext2_ino_t dir, int mode, ext2fs_inode_bitmap map, ext2_ino_t *ret)
{
	(void) dir; (void) mode; (void) map;
	vf_nnew++;
	vf_new_on_newfs = (fs == &vf_new);
	*ret = IN.new_ino;
	return 0;
}
void ext2fs_inode_alloc_stats2(ext2_filsys fs, ext2_ino_t ino, int inuse, int isdir)
{
	vf_nstats++;
	vf_stats_ok = (fs == &vf_new && ino == IN.new_ino && inuse == 1 && (isdir != 0) == (LINUX_S_ISDIR(IN.mode) != 0));
}
errcode_t ext2fs_write_inode_full(ext2_filsys fs, ext2_ino_t ino, struct ext2_inode *inode, int bufsize)
{
	vf_nwrite++;
	vf_write_ok = (fs == &vf_old && bufsize == 128);
	vf_wino = ino; vf_wctime = inode->i_ctime; vf_wlinks = inode->i_links_count;
	return 0;
}
int ext2fs_inode_has_valid_blocks2(ext2_filsys fs, struct ext2_inode *inode) { (void) fs; (void) inode; return IN.valid_blocks; }
errcode_t ext2fs_block_iterate3(ext2_filsys fs, ext2_ino_t ino, int flags, char *block_buf,
				int (*func)(ext2_filsys fs, blk64_t *blocknr, e2_blkcnt_t blockcnt, blk64_t ref_blk,
					    int ref_offset, void *priv_data),
				void *priv_data)
{
	struct process_block_struct *pb = priv_data;
	(void) flags; (void) block_buf; (void) func;
	vf_niter++; vf_iter_ino = ino; vf_pb_ino = pb->ino; vf_pb_old = pb->old_ino;
	vf_iter_flag_ok = fs == &vf_old && (fs->flags & EXT2_FLAG_IGNORE_CSUM_ERRORS) != 0 && func == process_block;
	return 0;
}
errcode_t ext2fs_add_dir_block2(ext2_dblist dblist, ext2_ino_t ino, blk64_t blk, e2_blkcnt_t blockcnt)
{
	(void) dblist; (void) blk; (void) blockcnt;
	vf_ndir++; vf_dir_ino = ino;
	return 0;
}
errcode_t ext2fs_fix_extents_checksums(ext2_filsys fs, ext2_ino_t ino, struct ext2_inode *inode)
{
	(void) fs; (void) inode;
	vf_nfixext++; vf_fixext_ino = ino;
	return 0;
}
/* STUB: fix_ea_inode_refs() (cut): logs the threshold it is given */
static errcode_t fix_ea_inode_refs(ext2_resize_t rfs, struct ext2_inode *inode, char *block_buf, ext2_ino_t last_ino)
{
	(void) rfs; (void) inode; (void) block_buf;
	vf_nearefs++; vf_earefs_last = last_ino;
	return 0;
}

int main(void)
{
	errcode_t rc;
	int in_use, moved, is_dir, remap;
	ext2_ino_t final;

	VF_INPUT(IN);
	/* BOUND: old file system OLDG groups x 16 inodes, new file system 2 groups x 16 inodes (start_to_move = 32) */
	ASSUME(IN.ino >= 1 && IN.ino <= OLDG * IPG);
	/* ASSUME: the allocator of new_fs hands out an inode of the new file system */
	ASSUME(IN.new_ino >= 1 && IN.new_ino <= VF_START);
	ASSUME(IN.ea_changed <= 1 && IN.valid_blocks <= 1 && IN.csum <= 1 && IN.ea_inode_feat <= 1 && IN.now != 0);

	vf_osb.s_magic = vf_nsb.s_magic = EXT2_SUPER_MAGIC;
	vf_osb.s_rev_level = vf_nsb.s_rev_level = EXT2_DYNAMIC_REV;
	vf_osb.s_inode_size = vf_nsb.s_inode_size = 128;
	vf_osb.s_first_ino = vf_nsb.s_first_ino = 11;
	vf_osb.s_inodes_per_group = vf_nsb.s_inodes_per_group = IPG;
	vf_osb.s_feature_ro_compat = vf_nsb.s_feature_ro_compat = IN.csum ? EXT4_FEATURE_RO_COMPAT_METADATA_CSUM : 0;
	vf_osb.s_feature_incompat = vf_nsb.s_feature_incompat = IN.ea_inode_feat ? EXT4_FEATURE_INCOMPAT_EA_INODE : 0;
	vf_mgr.magic = EXT2_ET_MAGIC_IO_MANAGER; vf_mgr.flush = stub_io_flush;
	vf_io.magic = EXT2_ET_MAGIC_IO_CHANNEL; vf_io.manager = &vf_mgr;
	vf_old.magic = vf_new.magic = EXT2_ET_MAGIC_EXT2FS_FILSYS;
	vf_old.super = &vf_osb; vf_new.super = &vf_nsb;
	vf_old.io = vf_new.io = &vf_io;
	vf_old.blocksize = vf_new.blocksize = 1024;
	vf_old.group_desc_count = OLDG; vf_new.group_desc_count = NEWG;
	vf_old.now = IN.now;
	vf_rfs.old_fs = &vf_old; vf_rfs.new_fs = &vf_new;
#if HAS_BMAP
	rc = ext2fs_create_extent_table(&vf_rfs.bmap, 1);
	ASSUME(rc == 0);
	ext2fs_add_extent_entry(vf_rfs.bmap, 100, 50);
#endif

	rc = inode_scan_and_fix(&vf_rfs);

	PROP(rc == 0, "scan succeeds when every callee succeeds");
	PROP(vf_rfs.bmap == 0 && !(vf_old.flags & EXT2_FLAG_IGNORE_CSUM_ERRORS), "block map released, IGNORE_CSUM_ERRORS cleared");
#if OLDG <= NEWG && !HAS_BMAP
	PROP(vf_nopen == 0 && vf_nmig == 0 && vf_nwrite == 0 && vf_nnew == 0 && vf_rfs.imap == 0,
	     "nothing shrinks and no block moved: the inode table is not scanned at all");
#else
	PROP(vf_nopen == 1 && vf_nclose == 1 && vf_nflush == 1, "one scan of old_fs, closed, channel flushed");
	in_use = !(IN.links == 0 && IN.ino != EXT2_RESIZE_INO);
	moved = in_use && IN.ino > VF_START;
	is_dir = LINUX_S_ISDIR(IN.mode);
	final = moved ? IN.new_ino : IN.ino;
	if (!in_use) {
		PROP(vf_nmig == 0 && vf_nnew == 0 && vf_nstats == 0 && vf_nwrite == 0 && vf_niter == 0 && vf_ndir == 0 &&
		     vf_nfixext == 0 && vf_rfs.imap == 0, "unused inode: skipped entirely");
	} else {
		PROP(vf_nmig == 1 && vf_mig_ino == IN.ino, "in-use inode: EA block reference handled once, under the old number");
		if (!moved) {
			PROP(vf_nnew == 0 && vf_nstats == 0 && vf_rfs.imap == 0,
			     "inode number <= new inode count: keeps its number (no allocation, no map entry)");
			PROP(vf_nwrite == (IN.ea_changed ? 1 : 0) && (!vf_nwrite || (vf_wino == IN.ino && vf_write_ok && vf_wctime == IN.ctime)),
			     "unmoved inode: written back under its own number exactly when the EA step changed it");
		} else {
			PROP(vf_nnew == 1 && vf_new_on_newfs, "inode number > new inode count: one new inode allocated in new_fs");
			PROP(vf_nstats == 1 && vf_stats_ok, "moved inode: accounted once (+1, directory flag) under the new number in new_fs");
			PROP(vf_nwrite == 1 && vf_wino == IN.new_ino && vf_write_ok && vf_wlinks == IN.links,
			     "moved inode: body written exactly once, under the new number");
			PROP(vf_wctime == ((IN.flags & EXT4_EA_INODE_FL) ? IN.ctime : IN.now),
			     "moved inode: ctime refreshed, except for EA inodes (ctime carries their reference count)");
			PROP(vf_rfs.imap != 0 && ext2fs_extent_translate(vf_rfs.imap, IN.ino) == IN.new_ino,
			     "moved inode: the inode map translates the old number to the new one");
		}
		remap = HAS_BMAP || is_dir;
		if (IN.valid_blocks && remap)
			PROP(vf_niter == 1 && vf_iter_ino == final && vf_pb_ino == final && vf_pb_old == IN.ino && vf_iter_flag_ok && vf_ndir == 0,
			     "blocks are walked once under the final inode number (old number kept for diagnostics)");
		else if ((IN.flags & EXT4_INLINE_DATA_FL) && remap)
			PROP(vf_niter == 0 && vf_ndir == 1 && vf_dir_ino == final, "inline-data inode: registered for directory rewriting under the final number");
		else
			PROP(vf_niter == 0 && vf_ndir == 0, "no block walk when nothing can change");
		if (IN.csum && (IN.flags & EXT4_EXTENTS_FL))
			PROP(vf_nfixext == 1 && vf_fixext_ino == final, "metadata_csum: extent block checksums redone under the final inode number");
		else
			PROP(vf_nfixext == 0, "no extent checksum repair without metadata_csum / extents");
	}
	if (moved && (IN.flags & EXT4_EA_INODE_FL) && IN.ea_inode_feat)
		PROP(vf_nearefs == 1 && vf_earefs_last == VF_START, "a moved EA inode triggers the reference repair with threshold = new inode count");
	else
		PROP(vf_nearefs == 0, "no EA-inode reference repair unless an EA inode moved");
#endif
	VF_END();
	return 0;
}
