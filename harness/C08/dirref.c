/*
 * C08/dirref: inode_ref_fix() and its directory-entry callback check_and_change_inodes() (patterns P + D):
 * after inodes were renumbered, every directory entry that names a moved inode is rewritten, and every block
 * of a directory that itself was renumbered is rewritten when checksums are on.
 *
 * Real: the static inode_ref_fix() and check_and_change_inodes() (resize/resize2fs.c), the relocation table
 * (resize/extent.c: create + 2 adds + translate + free).  The directory iterator ext2fs_dblist_dir_iterate() is a
 * stub that presents NENT symbolic entries (inode number 0 = unused, or live; offset 0 = first entry of a block)
 * to the real callback exactly as the library does (stops on DIRENT_ABORT, remembers DIRENT_CHANGED per entry).
 * Inode bitmap test, inode read/write and the progress hook are recording stubs with symbolic results.
 *
 * The rule the code documents: "If we have checksums enabled and the inode wasn't present in the old fs, then we
 * must rewrite all dir blocks with new checksums" (the dir-block checksum is seeded with the inode number).
 * Decided for every entry, used or unused:
 *   - the callback reports DIRENT_CHANGED iff (metadata_csum and the directory's number is not an inode of the
 *     old file system) or the entry's inode was renumbered;
 *   - an entry whose inode is in the inode map gets exactly the mapped number, any other entry is untouched;
 *     name, name_len, rec_len are never touched;
 *   - a rewritten entry refreshes the directory's mtime/ctime once per entry (read + write of the directory inode
 *     in old_fs); a failing write aborts the walk and is returned; a failing read is tolerated;
 *   - the progress hook runs once per directory block (offset 0) with a running count; its error aborts;
 *   - inode_ref_fix: no map -> nothing; iterates with DIRENT_FLAG_INCLUDE_EMPTY under IGNORE_CSUM_ERRORS, clears
 *     it, releases the inode map, returns the iterator's or the callback's error.
 */
#include "resize/resize2fs.c"

#ifndef NENT
#define NENT 2
#endif
#ifndef HAS_PROGRESS
#define HAS_PROGRESS 0
#endif

struct vf_ent { __u32 inode; __u16 rec_len, name_len; unsigned char name[4]; __u32 offset; };
struct vf_in {
	struct vf_ent e[NENT];
	__u32 dir;
	unsigned char csum, dir_in_old, has_map;
	__u32 m_old[2], m_new[2];	/* the inode map: two single entries, ascending */
	int rd_err[NENT], wr_err[NENT], prog_err[NENT], iter_err;
	__u32 now;
};
VF_DECLARE_INPUT(struct vf_in, IN)
#include "vf_input.inc"

static struct struct_ext2_filsys vf_old, vf_new;
static struct ext2_super_block vf_osb, vf_nsb;
static struct ext2_resize_struct vf_rfs;
static struct struct_io_channel vf_io;
static struct struct_io_manager vf_mgr;
static long vf_dblist_obj, vf_imap_obj;
static struct { struct ext2_dir_entry d; char pad[8]; } vf_de[NENT];

static int vf_cur, vf_in_cb, vf_ncalled, vf_ret[NENT], vf_called[NENT];
static int vf_iter_calls, vf_iter_flags, vf_iter_ignore_ok;
static int vf_nread[NENT], vf_nwrite[NENT], vf_rw_ok = 1, vf_bmtest_ok = 1;
static __u32 vf_wmtime[NENT], vf_wctime[NENT];
static int vf_nprog, vf_nflush, vf_prog_ok = 1;
static unsigned long vf_prog_cur[NENT + 2];

/* STUB: ext2fs_dblist_dir_iterate(): presents the NENT symbolic entries of one directory to the callback the way
 * ext2fs_process_dir_block does: DIRENT_ABORT stops the walk; returns a symbolic error of its own at the end */
errcode_t ext2fs_dblist_dir_iterate(ext2_dblist dblist, int flags, char *block_buf,
				    int (*func)(ext2_ino_t dir, int entry, struct ext2_dir_entry *dirent, int offset,
						int blocksize, char *buf, void *priv_data),
				    void *priv_data)
{
	int k, r;
	(void) block_buf;
	vf_iter_calls++;
	vf_iter_flags = flags;
	vf_iter_ignore_ok = (dblist == (ext2_dblist) &vf_dblist_obj) && (vf_old.flags & EXT2_FLAG_IGNORE_CSUM_ERRORS) != 0;
	for (k = 0; k < NENT; k++) {
		vf_cur = k;
		vf_in_cb = 1;
		r = func(IN.dir, 0, &vf_de[k].d, (int) IN.e[k].offset, 1024, 0, priv_data);
		vf_in_cb = 0;
		vf_called[k] = 1; vf_ret[k] = r; vf_ncalled++;
		if (r & DIRENT_ABORT)
			return 0;	/* the library reports callback aborts through priv_data only */
	}
	return (errcode_t) IN.iter_err;
}
blk64_t ext2fs_dblist_count2(ext2_dblist dblist) { (void) dblist; return NENT; }
/* STUB: inode bitmap test of old_fs: answers "was this number an inode of the old file system" symbolically */
int ext2fs_test_generic_bmap(ext2fs_generic_bitmap b, blk64_t n)
{
	if (b != (ext2fs_generic_bitmap) &vf_imap_obj || n != IN.dir) vf_bmtest_ok = 0;
	return IN.dir_in_old;
}
/* STUB: ext2fs_read_inode()/ext2fs_write_inode(): log, symbolic error per entry */
errcode_t ext2fs_read_inode(ext2_filsys fs, ext2_ino_t ino, struct ext2_inode *inode)
{
	static const struct ext2_inode zero;
	if (fs != &vf_old || ino != IN.dir) vf_rw_ok = 0;
	vf_nread[vf_cur]++;
	*inode = zero;
	return (errcode_t) IN.rd_err[vf_cur];
}
errcode_t ext2fs_write_inode(ext2_filsys fs, ext2_ino_t ino, struct ext2_inode *inode)
{
	if (fs != &vf_old || ino != IN.dir || vf_nread[vf_cur] != 1) vf_rw_ok = 0;
	vf_nwrite[vf_cur]++;
	vf_wmtime[vf_cur] = inode->i_mtime; vf_wctime[vf_cur] = inode->i_ctime;
	return (errcode_t) IN.wr_err[vf_cur];
}
errcode_t stub_io_flush(io_channel c) { (void) c; vf_nflush++; return 0; }
static errcode_t stub_progress(ext2_resize_t rfs, int pass, unsigned long cur, unsigned long max)
{
	if (rfs != &vf_rfs || pass != E2_RSZ_INODE_REF_UPD_PASS || max != NENT) vf_prog_ok = 0;
	if (vf_nprog < NENT + 2) vf_prog_cur[vf_nprog] = cur;
	vf_nprog++;
	if (vf_in_cb)
		return (errcode_t) IN.prog_err[vf_cur];	/* called from inside the callback */
	return 0;
}

static __u32 ref_map(__u32 ino)
{
	if (!IN.has_map) return 0;
	if (ino == IN.m_old[0]) return IN.m_new[0];
	if (ino == IN.m_old[1]) return IN.m_new[1];
	return 0;
}

int main(void)
{
	errcode_t rc;
	int k, j, aborted = 0, nblk = 0;
	errcode_t first_err = 0;

	VF_INPUT(IN);
	/* BOUND: one directory, NENT entries (each possibly the first of a block), inode map of 2 entries */
	ASSUME(IN.csum <= 1 && IN.dir_in_old <= 1 && IN.has_map <= 1 && IN.now != 0 && IN.dir >= 2);
	/* ASSUME: inode map as inode_scan_and_fix builds it: ascending old numbers, non-zero targets */
	ASSUME(IN.m_old[0] >= 1 && IN.m_old[0] < IN.m_old[1] && IN.m_old[1] < 0x7fffffff);
	ASSUME(IN.m_new[0] >= 1 && IN.m_new[1] >= 1 && IN.m_new[0] < 0x7fffffff && IN.m_new[1] < 0x7fffffff);
	for (k = 0; k < NENT; k++) {
		ASSUME(IN.e[k].offset < 1024);
		vf_de[k].d.inode = IN.e[k].inode;
		vf_de[k].d.rec_len = IN.e[k].rec_len;
		vf_de[k].d.name_len = IN.e[k].name_len;
		for (j = 0; j < 4; j++) vf_de[k].d.name[j] = IN.e[k].name[j];
	}
	vf_osb.s_magic = vf_nsb.s_magic = EXT2_SUPER_MAGIC;
	vf_osb.s_rev_level = vf_nsb.s_rev_level = EXT2_DYNAMIC_REV;
	vf_osb.s_feature_ro_compat = vf_nsb.s_feature_ro_compat = IN.csum ? EXT4_FEATURE_RO_COMPAT_METADATA_CSUM : 0;
	vf_mgr.magic = EXT2_ET_MAGIC_IO_MANAGER; vf_mgr.flush = stub_io_flush;
	vf_io.magic = EXT2_ET_MAGIC_IO_CHANNEL; vf_io.manager = &vf_mgr;
	vf_old.magic = vf_new.magic = EXT2_ET_MAGIC_EXT2FS_FILSYS;
	vf_old.super = &vf_osb; vf_new.super = &vf_nsb;
	vf_old.io = vf_new.io = &vf_io;
	vf_old.blocksize = vf_new.blocksize = 1024;
	vf_old.now = IN.now;
	vf_old.dblist = (ext2_dblist) &vf_dblist_obj;
	vf_old.inode_map = (ext2fs_inode_bitmap) &vf_imap_obj;
	vf_rfs.old_fs = &vf_old; vf_rfs.new_fs = &vf_new;
#if HAS_PROGRESS
	vf_rfs.progress = stub_progress;
#endif
	if (IN.has_map) {
		rc = ext2fs_create_extent_table(&vf_rfs.imap, 2);
		ASSUME(rc == 0);
		ext2fs_add_extent_entry(vf_rfs.imap, IN.m_old[0], IN.m_new[0]);
		ext2fs_add_extent_entry(vf_rfs.imap, IN.m_old[1], IN.m_new[1]);
	}

	rc = inode_ref_fix(&vf_rfs);

	PROP(vf_rfs.imap == 0 && !(vf_old.flags & EXT2_FLAG_IGNORE_CSUM_ERRORS), "inode map released, IGNORE_CSUM_ERRORS cleared");
	if (!IN.has_map) {
		PROP(rc == 0 && vf_iter_calls == 0 && vf_nprog == 0, "no inode was renumbered: directories are not walked");
	} else {
		PROP(vf_iter_calls == 1 && vf_iter_flags == DIRENT_FLAG_INCLUDE_EMPTY && vf_iter_ignore_ok,
		     "one walk over the collected directory blocks, unused entries included, checksum errors ignored");
		PROP(vf_rw_ok && vf_bmtest_ok, "directory inode read/written in old_fs; 'was an inode of the old fs' asked about the directory");
		for (k = 0; k < NENT; k++) {
			int rewrite_all = IN.csum && !IN.dir_in_old;
			__u32 to = IN.e[k].inode ? ref_map(IN.e[k].inode) : 0;
			int first = (IN.e[k].offset == 0);
			if (aborted) {
				PROP(!vf_called[k] && vf_de[k].d.inode == IN.e[k].inode, "nothing is visited after an abort");
				continue;
			}
			PROP(vf_called[k], "every entry is presented to the callback");
			PROP(vf_de[k].d.rec_len == IN.e[k].rec_len && vf_de[k].d.name_len == IN.e[k].name_len &&
			     vf_de[k].d.name[0] == (char) IN.e[k].name[0] && vf_de[k].d.name[3] == (char) IN.e[k].name[3],
			     "name, name_len and rec_len of an entry are never touched");
			if (HAS_PROGRESS && first) nblk++;
			if (HAS_PROGRESS && first && IN.prog_err[k]) {
				PROP(vf_ret[k] == DIRENT_ABORT && vf_de[k].d.inode == IN.e[k].inode && vf_nread[k] == 0,
				     "a failing progress hook aborts before the entry is looked at");
				aborted = 1; first_err = (errcode_t) IN.prog_err[k];
				continue;
			}
			if (!to) {
				PROP(vf_de[k].d.inode == IN.e[k].inode && vf_nread[k] == 0 && vf_nwrite[k] == 0,
				     "unused entry / inode not renumbered: entry untouched");
				PROP(vf_ret[k] == (rewrite_all ? DIRENT_CHANGED : 0),
				     "checksums on and directory renumbered: EVERY entry (used or unused) reports CHANGED so the block is rewritten; otherwise unchanged");
			} else {
				PROP(vf_de[k].d.inode == to, "entry of a renumbered inode gets exactly the mapped number");
				PROP(vf_nread[k] == 1, "rewritten entry: directory inode read once");
				if (IN.rd_err[k]) {
					PROP(vf_nwrite[k] == 0 && vf_ret[k] == DIRENT_CHANGED, "unreadable directory inode: times not refreshed, entry still rewritten");
				} else {
					PROP(vf_nwrite[k] == 1 && vf_wmtime[k] == IN.now && vf_wctime[k] == IN.now, "rewritten entry: directory mtime/ctime refreshed");
					if (IN.wr_err[k]) {
						PROP((vf_ret[k] & DIRENT_ABORT) != 0, "failing directory inode write aborts the walk");
						aborted = 1; first_err = (errcode_t) IN.wr_err[k];
					} else
						PROP(vf_ret[k] == DIRENT_CHANGED, "rewritten entry reports CHANGED");
				}
			}
		}
		if (aborted)
			PROP(rc == first_err, "the callback's error is returned");
		else
			PROP(rc == (errcode_t) IN.iter_err, "the iterator's result is returned");
#if HAS_PROGRESS
		PROP(vf_prog_ok && vf_nflush == nblk, "progress hook: right pass and total, channel flushed once per directory block");
		PROP(vf_prog_cur[0] == 0, "progress starts at 0");
		for (k = 1; k <= NENT; k++)
			if (k <= nblk) PROP(vf_prog_cur[k] == (unsigned long) k, "progress counts directory blocks 1, 2, ...");
#endif
	}
	VF_END();
	return 0;
}
