/*
 * C08/ss2reserve: reserve_sparse_super2_last_group() -- making room for the backup superblock and descriptors
 * in the group that BECOMES the last group (and therefore a backup group) when a sparse_super2 file system
 * shrinks (pattern D).  blkmove cuts this function and decides only its call site; here is the function itself.
 *
 * Real: the static reserve_sparse_super2_last_group() (resize/resize2fs.c), ext2fs_super_and_bgd_loc2() and
 * ext2fs_bg_has_super() (closefs.c), group descriptor accessors (blknum.c).  Stubbed: the bitmap layer
 * (bytemap.h, one byte per block) and ext2fs_allocate_group_table() (places what is missing at symbolic blocks
 * outside the reserved area).
 *
 * Reference (on-disk format): a backup group starts with 1 superblock block + desc_blocks + s_reserved_gdt_blocks.
 * Decided, OLDG -> NEWG groups of 16 blocks, everything else symbolic:
 *   - the function acts iff sparse_super2 is on, the group count drops, and the new last group is a backup group
 *     of the new file system but was none of the old one; otherwise NOTHING changes;
 *   - when it acts: exactly that footprint is marked in use in new_fs and reserved; a footprint block is scheduled
 *     for moving iff it is in use in the old file system and not metadata; needed_blocks counts those; no block
 *     outside the footprint is touched; every bitmap / inode table of a surviving group that overlaps the
 *     footprint is given up and re-allocated, none is left inside it.
 */
#include "resize/resize2fs.c"

#ifndef OLDG
#define OLDG 3
#endif
#ifndef NEWG
#define NEWG 2
#endif
#define BPG 16
#define ITB 2
#define OLD_SIZE (1 + OLDG * BPG)
#define NEW_SIZE (1 + NEWG * BPG)
#define NB OLD_SIZE
#define LAST (NEWG - 1)
#define LAST_FIRST (1 + LAST * BPG)

struct vf_in {
	unsigned char inuse[NB], meta[NB];
	__u32 bb[NEWG], ib[NEWG], it[NEWG];
	__u32 ndb, nrsv;
	unsigned char sparse2;
	__u32 obk[2], nbk[2];
	__u32 alloc[3];
	__u32 needed0;
};
VF_DECLARE_INPUT(struct vf_in, IN)
#include "vf_input.inc"

/* STUB: bitmap layer: one byte per block, see bytemap.h (mark / unmark / test / range / allocate / free) */
#include "bytemap.h"

static struct struct_ext2_filsys vf_old, vf_new;
static struct ext2_super_block vf_osb, vf_nsb;
static struct ext2_resize_struct vf_rfs;
static unsigned char vf_ngd[1024] __attribute__((aligned(8)));
static int vf_nalloc_tab;

/* STUB: ext2fs_allocate_group_table(): every location that is 0 gets a symbolic block (assumed outside the footprint) */
errcode_t ext2fs_allocate_group_table(ext2_filsys fs, dgrp_t g, ext2fs_block_bitmap bmap)
{
	(void) bmap;
	vf_nalloc_tab++;
	if (!ext2fs_block_bitmap_loc(fs, g)) ext2fs_block_bitmap_loc_set(fs, g, IN.alloc[0]);
	if (!ext2fs_inode_bitmap_loc(fs, g)) ext2fs_inode_bitmap_loc_set(fs, g, IN.alloc[1]);
	if (!ext2fs_inode_table_loc(fs, g)) ext2fs_inode_table_loc_set(fs, g, IN.alloc[2]);
	return 0;
}
#ifndef VF_REPLAY
char *gettext(const char *m) { return (char *) m; }
#endif

static int ref_in_foot(__u32 b, __u32 len) { return b >= LAST_FIRST && b < LAST_FIRST + len; }

int main(void)
{
	errcode_t rc;
	int g, p, act, nmove = 0;
	struct ext2_group_desc *gd;
	__u32 foot;

	VF_INPUT(IN);
	/* BOUND: OLDG -> NEWG groups x 16 blocks, inode table 2 blocks, 1 KiB blocks, no meta_bg / bigalloc */
	ASSUME(IN.sparse2 <= 1 && IN.ndb >= 1 && IN.ndb <= 2 && IN.nrsv <= 2 && IN.needed0 < 1000);
	for (p = 0; p < NB; p++) ASSUME(IN.inuse[p] <= 1 && IN.meta[p] <= 1);
	/* ASSUME: blocks_to_move() has already pulled the metadata of surviving groups inside the new size */
	for (g = 0; g < NEWG; g++)
		ASSUME(IN.bb[g] >= 1 && IN.bb[g] < NEW_SIZE && IN.ib[g] >= 1 && IN.ib[g] < NEW_SIZE &&
		       IN.it[g] >= 1 && IN.it[g] <= NEW_SIZE - ITB);
	foot = 1 + IN.ndb + IN.nrsv;
	/* ASSUME: ext2fs_allocate_group_table (which consults new_fs' block bitmap, where the footprint is marked by then)
	 * places tables inside the new file system and outside the footprint */
	ASSUME(IN.alloc[0] >= 1 && IN.alloc[0] < NEW_SIZE && !ref_in_foot(IN.alloc[0], foot));
	ASSUME(IN.alloc[1] >= 1 && IN.alloc[1] < NEW_SIZE && !ref_in_foot(IN.alloc[1], foot));
	ASSUME(IN.alloc[2] >= 1 && IN.alloc[2] <= NEW_SIZE - ITB && !ref_in_foot(IN.alloc[2], foot) && !ref_in_foot(IN.alloc[2] + 1, foot));
	ASSUME(IN.obk[0] < OLDG && IN.obk[1] < OLDG && IN.nbk[0] < NEWG && IN.nbk[1] < NEWG);

	vf_osb.s_magic = vf_nsb.s_magic = EXT2_SUPER_MAGIC;
	vf_osb.s_rev_level = vf_nsb.s_rev_level = EXT2_DYNAMIC_REV;
	vf_osb.s_first_data_block = vf_nsb.s_first_data_block = 1;
	vf_osb.s_blocks_per_group = vf_nsb.s_blocks_per_group = BPG;
	vf_osb.s_clusters_per_group = vf_nsb.s_clusters_per_group = BPG;
	vf_osb.s_blocks_count = OLD_SIZE; vf_nsb.s_blocks_count = NEW_SIZE;
	vf_nsb.s_reserved_gdt_blocks = IN.nrsv;
	vf_osb.s_feature_compat = vf_nsb.s_feature_compat = IN.sparse2 ? EXT4_FEATURE_COMPAT_SPARSE_SUPER2 : 0;
	vf_osb.s_feature_ro_compat = vf_nsb.s_feature_ro_compat = EXT2_FEATURE_RO_COMPAT_SPARSE_SUPER;
	vf_osb.s_backup_bgs[0] = IN.obk[0]; vf_osb.s_backup_bgs[1] = IN.obk[1];
	vf_nsb.s_backup_bgs[0] = IN.nbk[0]; vf_nsb.s_backup_bgs[1] = IN.nbk[1];
	for (g = 0; g < NEWG; g++) {
		gd = (struct ext2_group_desc *) (vf_ngd + 32 * g);
		gd->bg_block_bitmap = IN.bb[g]; gd->bg_inode_bitmap = IN.ib[g]; gd->bg_inode_table = IN.it[g];
	}
	for (p = 0; p < NB; p++) {
		vf_oldmap.bit[p] = IN.inuse[p];
		vf_newmap.bit[p] = (p < NEW_SIZE) ? IN.inuse[p] : 0;
		vf_work[1].bit[p] = IN.meta[p];		/* meta_bmap as mark_table_blocks(old_fs) left it */
	}
	vf_old.magic = vf_new.magic = EXT2_ET_MAGIC_EXT2FS_FILSYS;
	vf_old.super = &vf_osb; vf_new.super = &vf_nsb;
	vf_old.blocksize = vf_new.blocksize = 1024;
	vf_old.group_desc_count = OLDG; vf_new.group_desc_count = NEWG;
	vf_new.desc_blocks = IN.ndb; vf_old.desc_blocks = 1;
	vf_old.inode_blocks_per_group = vf_new.inode_blocks_per_group = ITB;
	vf_new.group_desc = (struct opaque_ext2_group_desc *) vf_ngd;
	vf_old.block_map = (ext2fs_block_bitmap) &vf_oldmap;
	vf_new.block_map = (ext2fs_block_bitmap) &vf_newmap;
	vf_rfs.old_fs = &vf_old; vf_rfs.new_fs = &vf_new;
	vf_rfs.reserve_blocks = (ext2fs_block_bitmap) &vf_reserve;
	vf_rfs.move_blocks = (ext2fs_block_bitmap) &vf_work[0];
	vf_rfs.needed_blocks = IN.needed0;

	rc = reserve_sparse_super2_last_group(&vf_rfs, (ext2fs_block_bitmap) &vf_work[1]);

	PROP(rc == 0 && !vf_oob, "succeeds, no bitmap access outside the file system");
	/* reference: the new last group is a backup group now and was none before */
	act = IN.sparse2 && NEWG < OLDG &&
		(IN.nbk[0] == LAST || IN.nbk[1] == LAST) && !(IN.obk[0] == LAST || IN.obk[1] == LAST);
	for (p = 0; p < NB; p++) {
		int infoot = act && ref_in_foot(p, foot);
		if (infoot) {
			PROP(vf_newmap.bit[p] == 1 && vf_reserve.bit[p] == 1, "footprint of the new backup group: in use in new_fs and reserved");
			PROP(vf_work[0].bit[p] == (IN.inuse[p] && !IN.meta[p]), "footprint block is moved iff in use in the old file system and not metadata");
		} else {
			PROP(vf_newmap.bit[p] == ((p < NEW_SIZE) ? IN.inuse[p] : 0) && vf_reserve.bit[p] == 0 && vf_work[0].bit[p] == 0,
			     "no block outside the footprint is touched (nothing at all when the function does not apply)");
		}
		nmove += vf_work[0].bit[p];
	}
	PROP(vf_rfs.needed_blocks == (blk64_t) IN.needed0 + nmove, "needed_blocks grows by exactly the blocks scheduled for moving");
	for (g = 0; g < NEWG; g++) {
		__u32 b = ext2fs_block_bitmap_loc(&vf_new, g), i = ext2fs_inode_bitmap_loc(&vf_new, g), t = ext2fs_inode_table_loc(&vf_new, g);
		if (act) {
			PROP(b && i && t && !ref_in_foot(b, foot) && !ref_in_foot(i, foot) && !ref_in_foot(t, foot) && !ref_in_foot(t + 1, foot),
			     "no bitmap or inode table of a surviving group is left inside the footprint");
			PROP((b == IN.bb[g] || (ref_in_foot(IN.bb[g], foot) && b == IN.alloc[0])) &&
			     (i == IN.ib[g] || (ref_in_foot(IN.ib[g], foot) && i == IN.alloc[1])) &&
			     (t == IN.it[g] || ((ref_in_foot(IN.it[g], foot) || ref_in_foot(IN.it[g] + 1, foot)) && t == IN.alloc[2])),
			     "only overlapping bitmaps / inode tables are re-allocated");
		} else
			PROP(b == IN.bb[g] && i == IN.ib[g] && t == IN.it[g] && vf_nalloc_tab == 0, "function does not apply: group metadata untouched");
	}
	VF_END();
	return 0;
}
