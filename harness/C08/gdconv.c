/*
 * C08/gdconv: 32 <-> 64-bit conversion of the group descriptor table (resize2fs -b / -s), pattern D.
 *
 * The real static resize_group_descriptors() (resize/resize2fs.c) together with the real
 * adjust_reserved_gdt_blocks() and the real descriptor accessors of lib/ext2fs/blknum.c.
 * The descriptor table of the old file system is fully symbolic.  Decided, for NG groups:
 *   - request validation: a size different from the current one, a size >= 2^32 or both flags at once is
 *     refused with EXT2_ET_INVALID_ARGUMENT and nothing is changed; no flag: nothing is changed;
 *   - the feature flag and s_desc_size are switched; desc_blocks = ceil(groups / descriptors per block);
 *   - byte level (on-disk format): the first 32 bytes of every new descriptor are the first 32 bytes of the old
 *     one, the upper half of a new 64-byte descriptor is zero, descriptor blocks are zero behind the table;
 *   - accessor level: for a consistent old file system (locations below the block count, counters < 2^16)
 *     every location, counter and flag read through the real accessors is the same before and after;
 *   - every group's checksum is recomputed once, on the new table; the old handle is untouched;
 *   - with resize_inode, reserved GDT blocks absorb the change in descriptor blocks (clamped to 0..blocksize/4).
 */
#include "resize/resize2fs.c"

#ifndef NG
#define NG 3
#endif
#ifndef CONV
#define CONV 1			/* 1: 32 -> 64 (RESIZE_ENABLE_64BIT), 2: 64 -> 32 (RESIZE_DISABLE_64BIT) */
#endif
/* FL: which conversion flags are passed -- concrete per query (a symbolic flag word makes s_desc_size, hence the
 * allocation size of the new table, symbolic: 10 GB).  1: the wanted flag, 2: both, 3: none, 4: the opposite one,
 * 5: the wanted flag with a requested size different from the current one (1-4: requested size == current size,
 * passed as the same expression so that the refusal branch is pruned during symbolic execution) */
#ifndef FL
#define FL 1
#endif
#define VF_WANT ((CONV == 1) ? RESIZE_ENABLE_64BIT : RESIZE_DISABLE_64BIT)
#define VF_OTHER ((CONV == 1) ? RESIZE_DISABLE_64BIT : RESIZE_ENABLE_64BIT)
#define VF_FLAGS ((FL == 1 || FL == 5) ? VF_WANT : (FL == 2) ? (VF_WANT | VF_OTHER) : (FL == 3) ? 0 : VF_OTHER)
#define VF_BS 1024u
#define OLD_DS ((CONV == 1) ? 32u : 64u)
#define NEW_DS ((CONV == 1) ? 64u : 32u)
#define OLD_DB ((NG + VF_BS / OLD_DS - 1) / (VF_BS / OLD_DS))
#define NEW_DB ((NG + VF_BS / NEW_DS - 1) / (VF_BS / NEW_DS))

struct vf_in {
	unsigned char gd[NG * 64];	/* old descriptor table (NG * OLD_DS bytes used) */
	__u32 blocks;			/* current size */
	__u64 new_size;			/* requested size */
	int flags;
	__u16 rsv_gdt;
	unsigned char resize_inode;
	__u32 zidx;			/* probe offset behind the new table */
};
VF_DECLARE_INPUT(struct vf_in, IN)
#include "vf_input.inc"

static struct struct_ext2_filsys vf_old, vf_new;
static struct ext2_super_block vf_osb, vf_nsb;
static struct ext2_resize_struct vf_rfs;
static unsigned char vf_ogd[OLD_DB * VF_BS] __attribute__((aligned(8)));
static unsigned char vf_ogd_copy[OLD_DB * VF_BS] __attribute__((aligned(8)));
static unsigned char vf_ntab[NEW_DB * VF_BS] __attribute__((aligned(8)));
static int vf_csum_calls[NG], vf_csum_bad;
static void *vf_first_table;

/* STUB: ext2fs_group_desc_csum_set() logs (handle, group, table in use); the checksum itself is C14's subject */
void ext2fs_group_desc_csum_set(ext2_filsys fs, dgrp_t group)
{
	int g;
	if (fs != &vf_new || (void *) fs->group_desc == vf_first_table) vf_csum_bad = 1;
	for (g = 0; g < NG; g++)
		if ((dgrp_t) g == group) vf_csum_calls[g]++;
	if (group >= NG) vf_csum_bad = 1;
}

static void vf_fill_sb(struct ext2_super_block *sb)
{
	sb->s_magic = EXT2_SUPER_MAGIC;
	sb->s_rev_level = EXT2_DYNAMIC_REV;
	sb->s_log_block_size = 0;
	sb->s_first_data_block = 1;
	sb->s_blocks_per_group = 8192;
	sb->s_clusters_per_group = 8192;
	sb->s_blocks_count = IN.blocks;
	sb->s_reserved_gdt_blocks = IN.rsv_gdt;
	sb->s_feature_compat = IN.resize_inode ? EXT2_FEATURE_COMPAT_RESIZE_INODE : 0;
	sb->s_feature_incompat = (CONV == 2) ? EXT4_FEATURE_INCOMPAT_64BIT : 0;
	sb->s_desc_size = (CONV == 2) ? 64 : 0;
}
static void vf_fill_fs(ext2_filsys fs, struct ext2_super_block *sb)
{
	fs->magic = EXT2_ET_MAGIC_EXT2FS_FILSYS;
	fs->super = sb;
	fs->blocksize = VF_BS;
	fs->group_desc_count = NG;
	fs->desc_blocks = OLD_DB;
}

int main(void)
{
	errcode_t rc;
	unsigned char *nt;
	int g, k, valid, want_flag;
	void *p = 0;

	VF_INPUT(IN);
	/* BOUND: NG groups (concrete per query), 1 KiB blocks; descriptor bytes, size, flags, reserved GDT count symbolic */
	ASSUME(IN.resize_inode <= 1 && IN.rsv_gdt <= VF_BS / 4);
	ASSUME(IN.flags == VF_FLAGS);
	vf_fill_sb(&vf_osb); vf_fill_sb(&vf_nsb);
	vf_fill_fs(&vf_old, &vf_osb); vf_fill_fs(&vf_new, &vf_nsb);
	for (k = 0; k < (int) (NG * OLD_DS); k++) { vf_ogd[k] = IN.gd[k]; vf_ogd_copy[k] = IN.gd[k]; }
	vf_old.group_desc = (struct opaque_ext2_group_desc *) vf_ogd;
	/* new_fs as ext2fs_dup_handle() leaves it: an own heap copy of the table */
	rc = ext2fs_get_array(OLD_DB, VF_BS, &p);
	ASSUME(rc == 0 && p != 0);
	nt = p;
	for (k = 0; k < (int) (NG * OLD_DS); k++) nt[k] = vf_ogd[k];
	vf_new.group_desc = p;
	vf_first_table = p;
	vf_rfs.old_fs = &vf_old;
	vf_rfs.new_fs = &vf_new;
	vf_rfs.flags = VF_FLAGS;

#if FL == 5
	ASSUME(IN.new_size != IN.blocks);
	rc = resize_group_descriptors(&vf_rfs, IN.new_size);
#else
	ASSUME(IN.new_size == IN.blocks);
	rc = resize_group_descriptors(&vf_rfs, ext2fs_blocks_count(&vf_nsb));
#endif

	want_flag = (CONV == 1) ? RESIZE_ENABLE_64BIT : RESIZE_DISABLE_64BIT;
	valid = IN.new_size == IN.blocks &&
		!((VF_FLAGS & RESIZE_ENABLE_64BIT) && (VF_FLAGS & RESIZE_DISABLE_64BIT));
	if (!(VF_FLAGS & (RESIZE_ENABLE_64BIT | RESIZE_DISABLE_64BIT))) {
		PROP(rc == 0 && vf_new.group_desc == vf_first_table && vf_nsb.s_feature_incompat == vf_osb.s_feature_incompat,
		     "no conversion flag: nothing is changed");
	} else if (!valid) {
		PROP(rc == EXT2_ET_INVALID_ARGUMENT, "a conversion combined with a size change (or both flags) is refused");
		PROP(vf_new.group_desc == vf_first_table && vf_nsb.s_feature_incompat == vf_osb.s_feature_incompat &&
		     vf_nsb.s_desc_size == vf_osb.s_desc_size, "refused conversion: nothing is changed");
	} else if (!(VF_FLAGS & want_flag)) {
		/* asked for the representation the file system already has (main() exits before; harmless here) */
		PROP(rc == 0 && vf_new.group_desc == vf_first_table, "conversion to the current representation: table untouched");
	} else {
		PROP(rc == 0, "conversion succeeds");
		PROP((ext2fs_has_feature_64bit(&vf_nsb) != 0) == (CONV == 1) && EXT2_DESC_SIZE(&vf_nsb) == NEW_DS,
		     "64bit feature and descriptor size switched");
		PROP(vf_new.desc_blocks == NEW_DB, "descriptor blocks = ceil(groups / descriptors per block)");
		PROP((void *) vf_new.group_desc != vf_first_table && vf_new.group_desc != vf_old.group_desc, "new_fs got a new table");
		nt = (unsigned char *) vf_new.group_desc;
		for (g = 0; g < NG; g++) {
			for (k = 0; k < 32; k++)
				PROP(nt[g * NEW_DS + k] == IN.gd[g * OLD_DS + k], "first 32 bytes of every descriptor carried over");
			for (k = 32; k < (int) NEW_DS; k++)
				PROP(nt[g * NEW_DS + k] == 0, "upper half of a new 64-byte descriptor is zero");
		}
		ASSUME(IN.zidx >= NG * NEW_DS && IN.zidx < NEW_DB * VF_BS);
		PROP(nt[IN.zidx] == 0, "descriptor blocks are zero behind the table");
		for (k = 0; k < (int) (NG * OLD_DS); k++)
			PROP(vf_ogd[k] == vf_ogd_copy[k], "the old handle's table is untouched");
		PROP(!vf_csum_bad, "checksums are recomputed on new_fs with the new table installed");
		for (g = 0; g < NG; g++)
			PROP(vf_csum_calls[g] == 1, "every group's checksum recomputed exactly once");
		/* accessor level, consistent old file system.  The converted table is first copied into a static array
		 * (same bytes; the heap pointer written by ext2fs_get_memzero()'s memcpy idiom makes CBMC keep the
		 * accessors' read-from-disk fallback for a NULL table: 12M variables) */
		for (k = 0; k < (int) (NG * NEW_DS); k++) vf_ntab[k] = nt[k];
		vf_new.group_desc = (struct opaque_ext2_group_desc *) vf_ntab;
		for (g = 0; g < NG; g++) {
			int consistent =
				ext2fs_block_bitmap_loc(&vf_old, g) < IN.blocks &&
				ext2fs_inode_bitmap_loc(&vf_old, g) < IN.blocks &&
				ext2fs_inode_table_loc(&vf_old, g) < IN.blocks &&
				ext2fs_bg_free_blocks_count(&vf_old, g) < 65536 &&
				ext2fs_bg_free_inodes_count(&vf_old, g) < 65536 &&
				ext2fs_bg_used_dirs_count(&vf_old, g) < 65536 &&
				ext2fs_bg_itable_unused(&vf_old, g) < 65536;
			if (consistent)
				PROP(ext2fs_block_bitmap_loc(&vf_new, g) == ext2fs_block_bitmap_loc(&vf_old, g) &&
				     ext2fs_inode_bitmap_loc(&vf_new, g) == ext2fs_inode_bitmap_loc(&vf_old, g) &&
				     ext2fs_inode_table_loc(&vf_new, g) == ext2fs_inode_table_loc(&vf_old, g) &&
				     ext2fs_bg_free_blocks_count(&vf_new, g) == ext2fs_bg_free_blocks_count(&vf_old, g) &&
				     ext2fs_bg_free_inodes_count(&vf_new, g) == ext2fs_bg_free_inodes_count(&vf_old, g) &&
				     ext2fs_bg_used_dirs_count(&vf_new, g) == ext2fs_bg_used_dirs_count(&vf_old, g) &&
				     ext2fs_bg_itable_unused(&vf_new, g) == ext2fs_bg_itable_unused(&vf_old, g) &&
				     ext2fs_bg_flags(&vf_new, g) == ext2fs_bg_flags(&vf_old, g),
				     "consistent group: every location, counter and flag reads the same after the conversion");
		}
		/* reserved GDT blocks keep the size of the descriptor region (resize_inode only) */
		{
			long want = (long) IN.rsv_gdt;
			if (IN.resize_inode && OLD_DB != NEW_DB) {
				want += (long) OLD_DB - (long) NEW_DB;
				if (want < 0) want = 0;
				if (want > (long) (VF_BS / 4)) want = VF_BS / 4;
			}
			PROP(vf_nsb.s_reserved_gdt_blocks == want,
			     "reserved GDT blocks absorb the change in descriptor blocks (clamped to 0..blocksize/4)");
		}
		PROP(vf_osb.s_reserved_gdt_blocks == IN.rsv_gdt && vf_osb.s_desc_size == ((CONV == 2) ? 64 : 0), "old superblock untouched");
	}
	VF_END();
	return 0;
}
