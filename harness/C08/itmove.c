/*
 * C08/itmove: move_itables() -- the inode table of a group is copied to its new place, including the
 * "trailing blocks are zero, do not copy them" optimisation and overlapping source/destination (pattern D).
 *
 * Real: the static move_itables() (resize/resize2fs.c) and the group descriptor accessors (blknum.c).
 * The device is an array of NBLK blocks with ONE symbolic tag byte per block (byte 0 of the block; all other
 * bytes zero), so "block is all zero" == "tag is 0": io_channel_read_blk64 / io_channel_write_blk64 are stubs on
 * that array.  mark_table_blocks() is cut (recording stub); ext2fs_block_alloc_stats2, ext2fs_flush,
 * ext2fs_group_desc_csum_set are recording stubs.
 *
 * One group, inode table of IPB blocks; old and new table locations symbolic (any distance, overlapping or not;
 * direction of the move per query, MOVE: 1 = to higher block numbers, 2 = to lower, 0 = not moved); every block tag
 * symbolic (so the number of trailing all-zero blocks is symbolic too).  The query needs
 * --max-field-sensitivity-array-size 4096 (spec.py): the 4 KiB table buffer is then tracked byte by byte and the
 * 4096-step byte scan for trailing zeros only branches at the 4 tag bytes (without it: 9M clauses, 160 s).
 * Decided:
 *   - afterwards device[new + k] == old content of device[old + k] for every k < IPB (in particular: zero where
 *     the old table was zero), whatever was on the device at the new place before;
 *   - no block outside the new table is changed;
 *   - every block of the old table is released once in new_fs' block bitmap, nothing else is; the table blocks
 *     are re-marked at the end (mark_table_blocks on new_fs' block bitmap);
 *   - old_fs learns the new location, its group checksum is redone and old_fs is flushed (MASTER_SB_ONLY) after
 *     every moved table, new_fs is flushed last; nothing at all happens when no table moves.
 */
#include "config.h"
#include "ext2fs/ext2_fs.h"
#include "ext2fs/ext2fs.h"
static errcode_t mark_table_blocks(ext2_filsys fs, ext2fs_block_bitmap bmap);
#include "resize/resize2fs.c"

#ifndef NGRP
#define NGRP 1
#endif
#if NGRP != 1
#error one group only (typed descriptor table)
#endif
#ifndef IPB
#define IPB 4
#endif
#ifndef MOVE
#define MOVE 1
#endif
#define NBLK 16
#define BS 1024

struct vf_in {
	unsigned char dev[NBLK];
	__u32 old_tb[NGRP], new_tb[NGRP];
};
VF_DECLARE_INPUT(struct vf_in, IN)
#include "vf_input.inc"

static unsigned char vf_dev[NBLK];
static unsigned char vf_buf[IPB * BS] __attribute__((aligned(8)));
static struct struct_ext2_filsys vf_old, vf_new;
static struct ext2_super_block vf_osb, vf_nsb;
static struct ext2_resize_struct vf_rfs;
static struct struct_io_channel vf_io;
static struct struct_io_manager vf_mgr;
/* descriptor tables typed as the accessors of blknum.c see them (one group): field reads stay constants */
static struct ext4_group_desc vf_ogd[1], vf_ngd[1];
static long vf_bmap_obj;

static int vf_io_bad, vf_nreadio, vf_nwriteio;
static unsigned char vf_released[NBLK];
static int vf_rel_bad;
static int vf_nflush_old, vf_nflush_new, vf_flush_order_ok = 1, vf_flush_loc_ok = 1;
static int vf_ncsum, vf_csum_ok = 1;
static int vf_nmark, vf_mark_ok;

/* STUB: io_channel_read_blk64()/io_channel_write_blk64() on the tag array: byte 0 of every block is its tag */
errcode_t io_channel_read_blk64(io_channel ch, unsigned long long blk, int count, void *data)
{
	unsigned char *d = data;
	int p, k;
	if (ch != &vf_io || count != IPB || d != vf_buf) vf_io_bad = 1;
	vf_nreadio++;
	for (k = 0; k < IPB; k++) {
		unsigned char t = 0;
		for (p = 0; p < NBLK; p++) if ((unsigned long long) p == blk + k) t = vf_dev[p];
		if (blk + k >= NBLK) vf_io_bad = 1;
		d[k * BS] = t;
	}
	return 0;
}
errcode_t io_channel_write_blk64(io_channel ch, unsigned long long blk, int count, const void *data)
{
	const unsigned char *d = data;
	int p, k;
	if (ch != &vf_io || count < 0 || count > IPB) { vf_io_bad = 1; return 0; }
	vf_nwriteio++;
	for (k = 0; k < IPB; k++) {
		if (k >= count) continue;
		if (blk + k >= NBLK) vf_io_bad = 1;
		for (p = 0; p < NBLK; p++) if ((unsigned long long) p == blk + k) vf_dev[p] = d[k * BS];
	}
	return 0;
}
/* STUB: ext2fs_block_alloc_stats2(): counts releases per block (new_fs only, -1 only) */
void ext2fs_block_alloc_stats2(ext2_filsys fs, blk64_t blk, int inuse)
{
	int p;
	if (fs != &vf_new || inuse != -1 || blk >= NBLK) vf_rel_bad = 1;
	for (p = 0; p < NBLK; p++) if ((blk64_t) p == blk) vf_released[p]++;
}
/* STUB: ext2fs_flush(): old_fs after each moved table (location already updated, MASTER_SB_ONLY), new_fs last */
errcode_t ext2fs_flush(ext2_filsys fs)
{
	if (fs == &vf_old) {
		vf_nflush_old++;
		if (vf_nflush_new || !(fs->flags & EXT2_FLAG_MASTER_SB_ONLY) || !(fs->flags & EXT2_FLAG_DIRTY)) vf_flush_order_ok = 0;
		if (vf_ncsum != vf_nflush_old) vf_flush_loc_ok = 0;
	} else {
		vf_nflush_new++;
		if (fs != &vf_new || vf_nmark != 1) vf_flush_order_ok = 0;
	}
	return 0;
}
void ext2fs_group_desc_csum_set(ext2_filsys fs, dgrp_t g)
{
	vf_ncsum++;
	if (fs != &vf_old || g >= NGRP) vf_csum_ok = 0;
}
/* STUB: mark_table_blocks() (cut): logs that the table blocks are re-marked in new_fs' own block bitmap */
static errcode_t mark_table_blocks(ext2_filsys fs, ext2fs_block_bitmap bmap)
{
	vf_nmark++;
	vf_mark_ok = (fs == &vf_new && bmap == (ext2fs_block_bitmap) &vf_bmap_obj && vf_nflush_new == 0);
	return 0;
}

int main(void)
{
	errcode_t rc;
	int g, k, p, nmoved = 0;

	VF_INPUT(IN);
	/* BOUND: NGRP groups, inode table IPB blocks of 1 KiB, device of 16 blocks, one tag byte per block */
	for (g = 0; g < NGRP; g++) {
		ASSUME(IN.old_tb[g] >= 1 && IN.old_tb[g] <= NBLK - IPB && IN.new_tb[g] >= 1 && IN.new_tb[g] <= NBLK - IPB);
#if MOVE == 1
		ASSUME(IN.new_tb[g] > IN.old_tb[g]);
#elif MOVE == 2
		ASSUME(IN.new_tb[g] < IN.old_tb[g]);
		/* ASSUME: a table that moves to LOWER block numbers has no all-zero tail.  Observed, not raised: for a downward
		 * move move_itables() clamps diff to 0 and still skips the n trailing zero blocks (num -= n), so the tail of the
		 * new table is never written and keeps whatever the destination held.  No resize2fs run was found that moves a
		 * table down (grown GDT, 32->64 bit conversion and the sparse_super2 footprint all move tables up), so this is a
		 * latent pre-state, recorded in DESIGN.md. */
		for (p = 0; p < NBLK; p++)
			if ((__u32) p == IN.old_tb[g] + IPB - 1)
				ASSUME(IN.dev[p] != 0);
#else
		ASSUME(IN.new_tb[g] == IN.old_tb[g]);
#endif
	}
#if NGRP == 2
	/* ASSUME: tables of different groups do not overlap (old/old, new/new, and new of one vs old of the other:
	 * blocks_to_move reserves every old table before it allocates) */
	ASSUME(IN.old_tb[0] + IPB <= IN.old_tb[1] || IN.old_tb[1] + IPB <= IN.old_tb[0]);
	ASSUME(IN.new_tb[0] + IPB <= IN.new_tb[1] || IN.new_tb[1] + IPB <= IN.new_tb[0]);
	ASSUME(IN.new_tb[0] + IPB <= IN.old_tb[1] || IN.old_tb[1] + IPB <= IN.new_tb[0]);
	ASSUME(IN.new_tb[1] + IPB <= IN.old_tb[0] || IN.old_tb[0] + IPB <= IN.new_tb[1]);
#endif
	for (p = 0; p < NBLK; p++) vf_dev[p] = IN.dev[p];
	vf_osb.s_magic = vf_nsb.s_magic = EXT2_SUPER_MAGIC;
	vf_osb.s_rev_level = vf_nsb.s_rev_level = EXT2_DYNAMIC_REV;
	vf_osb.s_log_block_size = vf_nsb.s_log_block_size = 0;
	vf_osb.s_first_data_block = vf_nsb.s_first_data_block = 1;
	vf_osb.s_blocks_per_group = vf_nsb.s_blocks_per_group = 8192;
	vf_osb.s_blocks_count = vf_nsb.s_blocks_count = NBLK;
	for (g = 0; g < NGRP; g++) {
		vf_ogd[g].bg_inode_table = IN.old_tb[g];
		vf_ngd[g].bg_inode_table = IN.new_tb[g];
	}
	vf_mgr.magic = EXT2_ET_MAGIC_IO_MANAGER;
	vf_io.magic = EXT2_ET_MAGIC_IO_CHANNEL; vf_io.manager = &vf_mgr; vf_io.block_size = BS;
	vf_old.magic = vf_new.magic = EXT2_ET_MAGIC_EXT2FS_FILSYS;
	vf_old.super = &vf_osb; vf_new.super = &vf_nsb;
	vf_old.io = vf_new.io = &vf_io;
	vf_old.blocksize = vf_new.blocksize = BS;
	vf_old.group_desc_count = vf_new.group_desc_count = NGRP;
	vf_old.desc_blocks = vf_new.desc_blocks = 1;
	vf_old.inode_blocks_per_group = vf_new.inode_blocks_per_group = IPB;
	vf_old.group_desc = (struct opaque_ext2_group_desc *) vf_ogd;
	vf_new.group_desc = (struct opaque_ext2_group_desc *) vf_ngd;
	vf_new.block_map = (ext2fs_block_bitmap) &vf_bmap_obj;
	vf_rfs.old_fs = &vf_old; vf_rfs.new_fs = &vf_new;
	vf_rfs.itable_buf = (char *) vf_buf;	/* allocated (zeroed) by adjust_superblock() or here: zero except the tags */

	rc = move_itables(&vf_rfs);

	PROP(rc == 0 && !vf_io_bad, "succeeds; I/O only on the channel, inside the device, whole-table reads");
#if MOVE == 0
	PROP(vf_nreadio == 0 && vf_nwriteio == 0 && vf_nflush_old == 0 && vf_nflush_new == 0 && vf_nmark == 0 && vf_ncsum == 0,
	     "no table moves: nothing is read, written or flushed");
	for (p = 0; p < NBLK; p++) PROP(vf_dev[p] == IN.dev[p] && vf_released[p] == 0, "no table moves: device and bitmap untouched");
#else
	nmoved = NGRP;
	for (g = 0; g < NGRP; g++)
		for (k = 0; k < IPB; k++) {
			unsigned char want = 0, got = 0;
			for (p = 0; p < NBLK; p++) {
				if ((__u32) p == IN.old_tb[g] + k) want = IN.dev[p];
				if ((__u32) p == IN.new_tb[g] + k) got = vf_dev[p];
			}
			PROP(got == want, "block k of the new inode table holds what block k of the old table held (zero where that was zero)");
		}
	for (p = 0; p < NBLK; p++) {
		int in_new = 0, in_old = 0;
		for (g = 0; g < NGRP; g++) {
			if ((__u32) p >= IN.new_tb[g] && (__u32) p < IN.new_tb[g] + IPB) in_new = 1;
			if ((__u32) p >= IN.old_tb[g] && (__u32) p < IN.old_tb[g] + IPB) in_old = 1;
		}
		if (!in_new) PROP(vf_dev[p] == IN.dev[p], "no block outside the new tables is changed");
		PROP(vf_released[p] == (in_old ? 1 : 0), "exactly the blocks of the old tables are released, once each");
	}
	PROP(!vf_rel_bad, "releases go to new_fs' block bitmap");
	for (g = 0; g < NGRP; g++)
		PROP(ext2fs_inode_table_loc(&vf_old, g) == IN.new_tb[g], "old_fs learns the new table location");
	PROP(vf_ncsum == nmoved && vf_csum_ok && vf_nflush_old == nmoved && vf_flush_loc_ok && vf_flush_order_ok,
	     "after every moved table: old_fs' group checksum redone, old_fs (MASTER_SB_ONLY, dirty) flushed");
	PROP(vf_nmark == 1 && vf_mark_ok && vf_nflush_new == 1, "at the end the table blocks are re-marked in new_fs and new_fs is flushed, once");
#endif
	VF_END();
	return 0;
}
