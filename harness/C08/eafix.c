/*
 * C08/eafix: rewriting of EA-inode references after inodes were renumbered (pattern D).
 *
 * Real: the static fix_ea_block_entries() and fix_ea_entries() (resize/resize2fs.c; fix_ea_inode_refs() calls them for
 * every in-use inode's EA block and in-inode EA area) and the real inode map (resize/extent.c: create + 2 adds +
 * translate).  An extended-attribute entry with e_value_inum != 0 keeps its value in the EA inode of that number;
 * inodes above last_ino (= the new s_inodes_count) were renumbered by inode_scan_and_fix() and are in the map, inodes
 * up to and including last_ino keep their number and are NOT in the map.
 *
 * EA block of 64 bytes: header, 1 or 2 entries (name length NLEN, concrete, so entry positions are concrete; every
 * other field symbolic), terminator.  Decided for every entry:
 *   - e_value_inum <= last_ino (including == last_ino, and 0 = value stored inline): untouched;
 *   - e_value_inum > last_ino: becomes exactly the mapped inode number;
 *   - nothing but e_value_inum of such entries changes (header, names, other fields, terminator, bytes behind it);
 *   - the function reports "modified" iff at least one reference was rewritten (the caller writes the block back then).
 */
#include "resize/resize2fs.c"

#ifndef NLEN
#define NLEN 3
#endif
#define ELEN ((NLEN + 3 + 16) & ~3)
#define BUFSZ 96
#if NLEN > 8
#error NLEN
#endif

struct vf_ent { unsigned char name_index; __u16 value_offs; __u32 inum, value_size, hash; unsigned char name[NLEN]; };
struct vf_in {
	struct vf_ent e[2];
	unsigned char two;
	unsigned char hdr[32], tail[BUFSZ - 32 - 2 * ELEN - 4];
	__u32 last_ino, m_old[2], m_new[2];
};
VF_DECLARE_INPUT(struct vf_in, IN)
#include "vf_input.inc"

static unsigned char vf_buf[BUFSZ] __attribute__((aligned(8)));
static unsigned char vf_ref[BUFSZ];

static void vf_put(unsigned char *b, int off, const struct vf_ent *e)
{
	int k;
	b[off + 0] = NLEN; b[off + 1] = e->name_index;
	b[off + 2] = (unsigned char) e->value_offs; b[off + 3] = (unsigned char) (e->value_offs >> 8);
	for (k = 0; k < 4; k++) {
		b[off + 4 + k] = (unsigned char) (e->inum >> (8 * k));
		b[off + 8 + k] = (unsigned char) (e->value_size >> (8 * k));
		b[off + 12 + k] = (unsigned char) (e->hash >> (8 * k));
	}
	for (k = 0; k < NLEN; k++) b[off + 16 + k] = e->name[k];
}
static __u32 ref_map(__u32 ino)
{
	if (ino == IN.m_old[0]) return IN.m_new[0];
	if (ino == IN.m_old[1]) return IN.m_new[1];
	return 0;
}

int main(void)
{
	ext2_extent imap = 0;
	errcode_t rc;
	int k, n, modified, want_mod = 0;

	VF_INPUT(IN);
	/* BOUND: EA block of 96 bytes: 32-byte header, 1..2 entries with names of NLEN bytes, terminator, arbitrary bytes behind */
	ASSUME(IN.two <= 1 && IN.last_ino >= 11 && IN.last_ino < 0x7ffffff0);
	/* ASSUME: inode map as inode_scan_and_fix builds it: exactly the renumbered inodes (old number > last_ino), ascending,
	 * mapped to surviving numbers 1..last_ino */
	ASSUME(IN.m_old[0] > IN.last_ino && IN.m_old[0] < IN.m_old[1] && IN.m_old[1] < 0x7fffffff);
	ASSUME(IN.m_new[0] >= 1 && IN.m_new[0] <= IN.last_ino && IN.m_new[1] >= 1 && IN.m_new[1] <= IN.last_ino);
	n = 1 + IN.two;
	/* ASSUME: consistent file system: a reference above last_ino names an inode that existed and was therefore renumbered
	 * (OUTSIDE: a dangling reference above last_ino is set to 0 by the code and reported as modified -- not asserted) */
	for (k = 0; k < 2; k++)
		if (k < n && IN.e[k].inum > IN.last_ino) ASSUME(ref_map(IN.e[k].inum) != 0);

	for (k = 0; k < 32; k++) vf_buf[k] = IN.hdr[k];
	vf_put(vf_buf, 32, &IN.e[0]);
	if (IN.two) vf_put(vf_buf, 32 + ELEN, &IN.e[1]);
	/* terminator: four zero bytes right behind the last entry; the rest of the buffer arbitrary */
	for (k = 0; k < (int) sizeof(IN.tail); k++) vf_buf[32 + 2 * ELEN + 4 + k] = IN.tail[k];
	if (!IN.two)	/* the unused second slot: zero (terminator first) */
		for (k = 0; k < ELEN + 4; k++) vf_buf[32 + ELEN + k] = 0;
	for (k = 0; k < BUFSZ; k++) vf_ref[k] = vf_buf[k];

	rc = ext2fs_create_extent_table(&imap, 2);
	ASSUME(rc == 0);
	ext2fs_add_extent_entry(imap, IN.m_old[0], IN.m_new[0]);
	ext2fs_add_extent_entry(imap, IN.m_old[1], IN.m_new[1]);

	modified = fix_ea_block_entries(imap, (char *) vf_buf, BUFSZ, IN.last_ino);

	for (k = 0; k < 2; k++) {
		int off = 32 + k * ELEN, j;
		__u32 got;
		if (k >= n) continue;
		got = vf_buf[off + 4] | (vf_buf[off + 5] << 8) | (vf_buf[off + 6] << 16) | ((__u32) vf_buf[off + 7] << 24);
		if (IN.e[k].inum > IN.last_ino) {
			PROP(got == ref_map(IN.e[k].inum), "reference to a renumbered EA inode (> last_ino) becomes exactly the mapped inode number");
			want_mod = 1;
		} else
			PROP(got == IN.e[k].inum, "reference to a surviving inode (<= last_ino, last_ino itself included) or an inline value (0) is untouched");
		/* write the expected number into the reference copy so that everything else can be compared bytewise */
		for (j = 0; j < 4; j++) vf_ref[off + 4 + j] = vf_buf[off + 4 + j];
	}
	for (k = 0; k < BUFSZ; k++)
		PROP(vf_buf[k] == vf_ref[k], "nothing but e_value_inum of the entries changes (header, names, other fields, terminator, bytes behind)");
	PROP((modified != 0) == want_mod, "reports modified iff a reference was rewritten");
	ext2fs_free_extent_table(imap);
	VF_END();
	return 0;
}
