/*
 * C08/bbmove: block_mover() -- planning and copying of the blocks that must leave, and the bad-blocks inode
 * protocol (patterns P + D).
 *
 * Real: the static block_mover(), get_new_block(), init_block_alloc() (resize/resize2fs.c).  Stubbed: the relocation table
 * (a list model without run coalescing: create / add / iterate / free; the real one is decided in harness extent), the bitmap layer (bytemap.h, one byte per
 * block), the bad-blocks list (a 2-slot list model: read / test / del / free / ext2fs_update_bb_inode recorded with a
 * symbolic result), ext2fs_block_alloc_stats2 (sets the bit), block I/O (records which block is copied where).
 *
 * Old file system 2 groups x 4 blocks shrinks to 1 group (new size 5); in-use set, move set, reserve set below the new
 * end, 0..2 bad blocks anywhere: symbolic.
 * Decided:
 *   - on EVERY path that returns 0: if a bad block was dropped from the list (it was in use and scheduled for moving)
 *     then ext2fs_update_bb_inode(old_fs, list) ran exactly once, after the last deletion, with the dropped blocks gone
 *     and the others kept -- including the path where no block had to be copied; otherwise it did not run;
 *     the list then names no block beyond the new end; the list is released exactly once on every path, after the update;
 *   - a block is copied iff it is in use, scheduled for moving and not bad; each such block once, to a distinct block
 *     inside the new size that was free in new_fs, not reserved, and is marked in use in new_fs afterwards; reads and
 *     writes pair up; nothing is copied and the map is dropped when nothing has to move; ENOSPC only when no such
 *     target is left.
 */
#include "resize/resize2fs.c"

#define BPG 4
#define ITB 2
#define OLD_SIZE (1 + 2 * BPG)
#define NEW_SIZE (1 + BPG)
#define NB OLD_SIZE

struct vf_in {
	unsigned char inuse[NB], move[NB], rsv[NB];
	__u32 nbb, bb[2];
	int upd_err;
};
VF_DECLARE_INPUT(struct vf_in, IN)
#include "vf_input.inc"

/* STUB: bitmap layer: one byte per block, see bytemap.h (mark / unmark / test / range / allocate / free) */
#include "bytemap.h"

static struct struct_ext2_filsys vf_old, vf_new;
static struct ext2_super_block vf_osb, vf_nsb;
static struct ext2_resize_struct vf_rfs;
static struct struct_io_channel vf_io;
static struct struct_io_manager vf_mgr;
static unsigned char vf_tbuf[ITB * 1024];

/* ---- bad-blocks list model */
static struct { __u32 blk[2]; unsigned char live[2]; } vf_bbl;
static int vf_bb_read, vf_bb_freed, vf_ndel, vf_nupd, vf_upd_ok, vf_upd_after_free, vf_del_after_upd;
static unsigned char vf_upd_live[2];
/* STUB: ext2fs_read_bb_inode / ext2fs_badblocks_list_test / _del / _free / ext2fs_update_bb_inode on the 2-slot model */
errcode_t ext2fs_read_bb_inode(ext2_filsys fs, ext2_badblocks_list *l)
{
	if (fs != &vf_old) vf_oob = 1;
	vf_bb_read++;
	*l = (ext2_badblocks_list) &vf_bbl;
	return 0;
}
int ext2fs_badblocks_list_test(ext2_badblocks_list l, blk_t b)
{
	(void) l;
	return (vf_bbl.live[0] && vf_bbl.blk[0] == b) || (vf_bbl.live[1] && vf_bbl.blk[1] == b);
}
void ext2fs_badblocks_list_del(ext2_u32_list l, __u32 b)
{
	(void) l;
	vf_ndel++;
	if (vf_nupd) vf_del_after_upd = 1;
	if (vf_bbl.live[0] && vf_bbl.blk[0] == b) vf_bbl.live[0] = 0;
	if (vf_bbl.live[1] && vf_bbl.blk[1] == b) vf_bbl.live[1] = 0;
}
errcode_t ext2fs_update_bb_inode(ext2_filsys fs, ext2_badblocks_list l)
{
	vf_nupd++;
	vf_upd_ok = (fs == &vf_old && l == (ext2_badblocks_list) &vf_bbl);
	if (vf_bb_freed) vf_upd_after_free = 1;
	vf_upd_live[0] = vf_bbl.live[0]; vf_upd_live[1] = vf_bbl.live[1];
	return (errcode_t) IN.upd_err;
}
void ext2fs_badblocks_list_free(ext2_badblocks_list l) { (void) l; vf_bb_freed++; }

/* STUB: relocation table as a list model (no coalescing): ext2fs_create_extent_table / _add_extent_entry / _iterate_extent / _free */
#define NX NB
static struct { __u64 o[NX], n[NX]; int num, cur, live, freed; } vf_xt;
errcode_t ext2fs_create_extent_table(ext2_extent *ret, __u64 size)
{
	(void) size;
	vf_xt.num = 0; vf_xt.cur = 0; vf_xt.live = 1;
	*ret = (ext2_extent) &vf_xt;
	return 0;
}
void ext2fs_free_extent_table(ext2_extent e) { (void) e; vf_xt.freed++; vf_xt.live = 0; }
errcode_t ext2fs_add_extent_entry(ext2_extent e, __u64 o, __u64 n)
{
	int k;
	if (e != (ext2_extent) &vf_xt || !vf_xt.live || vf_xt.num >= NX) { vf_oob = 1; return 0; }
	for (k = 0; k < NX; k++) if (k == vf_xt.num) { vf_xt.o[k] = o; vf_xt.n[k] = n; }
	vf_xt.num++;
	return 0;
}
errcode_t ext2fs_iterate_extent(ext2_extent e, __u64 *o, __u64 *n, __u64 *sz)
{
	int k;
	if (e != (ext2_extent) &vf_xt || !vf_xt.live) vf_oob = 1;
	if (!o) { vf_xt.cur = 0; return 0; }
	*o = *n = *sz = 0;
	for (k = 0; k < NX; k++)
		if (k == vf_xt.cur && k < vf_xt.num) { *o = vf_xt.o[k]; *n = vf_xt.n[k]; *sz = 1; }
	if (vf_xt.cur < vf_xt.num) vf_xt.cur++;
	return 0;
}

/* STUB: ext2fs_block_alloc_stats2(): sets the bit in fs->block_map */
void ext2fs_block_alloc_stats2(ext2_filsys fs, blk64_t blk, int inuse)
{
	if (fs != &vf_new || inuse != 1) vf_oob = 1;
	ext2fs_mark_generic_bmap((ext2fs_generic_bitmap) fs->block_map, blk);
}
/* STUB: block I/O: a read of c blocks must be followed by the write of the same c blocks; records source -> target */
static unsigned long long vf_rd_blk; static int vf_rd_cnt = -1, vf_io_bad, vf_nflush;
static unsigned char vf_target[NB], vf_ncopied[NB];
errcode_t io_channel_read_blk64(io_channel ch, unsigned long long blk, int count, void *data)
{
	if (ch != &vf_io || data != vf_tbuf || count < 1 || count > ITB || vf_rd_cnt != -1) vf_io_bad = 1;
	vf_rd_blk = blk; vf_rd_cnt = count;
	return 0;
}
errcode_t io_channel_write_blk64(io_channel ch, unsigned long long blk, int count, const void *data)
{
	int p, k;
	if (ch != &vf_io || data != vf_tbuf || count != vf_rd_cnt) vf_io_bad = 1;
	for (k = 0; k < ITB; k++) {
		if (k >= count) continue;
		if (vf_rd_blk + k >= NB || blk + k >= NB) vf_io_bad = 1;
		for (p = 0; p < NB; p++)
			if ((unsigned long long) p == vf_rd_blk + k) { vf_ncopied[p]++; vf_target[p] = (unsigned char) (blk + k); }
	}
	vf_rd_cnt = -1;
	return 0;
}
errcode_t stub_io_flush(io_channel c) { (void) c; vf_nflush++; return 0; }

static int ref_is_bad(int p) { return (IN.nbb >= 1 && IN.bb[0] == (__u32) p) || (IN.nbb >= 2 && IN.bb[1] == (__u32) p); }

int main(void)
{
	errcode_t rc;
	int p, q, ndrop = 0, nmove = 0, nfree = 0;

	VF_INPUT(IN);
	/* BOUND: 2 groups x 4 blocks -> 1 group, 1 KiB blocks, 0..2 bad blocks, no bigalloc, no progress hook */
	ASSUME(IN.upd_err != ENOSPC);
	ASSUME(IN.nbb <= 2 && IN.bb[0] >= 1 && IN.bb[0] < NB && IN.bb[1] >= 1 && IN.bb[1] < NB && IN.bb[0] != IN.bb[1]);
	for (p = 0; p < NB; p++) ASSUME(IN.inuse[p] <= 1 && IN.move[p] <= 1 && IN.rsv[p] <= 1);
	/* ASSUME: bad blocks belong to inode 1, so they are in use; blocks_to_move() (harness blkmove) schedules every in-use
	 * non-metadata block beyond the new end for moving and reserves everything beyond the new end */
	for (p = 0; p < NB; p++) {
		if (ref_is_bad(p)) ASSUME(IN.inuse[p]);
		if (p >= NEW_SIZE && ref_is_bad(p)) ASSUME(IN.move[p]);
	}
	for (p = 0; p < NB; p++) {
		vf_oldmap.bit[p] = IN.inuse[p];
		vf_newmap.bit[p] = (p < NEW_SIZE) ? IN.inuse[p] : 0;
		vf_reserve.bit[p] = (p >= NEW_SIZE) ? 1 : IN.rsv[p];
		vf_work[0].bit[p] = IN.move[p];
	}
	vf_bbl.blk[0] = IN.bb[0]; vf_bbl.blk[1] = IN.bb[1];
	vf_bbl.live[0] = IN.nbb >= 1; vf_bbl.live[1] = IN.nbb >= 2;
	vf_osb.s_magic = vf_nsb.s_magic = EXT2_SUPER_MAGIC;
	vf_osb.s_rev_level = vf_nsb.s_rev_level = EXT2_DYNAMIC_REV;
	vf_osb.s_first_data_block = vf_nsb.s_first_data_block = 1;
	vf_osb.s_blocks_per_group = vf_nsb.s_blocks_per_group = BPG;
	vf_osb.s_blocks_count = OLD_SIZE; vf_nsb.s_blocks_count = NEW_SIZE;
	vf_mgr.magic = EXT2_ET_MAGIC_IO_MANAGER; vf_mgr.flush = stub_io_flush;
	vf_io.magic = EXT2_ET_MAGIC_IO_CHANNEL; vf_io.manager = &vf_mgr;
	vf_old.magic = vf_new.magic = EXT2_ET_MAGIC_EXT2FS_FILSYS;
	vf_old.super = &vf_osb; vf_new.super = &vf_nsb;
	vf_old.io = vf_new.io = &vf_io;
	vf_old.blocksize = vf_new.blocksize = 1024;
	vf_old.inode_blocks_per_group = vf_new.inode_blocks_per_group = ITB;
	vf_old.block_map = (ext2fs_block_bitmap) &vf_oldmap;
	vf_new.block_map = (ext2fs_block_bitmap) &vf_newmap;
	vf_rfs.old_fs = &vf_old; vf_rfs.new_fs = &vf_new;
	vf_rfs.reserve_blocks = (ext2fs_block_bitmap) &vf_reserve;
	vf_rfs.move_blocks = (ext2fs_block_bitmap) &vf_work[0];
	vf_rfs.itable_buf = (char *) vf_tbuf;

	rc = block_mover(&vf_rfs);

	for (p = 1; p < NB; p++) {
		if (IN.inuse[p] && IN.move[p]) { if (ref_is_bad(p)) ndrop++; else nmove++; }
		if (p < NEW_SIZE && !IN.inuse[p] && !IN.rsv[p]) nfree++;
	}
	PROP(!vf_oob && !vf_io_bad && vf_bb_read == 1, "bitmap / bad-block / I/O calls well formed; reads and writes pair up");
	PROP(vf_bb_freed == 1 && !vf_upd_after_free, "the bad-blocks list is released exactly once on every path, never used afterwards");
	PROP(rc == 0 || rc == ENOSPC || (rc == (errcode_t) IN.upd_err && vf_nupd == 1), "only the documented errors");
	PROP(!vf_del_after_upd && vf_ndel <= ndrop, "only in-use bad blocks scheduled for moving are dropped from the list, before it is written back");
	if (rc != ENOSPC)
		PROP(vf_ndel == ndrop, "every in-use bad block scheduled for moving is dropped from the list");
	if (rc == 0 || (rc != ENOSPC && vf_nupd == 1)) {
		if (ndrop)
			PROP(vf_nupd == 1 && vf_upd_ok, "a bad block was dropped: the bad-blocks inode is rewritten exactly once from the updated list (also when nothing else moves)");
		else
			PROP(vf_nupd == 0, "no bad block dropped: the bad-blocks inode is not rewritten");
		if (vf_nupd) {
			PROP(!(vf_upd_live[0] && IN.bb[0] >= NEW_SIZE) && !(vf_upd_live[1] && IN.bb[1] >= NEW_SIZE),
			     "the list written back names no block beyond the new end");
			PROP(vf_upd_live[0] == (IN.nbb >= 1 && !(IN.inuse[IN.bb[0] % NB] && IN.move[IN.bb[0] % NB])) &&
			     vf_upd_live[1] == (IN.nbb >= 2 && !(IN.inuse[IN.bb[1] % NB] && IN.move[IN.bb[1] % NB])),
			     "the list written back keeps every bad block that stays");
		}
	}
	if (rc == ENOSPC) {
		PROP(nmove > nfree, "ENOSPC only when the blocks to move outnumber the free unreserved blocks inside the new size");
		PROP(vf_nupd == 0, "no rewrite of the bad-blocks inode on an aborted run");
	} else {
		PROP(nmove <= nfree, "enough free blocks: no ENOSPC");
		for (p = 1; p < NB; p++) {
			int should = IN.inuse[p] && IN.move[p] && !ref_is_bad(p);
			PROP(vf_ncopied[p] == (should ? 1 : 0), "a block is copied iff in use, scheduled for moving and not bad; exactly once");
			if (should) {
				int t = vf_target[p];
				PROP(t >= 1 && t < NEW_SIZE, "target lies inside the new size");
				for (q = 0; q < NB; q++)
					if (q == t) PROP(!IN.inuse[q] && !IN.rsv[q] && vf_newmap.bit[q] == 1, "target was free in new_fs and not reserved; now in use");
				for (q = 1; q < p; q++)
					if (IN.inuse[q] && IN.move[q] && !ref_is_bad(q)) PROP(vf_target[q] != t, "targets are pairwise distinct");
			}
		}
		if (nmove == 0)
			PROP(vf_rfs.bmap == 0 && vf_xt.freed == 1 && vf_nflush == 0, "nothing to move: block map dropped, nothing copied or flushed");
		else
			PROP(vf_rfs.bmap != 0 && vf_xt.freed == 0 && vf_nflush == 1, "blocks moved: block map kept for inode_scan_and_fix, channel flushed");
	}
	VF_END();
	return 0;
}
