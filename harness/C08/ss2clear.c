/*
 * C08/ss2clear: clear_sparse_super2_last_group() -- giving back the backup superblock and descriptor blocks of the
 * group that STOPS being the last group (and therefore a backup group) when a sparse_super2 file system grows
 * (pattern D).  Companion of ss2reserve (the shrink direction).
 *
 * Real: the static clear_sparse_super2_last_group() (resize/resize2fs.c), ext2fs_super_and_bgd_loc2() and
 * ext2fs_bg_has_super() (closefs.c), blknum.c.  Stubbed: the bitmap layer (bytemap.h, one byte per block).
 *
 * Reference (on-disk format): a backup group starts with 1 superblock block + desc_blocks + s_reserved_gdt_blocks of
 * the OLD file system.  Decided, OLDG -> NEWG groups of 16 blocks, everything else symbolic:
 *   - the function acts iff sparse_super2 is on, the group count grows, the old last group was a backup group of the
 *     old file system and is none of the new one; otherwise NOTHING changes;
 *   - when it acts: exactly that footprint becomes free in new_fs' block bitmap; NO block outside it changes -- in
 *     particular the block right behind the descriptor area (the group's block bitmap without flex_bg, or file data)
 *     stays in use.
 */
#include "resize/resize2fs.c"

#ifndef OLDG
#define OLDG 2
#endif
#ifndef NEWG
#define NEWG 3
#endif
#define BPG 16
#define ITB 2
#define OLD_SIZE (1 + OLDG * BPG)
#define NEW_SIZE (1 + NEWG * BPG)
#define NB (NEW_SIZE > OLD_SIZE ? NEW_SIZE : OLD_SIZE)
#define OLAST (OLDG - 1)
#define OLAST_FIRST (1 + OLAST * BPG)

struct vf_in {
	unsigned char inuse[NB];
	__u32 ondb, onrsv;
	unsigned char sparse2;
	__u32 obk[2], nbk[2];
};
VF_DECLARE_INPUT(struct vf_in, IN)
#include "vf_input.inc"

/* STUB: bitmap layer: one byte per block, see bytemap.h */
#include "bytemap.h"
void ext2fs_unmark_block_bitmap_range2(ext2fs_block_bitmap b, blk64_t blk, unsigned int num)
{
	unsigned int k;
	for (k = 0; k < 8; k++) if (k < num) ext2fs_unmark_generic_bmap(b, blk + k);
	if (num > 8) vf_oob = 1;
}
#ifndef VF_REPLAY
char *gettext(const char *m) { return (char *) m; }
#endif

static struct struct_ext2_filsys vf_old, vf_new;
static struct ext2_super_block vf_osb, vf_nsb;
static struct ext2_resize_struct vf_rfs;

int main(void)
{
	errcode_t rc;
	int p, act;
	__u32 foot;

	VF_INPUT(IN);
	/* BOUND: OLDG -> NEWG groups x 16 blocks, 1 KiB blocks, descriptor blocks 1..2, reserved GDT 0..2, no meta_bg / bigalloc */
	ASSUME(IN.sparse2 <= 1 && IN.ondb >= 1 && IN.ondb <= 2 && IN.onrsv <= 2);
	for (p = 0; p < NB; p++) ASSUME(IN.inuse[p] <= 1);
	ASSUME(IN.obk[0] < OLDG && IN.obk[1] < OLDG && IN.nbk[0] < NEWG && IN.nbk[1] < NEWG);
	foot = 1 + IN.ondb + IN.onrsv;

	vf_osb.s_magic = vf_nsb.s_magic = EXT2_SUPER_MAGIC;
	vf_osb.s_rev_level = vf_nsb.s_rev_level = EXT2_DYNAMIC_REV;
	vf_osb.s_first_data_block = vf_nsb.s_first_data_block = 1;
	vf_osb.s_blocks_per_group = vf_nsb.s_blocks_per_group = BPG;
	vf_osb.s_clusters_per_group = vf_nsb.s_clusters_per_group = BPG;
	vf_osb.s_blocks_count = OLD_SIZE; vf_nsb.s_blocks_count = NEW_SIZE;
	vf_osb.s_reserved_gdt_blocks = vf_nsb.s_reserved_gdt_blocks = IN.onrsv;
	vf_osb.s_feature_compat = vf_nsb.s_feature_compat = IN.sparse2 ? EXT4_FEATURE_COMPAT_SPARSE_SUPER2 : 0;
	vf_osb.s_feature_ro_compat = vf_nsb.s_feature_ro_compat = EXT2_FEATURE_RO_COMPAT_SPARSE_SUPER;
	vf_osb.s_backup_bgs[0] = IN.obk[0]; vf_osb.s_backup_bgs[1] = IN.obk[1];
	vf_nsb.s_backup_bgs[0] = IN.nbk[0]; vf_nsb.s_backup_bgs[1] = IN.nbk[1];
	for (p = 0; p < NB; p++)
		vf_newmap.bit[p] = IN.inuse[p];
	vf_old.magic = vf_new.magic = EXT2_ET_MAGIC_EXT2FS_FILSYS;
	vf_old.super = &vf_osb; vf_new.super = &vf_nsb;
	vf_old.blocksize = vf_new.blocksize = 1024;
	vf_old.group_desc_count = OLDG; vf_new.group_desc_count = NEWG;
	vf_old.desc_blocks = IN.ondb; vf_new.desc_blocks = IN.ondb;
	vf_old.inode_blocks_per_group = vf_new.inode_blocks_per_group = ITB;
	vf_new.block_map = (ext2fs_block_bitmap) &vf_newmap;
	vf_rfs.old_fs = &vf_old; vf_rfs.new_fs = &vf_new;

	rc = clear_sparse_super2_last_group(&vf_rfs);

	PROP(rc == 0 && !vf_oob, "succeeds, no bitmap access outside the file system");
	/* reference: the old last group was a backup group and is none any more (group 0 is never given back) */
	act = IN.sparse2 && NEWG > OLDG && OLAST != 0 &&
		(IN.obk[0] == OLAST || IN.obk[1] == OLAST) && !(IN.nbk[0] == OLAST || IN.nbk[1] == OLAST);
	for (p = 0; p < NB; p++) {
		int infoot = act && p >= OLAST_FIRST && (__u32) p < OLAST_FIRST + foot;
		if (infoot)
			PROP(vf_newmap.bit[p] == 0, "footprint of the former backup group (superblock + descriptors + reserved GDT) is free again");
		else
			PROP(vf_newmap.bit[p] == IN.inuse[p], "no block outside the former backup footprint changes (the block behind the descriptor area stays in use)");
	}
	VF_END();
	return 0;
}
