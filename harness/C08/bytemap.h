/*
 * bytemap.h -- byte-per-block stand-in for the libext2fs bitmap layer, shared by blkmove.c and ss2reserve.c.
 * The real inline wrappers (ext2fs_mark_block_bitmap2 ...) end in the generic functions defined here.
 * Needs NB (number of blocks) and ITB (inode table blocks) defined by the including harness.
 */
/* ---- byte-per-block bitmaps behind the real inline wrappers */
struct vf_bm { unsigned char bit[NB]; int live, freed; ext2_filsys fs; };
static struct vf_bm vf_oldmap, vf_newmap, vf_reserve, vf_work[3];
static int vf_nwork, vf_oob;
#define BM(x) ((struct vf_bm *) (x))

/* STUB: generic bitmap mark/unmark/test/range/allocate/free: one byte per block, out-of-range access flagged */
int ext2fs_mark_generic_bmap(ext2fs_generic_bitmap b, blk64_t n)
{
	int p, old = 0;
	if (n >= NB) { vf_oob = 1; return 0; }
	for (p = 0; p < NB; p++) if ((blk64_t) p == n) { old = BM(b)->bit[p]; BM(b)->bit[p] = 1; }
	return old;
}
int ext2fs_unmark_generic_bmap(ext2fs_generic_bitmap b, blk64_t n)
{
	int p, old = 0;
	if (n >= NB) { vf_oob = 1; return 0; }
	for (p = 0; p < NB; p++) if ((blk64_t) p == n) { old = BM(b)->bit[p]; BM(b)->bit[p] = 0; }
	return old;
}
int ext2fs_test_generic_bmap(ext2fs_generic_bitmap b, blk64_t n)
{
	int p, r = 0;
	if (n >= NB) { vf_oob = 1; return 0; }
	for (p = 0; p < NB; p++) if ((blk64_t) p == n) r = BM(b)->bit[p];
	return r;
}
void ext2fs_mark_block_bitmap_range2(ext2fs_block_bitmap b, blk64_t blk, unsigned int num)
{
	unsigned int k;
	for (k = 0; k < ITB + 3; k++) if (k < num) ext2fs_mark_generic_bmap(b, blk + k);
}
errcode_t ext2fs_allocate_block_bitmap(ext2_filsys fs, const char *descr, ext2fs_block_bitmap *ret)
{
	(void) descr;
	if (vf_nwork >= 3) { vf_oob = 1; return EXT2_ET_NO_MEMORY; }
	vf_work[vf_nwork].live = 1;
	vf_work[vf_nwork].fs = fs;
	*ret = (ext2fs_block_bitmap) &vf_work[vf_nwork++];
	return 0;
}
void ext2fs_free_block_bitmap(ext2fs_block_bitmap b) { BM(b)->freed++; }

