/*
 * C08/blkmove: blocks_to_move() -- which blocks must be evacuated, and the protocol around the sparse_super2
 * backup group (patterns P + D).
 *
 * The real static blocks_to_move() and mark_fs_metablock() (resize/resize2fs.c), the real group descriptor
 * accessors and group arithmetic (lib/ext2fs/blknum.c) and the real ext2fs_bg_has_super() (closefs.c).
 * The bitmap layer is replaced by byte-per-block bitmaps (mark / unmark / test / range, allocate, free) so that
 * every bit the function sets can be inspected; mark_table_blocks() and reserve_sparse_super2_last_group() are
 * cut (run.py cut_statics) and replaced by recording stubs; ext2fs_allocate_group_table() and
 * ext2fs_block_alloc_stats2() are stubs with their documented effect.
 *
 * Geometry: OLDG -> NEWG groups of BPG (16) blocks (concrete per query), 1 KiB blocks.  Symbolic: which old blocks are
 * in use, which are metadata, every group's bitmap / inode-table location and flags, descriptor-block counts and
 * reserved GDT blocks of both file systems (all three branches: unchanged, fewer, more descriptor blocks),
 * sparse_super / sparse_super2 + backup groups, group-descriptor checksums.
 *
 * Decided on every path that returns 0:
 *   - reserve_sparse_super2_last_group() has been called exactly once, with the metadata bitmap built from
 *     old_fs, after the blocks beyond the new end were processed -- INCLUDING the early exit taken when the
 *     descriptor area keeps its size;
 *   - both work bitmaps are allocated on the larger of the two file systems; the metadata bitmap is released;
 *   - shrink: every block beyond the new end (group not BLOCK_UNINIT) is reserved; it is scheduled for moving iff
 *     it is in use and not metadata; needed_blocks counts exactly those; bitmaps / inode tables of surviving groups
 *     that lie beyond the new end are re-allocated inside the new size;
 *   - descriptor area unchanged: nothing else is marked, new_fs' block bitmap untouched;
 *   - fewer descriptor blocks: exactly the surplus descriptor blocks of every backup group are released in new_fs;
 *   - no bitmap access outside the file system.
 */
#include "config.h"
#include "ext2fs/ext2_fs.h"
#include "ext2fs/ext2fs.h"
struct ext2_resize_struct;
static errcode_t mark_table_blocks(ext2_filsys fs, ext2fs_block_bitmap bmap);
static errcode_t reserve_sparse_super2_last_group(struct ext2_resize_struct *rfs, ext2fs_block_bitmap meta_bmap);
#include "resize/resize2fs.c"

#ifndef OLDG
#define OLDG 3
#endif
#ifndef NEWG
#define NEWG 2
#endif
#ifndef BPG
#define BPG 16
#endif
#define ITB 2
#define MAXG ((OLDG > NEWG) ? OLDG : NEWG)
#define MING ((OLDG < NEWG) ? OLDG : NEWG)
#define OLD_SIZE (1 + OLDG * BPG)
#define NEW_SIZE (1 + NEWG * BPG)
#define NB (1 + MAXG * BPG)

struct vf_in {
	unsigned char inuse[NB], meta[NB];
	__u32 bb[OLDG], ib[OLDG], it[OLDG];
	__u16 gflags[OLDG];
	__u32 odb, ndb, orsv, nrsv;		/* descriptor blocks / reserved GDT blocks, old and new */
	unsigned char sparse, sparse2, csum;
	__u32 obk[2], nbk[2];			/* s_backup_bgs old / new */
	__u32 alloc[3];				/* what ext2fs_allocate_group_table hands out */
	__u32 probe;
};
VF_DECLARE_INPUT(struct vf_in, IN)
#include "vf_input.inc"

/* STUB: bitmap layer: one byte per block, see bytemap.h (mark / unmark / test / range / allocate / free), out-of-range access flagged */
#include "bytemap.h"

static struct struct_ext2_filsys vf_old, vf_new;
static struct ext2_super_block vf_osb, vf_nsb;
static struct ext2_resize_struct vf_rfs;
static unsigned char vf_ogd[1024] __attribute__((aligned(8)));
static unsigned char vf_ngd[1024] __attribute__((aligned(8)));

static int vf_nmark_table, vf_mark_table_ok;
static int vf_nreserve, vf_reserve_ok;
static int vf_nalloc_tab, vf_nstats_plus, vf_nstats_minus;
static unsigned char vf_released[NB];

/* STUB: mark_table_blocks() (cut): fills the bitmap with the symbolic metadata set of the file system it is given */
static errcode_t mark_table_blocks(ext2_filsys fs, ext2fs_block_bitmap bmap)
{
	int p;
	vf_nmark_table++;
	vf_mark_table_ok = (fs == &vf_old && bmap == (ext2fs_block_bitmap) &vf_work[1]);
	for (p = 0; p < NB; p++) BM(bmap)->bit[p] = IN.meta[p];
	return 0;
}
/* STUB: reserve_sparse_super2_last_group() (cut): logs the call and checks what must already have happened */
static errcode_t reserve_sparse_super2_last_group(ext2_resize_t rfs, ext2fs_block_bitmap meta_bmap)
{
	int p, done = 1;
	vf_nreserve++;
	/* blocks beyond the new end are already reserved (checked on the group that is never BLOCK_UNINIT-skipped: csum off) */
	for (p = NEW_SIZE; p < OLD_SIZE; p++)
		if (!IN.csum && !vf_reserve.bit[p]) done = 0;
	vf_reserve_ok = (rfs == &vf_rfs && meta_bmap == (ext2fs_block_bitmap) &vf_work[1] && vf_nmark_table == 1 && done);
	return 0;
}
/* STUB: ext2fs_allocate_group_table(): every location that is 0 gets a block inside the new file system */
errcode_t ext2fs_allocate_group_table(ext2_filsys fs, dgrp_t g, ext2fs_block_bitmap bmap)
{
	(void) bmap;
	vf_nalloc_tab++;
	if (!ext2fs_block_bitmap_loc(fs, g)) ext2fs_block_bitmap_loc_set(fs, g, IN.alloc[0]);
	if (!ext2fs_inode_bitmap_loc(fs, g)) ext2fs_inode_bitmap_loc_set(fs, g, IN.alloc[1]);
	if (!ext2fs_inode_table_loc(fs, g)) ext2fs_inode_table_loc_set(fs, g, IN.alloc[2]);
	return 0;
}
/* STUB: ext2fs_block_alloc_stats2(): sets / clears the bit in fs->block_map, counted */
void ext2fs_block_alloc_stats2(ext2_filsys fs, blk64_t blk, int inuse)
{
	int p;
	if (inuse > 0) { vf_nstats_plus++; ext2fs_mark_generic_bmap((ext2fs_generic_bitmap) fs->block_map, blk); }
	else {
		vf_nstats_minus++;
		ext2fs_unmark_generic_bmap((ext2fs_generic_bitmap) fs->block_map, blk);
		for (p = 0; p < NB; p++) if ((blk64_t) p == blk) vf_released[p]++;
	}
	if (fs != &vf_new) vf_oob = 1;
}
#ifndef VF_REPLAY
char *gettext(const char *m) { return (char *) m; }
#endif

static void vf_fill_sb(struct ext2_super_block *sb, __u32 size, __u32 rsv, const __u32 *bk)
{
	sb->s_magic = EXT2_SUPER_MAGIC;
	sb->s_rev_level = EXT2_DYNAMIC_REV;
	sb->s_first_data_block = 1;
	sb->s_blocks_per_group = BPG;
	sb->s_clusters_per_group = BPG;
	sb->s_blocks_count = size;
	sb->s_reserved_gdt_blocks = rsv;
	sb->s_feature_ro_compat = (IN.sparse ? EXT2_FEATURE_RO_COMPAT_SPARSE_SUPER : 0) |
		(IN.csum ? EXT4_FEATURE_RO_COMPAT_GDT_CSUM : 0);
	sb->s_feature_compat = IN.sparse2 ? EXT4_FEATURE_COMPAT_SPARSE_SUPER2 : 0;
	sb->s_backup_bgs[0] = bk[0];
	sb->s_backup_bgs[1] = bk[1];
}

int main(void)
{
	errcode_t rc;
	int g, p, nmove = 0;
	struct ext2_group_desc *gd;
	__u64 old_area, new_area;

	VF_INPUT(IN);
	/* BOUND: OLDG -> NEWG groups x 16 blocks, inode table 2 blocks, 1 KiB blocks, no meta_bg / flex_bg / bigalloc */
	ASSUME(IN.sparse <= 1 && IN.sparse2 <= 1 && IN.csum <= 1);
	ASSUME(IN.odb >= 1 && IN.odb <= 2 && IN.ndb >= 1 && IN.ndb <= 2 && IN.orsv <= 2 && IN.nrsv <= 2);
	for (p = 0; p < NB; p++) ASSUME(IN.inuse[p] <= 1 && IN.meta[p] <= 1);
	/* ASSUME: group metadata of the old file system lies inside it (consistent file system), anywhere */
	for (g = 0; g < OLDG; g++)
		ASSUME(IN.bb[g] >= 1 && IN.bb[g] < OLD_SIZE && IN.ib[g] >= 1 && IN.ib[g] < OLD_SIZE &&
		       IN.it[g] >= 1 && IN.it[g] <= OLD_SIZE - ITB);
	/* ASSUME: ext2fs_allocate_group_table places tables inside the new file system */
	ASSUME(IN.alloc[0] >= 1 && IN.alloc[0] < NEW_SIZE && IN.alloc[1] >= 1 && IN.alloc[1] < NEW_SIZE &&
	       IN.alloc[2] >= 1 && IN.alloc[2] <= NEW_SIZE - ITB);
	ASSUME(IN.obk[0] < OLDG && IN.obk[1] < OLDG && IN.nbk[0] < NEWG && IN.nbk[1] < NEWG);

	vf_fill_sb(&vf_osb, OLD_SIZE, IN.orsv, IN.obk);
	vf_fill_sb(&vf_nsb, NEW_SIZE, IN.nrsv, IN.nbk);
	for (g = 0; g < OLDG; g++) {
		gd = (struct ext2_group_desc *) (vf_ogd + 32 * g);
		gd->bg_block_bitmap = IN.bb[g]; gd->bg_inode_bitmap = IN.ib[g]; gd->bg_inode_table = IN.it[g];
		gd->bg_flags = IN.gflags[g];
		if (g < NEWG) {
			gd = (struct ext2_group_desc *) (vf_ngd + 32 * g);
			gd->bg_block_bitmap = IN.bb[g]; gd->bg_inode_bitmap = IN.ib[g]; gd->bg_inode_table = IN.it[g];
			gd->bg_flags = IN.gflags[g];
		}
	}
	for (p = 0; p < NB; p++) { vf_oldmap.bit[p] = (p < OLD_SIZE) ? IN.inuse[p] : 0; vf_newmap.bit[p] = (p < OLD_SIZE && p < NEW_SIZE) ? IN.inuse[p] : 0; }
	vf_old.magic = vf_new.magic = EXT2_ET_MAGIC_EXT2FS_FILSYS;
	vf_old.super = &vf_osb; vf_new.super = &vf_nsb;
	vf_old.blocksize = vf_new.blocksize = 1024;
	vf_old.group_desc_count = OLDG; vf_new.group_desc_count = NEWG;
	vf_old.desc_blocks = IN.odb; vf_new.desc_blocks = IN.ndb;
	vf_old.inode_blocks_per_group = vf_new.inode_blocks_per_group = ITB;
	vf_old.group_desc = (struct opaque_ext2_group_desc *) vf_ogd;
	vf_new.group_desc = (struct opaque_ext2_group_desc *) vf_ngd;
	vf_old.block_map = (ext2fs_block_bitmap) &vf_oldmap;
	vf_new.block_map = (ext2fs_block_bitmap) &vf_newmap;
	vf_rfs.old_fs = &vf_old; vf_rfs.new_fs = &vf_new;
	vf_rfs.reserve_blocks = (ext2fs_block_bitmap) &vf_reserve;	/* allocated earlier by adjust_superblock() */

	rc = blocks_to_move(&vf_rfs);

	PROP(rc == 0, "blocks_to_move succeeds when every callee succeeds");
	PROP(vf_nreserve == 1, "reserve_sparse_super2_last_group is called exactly once on every successful path (early exit included)");
	PROP(vf_reserve_ok, "reserve_sparse_super2_last_group gets the old metadata bitmap, after the blocks beyond the new end were reserved");
	PROP(vf_nmark_table == 1, "metadata bitmap built once");
	PROP(vf_mark_table_ok, "metadata bitmap built from old_fs");
	PROP(vf_work[0].live && vf_work[1].live && vf_work[0].fs == ((OLD_SIZE > NEW_SIZE) ? &vf_old : &vf_new) &&
	     vf_work[1].fs == vf_work[0].fs, "work bitmaps sized for the larger of the two file systems");
	PROP(vf_rfs.move_blocks == (ext2fs_block_bitmap) &vf_work[0] && vf_work[0].freed == 0 && vf_work[1].freed == 1,
	     "move_blocks kept for block_mover, metadata bitmap released once");
	PROP(!vf_oob, "no bitmap access outside the file system");

	/* ---- blocks beyond the new end */
	for (p = NEW_SIZE; p < OLD_SIZE; p++) {
		int grp = (p - 1) / BPG;
		int skipped = 0;
		for (g = 0; g < OLDG; g++)
			if (g == grp && IN.csum && (IN.gflags[g] & EXT2_BG_BLOCK_UNINIT)) skipped = 1;
		if (!skipped) {
			PROP(vf_reserve.bit[p] == 1, "shrink: every block beyond the new end is reserved");
			PROP(vf_work[0].bit[p] == (IN.inuse[p] && !IN.meta[p]), "shrink: a block beyond the new end is moved iff in use and not metadata");
		} else
			PROP(vf_work[0].bit[p] == 0, "shrink: nothing is moved out of a BLOCK_UNINIT group");
	}
	for (g = 0; g < NEWG && g < OLDG; g++)
		PROP(ext2fs_block_bitmap_loc(&vf_new, g) != 0 && ext2fs_block_bitmap_loc(&vf_new, g) < NEW_SIZE &&
		     ext2fs_inode_bitmap_loc(&vf_new, g) != 0 && ext2fs_inode_bitmap_loc(&vf_new, g) < NEW_SIZE &&
		     ext2fs_inode_table_loc(&vf_new, g) != 0 && ext2fs_inode_table_loc(&vf_new, g) + ITB <= NEW_SIZE,
		     "surviving groups end with bitmaps and inode table inside the new size");

	old_area = (__u64) IN.odb + IN.orsv;
	new_area = (__u64) IN.ndb + IN.nrsv;
	for (p = 0; p < NB; p++) nmove += vf_work[0].bit[p];
	if (old_area == new_area) {
		/* ---- descriptor area keeps its size: the early exit */
		for (p = 0; p < NB; p++)
			if (p < NEW_SIZE)
				PROP(vf_work[0].bit[p] == 0 && vf_reserve.bit[p] == 0, "descriptor area unchanged: nothing inside the new size is touched");
		PROP(vf_nstats_plus == 0 && vf_nstats_minus == 0, "descriptor area unchanged: new_fs' block bitmap untouched");
		PROP(vf_rfs.needed_blocks == (blk64_t) nmove, "needed_blocks counts exactly the blocks scheduled for moving");
	} else if (old_area > new_area) {
		/* ---- fewer descriptor blocks: the surplus of every backup group is released */
		ASSUME(IN.probe < NB);
		for (g = 0; g < MING; g++) {
			int has = ext2fs_bg_has_super(&vf_old, g);
			__u64 first = 1 + (__u64) g * BPG;
			if ((__u64) IN.probe >= first && (__u64) IN.probe < first + BPG) {
				int surplus = has && (__u64) IN.probe >= first + 1 + new_area && (__u64) IN.probe < first + 1 + old_area;
				for (p = 0; p < NB; p++)
					if ((__u32) p == IN.probe)
						PROP(vf_released[p] == (surplus ? 1 : 0), "fewer descriptor blocks: exactly the surplus descriptor blocks of backup groups are released, once");
			}
		}
		PROP(vf_nstats_plus == 0, "fewer descriptor blocks: nothing is allocated");
	}
	VF_END();
	return 0;
}
