/*
 * C08/newgroups: adjust_fs_info() on a GROW -- initialisation of the groups that are added (pattern D).
 *
 * Real: the whole adjust_fs_info() (resize/resize2fs.c; newsize decides only its size prelude), ext2fs_bg_has_super(),
 * ext2fs_super_and_bgd_loc2() (closefs.c), ext2fs_reserve_super_and_bgd() (alloc_sb.c), descriptor accessors and group
 * arithmetic (blknum.c).  Stubbed: the bitmap layer (bytemap.h, one byte per block), bitmap resizing (succeeds),
 * ext2fs_block_alloc_stats2() (sets the bit in fs->block_map; counters are recomputed by
 * resize2fs_calculate_summary_stats later), ext2fs_allocate_group_table() as a specification stub in the style of C07:
 * it places block bitmap, inode bitmap and inode table of the group at SYMBOLIC blocks of that group that are free in
 * fs->block_map at the time of the call, and marks them.  getenv/access decide lazy_itable_init symbolically.
 *
 * OLDG = 2 groups grow to NEWG = 3 or 4 groups of 16 blocks; sparse_super / sparse_super2 (+ old s_backup_bgs),
 * group descriptor checksums, reserved GDT blocks symbolic.
 * Reference (on-disk format): a group is a backup group of the NEW file system iff it is group 0, or (sparse_super2) it
 * is one of the NEW s_backup_bgs, or (sparse_super) group 1 or a power of 3, 5, 7, or (neither) any group; a backup group
 * starts with 1 superblock + desc_blocks + s_reserved_gdt_blocks blocks.
 * Decided for every ADDED group g:
 *   - the blocks in use in g afterwards are exactly: that footprint iff g is a backup group of the new file system,
 *     plus its block bitmap, inode bitmap and inode table;
 *   - bitmaps and inode table lie inside g and OUTSIDE the footprint (they are allocated after the footprint is marked);
 *   - bg_free_blocks_count = blocks of g - footprint - 2 - inode table blocks; bg_free_inodes_count = inodes per group;
 *     used dirs 0; flags: with descriptor checksums INODE_UNINIT, BLOCK_UNINIT except on the last group, INODE_ZEROED
 *     unless lazy_itable_init, bg_itable_unused = inodes per group; without checksums no flag; checksum recomputed;
 *   - sparse_super2: s_backup_bgs[1] follows the last group (when there was a second backup or the fs gets its 3rd group);
 *   - superblock: blocks count, group count, s_inodes_count, s_free_inodes_count grow by the added groups; old groups'
 *     descriptors and bits are untouched except the documented free-count fix of the old last group.
 */
#include "resize/resize2fs.c"

#define OLDG 2
#ifndef NEWG
#define NEWG 3
#endif
#define BPG 16
#define ITB 2
#define IPG 8
#define OLD_SIZE (1 + OLDG * BPG)
#define NEW_SIZE (1 + NEWG * BPG)
#define NB NEW_SIZE
#define NADD (NEWG - OLDG)

struct vf_in {
	unsigned char inuse[OLD_SIZE];
	unsigned char sparse, sparse2, csum, lazy;
	__u32 obk[2], rsv;
	__u32 alloc[NADD][3];
	__u32 old_free_last, old_free_inodes;
};
VF_DECLARE_INPUT(struct vf_in, IN)
#include "vf_input.inc"

/* STUB: bitmap layer: one byte per block, see bytemap.h (mark / unmark / test / range / allocate / free) */
#include "bytemap.h"

static struct struct_ext2_filsys vf_old, vf_new;
static struct ext2_super_block vf_osb, vf_nsb;
static unsigned char vf_ogd[1024] __attribute__((aligned(8)));
static unsigned char vf_ngd[1024] __attribute__((aligned(8)));
static long vf_imap_obj;
static int vf_ncsum[NEWG], vf_nalloc[NEWG], vf_alloc_seen_foot[NEWG];
static int vf_resize_bb, vf_resize_ib;

/* STUB: bitmap resizing succeeds (the byte model already spans the new size, new part zero) */
errcode_t ext2fs_resize_inode_bitmap2(__u64 new_end, __u64 new_real_end, ext2fs_inode_bitmap bmap)
{ (void) new_end; (void) new_real_end; (void) bmap; vf_resize_ib++; return 0; }
errcode_t ext2fs_resize_block_bitmap2(__u64 new_end, __u64 new_real_end, ext2fs_block_bitmap bmap)
{
	if (bmap != (ext2fs_block_bitmap) &vf_newmap || new_end != NEW_SIZE - 1) vf_oob = 1;
	(void) new_real_end; vf_resize_bb++; return 0;
}
/* STUB: ext2fs_block_alloc_stats2(): sets / clears the bit in fs->block_map (counters are recomputed later) */
void ext2fs_block_alloc_stats2(ext2_filsys fs, blk64_t blk, int inuse)
{
	if (fs != &vf_new) vf_oob = 1;
	if (inuse > 0) ext2fs_mark_generic_bmap((ext2fs_generic_bitmap) fs->block_map, blk);
	else ext2fs_unmark_generic_bmap((ext2fs_generic_bitmap) fs->block_map, blk);
}
/* STUB: ext2fs_allocate_group_table() (specification, cf. C07): tables go to symbolic blocks of the group that are FREE
 * in fs->block_map when it is called (that is all the real allocator guarantees), pairwise distinct, and are marked */
errcode_t ext2fs_allocate_group_table(ext2_filsys fs, dgrp_t g, ext2fs_block_bitmap bmap)
{
	int k;
	__u32 first, bb, ib, it;
	if (fs != &vf_new || bmap != 0 || g < OLDG || g >= NEWG) { vf_oob = 1; return 0; }
	for (k = 0; k < NADD; k++) {
		if ((dgrp_t) (OLDG + k) != g) continue;
		vf_nalloc[g]++;
		first = 1 + g * BPG;
		bb = IN.alloc[k][0]; ib = IN.alloc[k][1]; it = IN.alloc[k][2];
		/* ASSUME: allocator contract: inside the group, free in fs->block_map at this moment, no overlap */
		ASSUME(bb >= first && bb < first + BPG && ib >= first && ib < first + BPG && it >= first && it <= first + BPG - ITB);
		ASSUME(bb != ib && bb != it && bb != it + 1 && ib != it && ib != it + 1);
		ASSUME(!ext2fs_test_generic_bmap((ext2fs_generic_bitmap) fs->block_map, bb) &&
		       !ext2fs_test_generic_bmap((ext2fs_generic_bitmap) fs->block_map, ib) &&
		       !ext2fs_test_generic_bmap((ext2fs_generic_bitmap) fs->block_map, it) &&
		       !ext2fs_test_generic_bmap((ext2fs_generic_bitmap) fs->block_map, it + 1));
		ext2fs_block_bitmap_loc_set(fs, g, bb);
		ext2fs_inode_bitmap_loc_set(fs, g, ib);
		ext2fs_inode_table_loc_set(fs, g, it);
		ext2fs_mark_generic_bmap((ext2fs_generic_bitmap) fs->block_map, bb);
		ext2fs_mark_generic_bmap((ext2fs_generic_bitmap) fs->block_map, ib);
		ext2fs_mark_generic_bmap((ext2fs_generic_bitmap) fs->block_map, it);
		ext2fs_mark_generic_bmap((ext2fs_generic_bitmap) fs->block_map, it + 1);
	}
	return 0;
}
void ext2fs_group_desc_csum_set(ext2_filsys fs, dgrp_t g)
{
	int k;
	(void) fs;
	for (k = 0; k < NEWG; k++) if ((dgrp_t) k == g) vf_ncsum[k]++;
}
/* STUB: getenv() finds nothing, access() decides lazy_itable_init symbolically */
char *getenv(const char *n) { (void) n; return 0; }
int access(const char *p, int m) { (void) p; (void) m; return IN.lazy ? 0 : -1; }
#ifndef VF_REPLAY
char *gettext(const char *m) { return (char *) m; }
#endif

static void vf_fill_sb(struct ext2_super_block *sb)
{
	sb->s_magic = EXT2_SUPER_MAGIC;
	sb->s_rev_level = EXT2_DYNAMIC_REV;
	sb->s_first_data_block = 1;
	sb->s_blocks_per_group = BPG;
	sb->s_clusters_per_group = BPG;
	sb->s_inodes_per_group = IPG;
	sb->s_inodes_count = OLDG * IPG;
	sb->s_free_inodes_count = IN.old_free_inodes;
	sb->s_blocks_count = OLD_SIZE;
	sb->s_reserved_gdt_blocks = IN.rsv;
	sb->s_feature_ro_compat = (IN.sparse ? EXT2_FEATURE_RO_COMPAT_SPARSE_SUPER : 0) | (IN.csum ? EXT4_FEATURE_RO_COMPAT_GDT_CSUM : 0);
	sb->s_feature_compat = IN.sparse2 ? EXT4_FEATURE_COMPAT_SPARSE_SUPER2 : 0;
	sb->s_backup_bgs[0] = IN.obk[0];
	sb->s_backup_bgs[1] = IN.obk[1];
}
/* reference: backup group of the NEW file system, from the format and the final s_backup_bgs (groups 0..3 only) */
static int ref_backup(int g)
{
	if (g == 0) return 1;
	if (IN.sparse2) return (__u32) g == vf_nsb.s_backup_bgs[0] || (__u32) g == vf_nsb.s_backup_bgs[1];
	if (!IN.sparse) return 1;
	return g == 1 || g == 3;
}

int main(void)
{
	errcode_t rc;
	int g, p, k;
	__u32 foot;

	VF_INPUT(IN);
	/* BOUND: 2 -> NEWG (3 or 4) groups x 16 blocks, 8 inodes per group, inode table 2 blocks, 1 descriptor block, no meta_bg / flex_bg / bigalloc */
	ASSUME(IN.sparse <= 1 && IN.sparse2 <= 1 && IN.csum <= 1 && IN.lazy <= 1 && IN.rsv <= 2);
	ASSUME(IN.obk[0] < OLDG && IN.obk[1] < OLDG && IN.old_free_last <= BPG && IN.old_free_inodes <= OLDG * IPG);
	for (p = 0; p < OLD_SIZE; p++) ASSUME(IN.inuse[p] <= 1);
	vf_fill_sb(&vf_osb); vf_fill_sb(&vf_nsb);
	((struct ext2_group_desc *) (vf_ogd + 32 * (OLDG - 1)))->bg_free_blocks_count = IN.old_free_last;
	((struct ext2_group_desc *) (vf_ngd + 32 * (OLDG - 1)))->bg_free_blocks_count = IN.old_free_last;
	for (p = 0; p < NB; p++) { vf_oldmap.bit[p] = (p < OLD_SIZE) ? IN.inuse[p] : 0; vf_newmap.bit[p] = (p < OLD_SIZE) ? IN.inuse[p] : 0; }
	vf_old.magic = vf_new.magic = EXT2_ET_MAGIC_EXT2FS_FILSYS;
	vf_old.super = &vf_osb; vf_new.super = &vf_nsb;
	vf_old.blocksize = vf_new.blocksize = 1024;
	vf_old.group_desc_count = vf_new.group_desc_count = OLDG;
	vf_old.desc_blocks = vf_new.desc_blocks = 1;
	vf_old.inode_blocks_per_group = vf_new.inode_blocks_per_group = ITB;
	vf_old.group_desc = (struct opaque_ext2_group_desc *) vf_ogd;
	vf_new.group_desc = (struct opaque_ext2_group_desc *) vf_ngd;
	vf_old.block_map = (ext2fs_block_bitmap) &vf_oldmap;
	vf_new.block_map = (ext2fs_block_bitmap) &vf_newmap;
	vf_new.inode_map = (ext2fs_inode_bitmap) &vf_imap_obj;

	rc = adjust_fs_info(&vf_new, &vf_old, 0, NEW_SIZE);

	PROP(rc == 0 && !vf_oob, "grow succeeds; bitmap accesses inside the new size; allocator asked for the added groups only");
	PROP(ext2fs_blocks_count(&vf_nsb) == NEW_SIZE && vf_new.group_desc_count == NEWG && vf_new.desc_blocks == 1 &&
	     vf_nsb.s_inodes_count == NEWG * IPG && vf_nsb.s_free_inodes_count == IN.old_free_inodes + NADD * IPG &&
	     vf_resize_bb == 1 && vf_resize_ib == 1,
	     "superblock: size, group count, inode counts grow by the added groups; both bitmaps resized once");
	if (IN.sparse2 && (IN.obk[1] != 0 || (OLDG < 3 && NEWG > 2)))
		PROP(vf_nsb.s_backup_bgs[1] == NEWG - 1, "sparse_super2: the second backup group follows the last group");
	if (IN.sparse2)
		PROP(vf_nsb.s_backup_bgs[0] == IN.obk[0], "sparse_super2: the first backup group stays");
	foot = 1 + 1 + IN.rsv;		/* superblock + descriptor block(s) + reserved GDT blocks */
	for (g = OLDG; g < NEWG; g++) {
		__u32 first = 1 + g * BPG;
		__u32 bb = ext2fs_block_bitmap_loc(&vf_new, g), ib = ext2fs_inode_bitmap_loc(&vf_new, g), it = ext2fs_inode_table_loc(&vf_new, g);
		int backup = ref_backup(g);
		__u32 flen = backup ? foot : 0;
		PROP(vf_nalloc[g] == 1 && bb >= first && bb < first + BPG && ib >= first && ib < first + BPG && it >= first && it + ITB <= first + BPG,
		     "added group: bitmaps and inode table allocated once, inside the group");
		PROP(!(bb < first + flen) && !(ib < first + flen) && !(it < first + flen),
		     "added group: bitmaps and inode table lie outside the backup superblock / descriptor footprint");
		for (k = 0; k < BPG; k++) {
			__u32 b = first + k;
			int want = ((__u32) k < flen) || b == bb || b == ib || b == it || b == it + 1;
			PROP(vf_newmap.bit[b] == want,
			     "added group: in use are exactly the backup footprint (iff it is a backup group of the NEW fs) and the group's own tables");
		}
		PROP(ext2fs_bg_free_blocks_count(&vf_new, g) == BPG - flen - 2 - ITB && ext2fs_bg_free_inodes_count(&vf_new, g) == IPG &&
		     ext2fs_bg_used_dirs_count(&vf_new, g) == 0, "added group: free blocks = group size - footprint - 2 - inode table; all inodes free; no directories");
		if (IN.csum)
			PROP(ext2fs_bg_flags(&vf_new, g) == (EXT2_BG_INODE_UNINIT | ((g < NEWG - 1) ? EXT2_BG_BLOCK_UNINIT : 0) | (IN.lazy ? 0 : EXT2_BG_INODE_ZEROED)) &&
			     ext2fs_bg_itable_unused(&vf_new, g) == IPG,
			     "added group with checksums: INODE_UNINIT, BLOCK_UNINIT except on the last group, INODE_ZEROED unless lazy init, all inodes unused");
		else
			PROP(ext2fs_bg_flags(&vf_new, g) == 0, "added group without checksums: no flags");
		PROP(vf_ncsum[g] >= 1, "added group: descriptor checksum recomputed");
	}
	/* old part */
	PROP(ext2fs_bg_free_blocks_count(&vf_new, OLDG - 1) == IN.old_free_last, "old last group was complete: its free count is unchanged");
	for (p = 0; p < OLD_SIZE; p++)
		if (IN.inuse[p]) PROP(vf_newmap.bit[p] == 1, "no block of the old part is released");
	VF_END();
	return 0;
}
