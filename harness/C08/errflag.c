/*
 * C08/errflag: the "interrupted resize" marker protocol of resize_fs() (pattern P).
 *
 * The REAL body of resize_fs() (resize/resize2fs.c) and the REAL ext2fs_dup_handle()
 * (lib/ext2fs/dupfs.c) run; every stage that reads, modifies or writes the file
 * system is replaced by a stub that
 *   (a) asserts the stages come in the documented order,
 *   (b) asserts the ordering predicate that must hold AT THAT MOMENT: the primary
 *       superblock ON DISK carries EXT2_ERROR_FS before anything is modified,
 *   (c) returns a symbolic error code (every fault schedule of the stages).
 * The disk is one word: the s_state field of the on-disk primary superblock.  It is
 * changed only by the ext2fs_flush() / ext2fs_close_free() stubs, exactly when the real
 * functions would rewrite the primary superblock (flush: always; close: only if the
 * handle is EXT2_FLAG_DIRTY).
 *
 * Decided, for every original s_state, every fault schedule, every choice of the
 * intermediate flushes that move_itables() performs:
 *   - no stage runs while the disk lacks the flag;
 *   - the flag disappears from the disk only through the final close of new_fs, after all
 *     stages succeeded, and that close really writes (handle dirty, backups enabled);
 *   - a failed run leaves the flag on disk and in the caller's in-memory superblock
 *     (main() closes that handle next); a run refused before the first write changes nothing;
 *   - success: disk state == original state without the error bit; *new_size is the size
 *     in the superblock that was written.
 */
#include "resize/resize2fs.c"

#define NSTAGE 21
enum { ST_READ_BITMAPS = 0, ST_FLUSH1, ST_FIX_UNINIT1, ST_DUP_unused, ST_RESIZE_GD, ST_MOVE_BG, ST_ZERO_HIGH,
       ST_ADJUST_SB, ST_FIX_UNINIT2, ST_BLOCKS_TO_MOVE, ST_BLOCK_MOVER, ST_INODE_SCAN, ST_INODE_REF,
       ST_MOVE_ITABLES, ST_CLEAR_SS2, ST_SUMMARY, ST_FIX_RESIZE_INO, ST_FIX_ORPHAN, ST_FIX_JNL, ST_GDT_CSUM,
       ST_CLOSE };

struct vf_in {
	__u16 s_state;			/* state of the file system as opened (disk == memory) */
	int err[NSTAGE];		/* symbolic return code of every stage */
	int flags;			/* resize flags */
	unsigned char itab_flush_old, itab_flush_new;	/* move_itables() flushes old_fs / new_fs */
	unsigned char close_wrote;	/* a failing close failed after (1) / before (0) the primary superblock write */
	unsigned char jnl_dirty, csum_dirty;	/* optional mark_super_dirty of fix_sb_journal_backup / set_gdt_csum */
	__u32 req_size, adj_size;	/* requested size, size adjust_fs_info settles on */
};
VF_DECLARE_INPUT(struct vf_in, IN)
#include "vf_input.inc"

static struct struct_ext2_filsys vf_fs;
static struct ext2_super_block vf_sb, vf_osb;
static struct struct_io_channel vf_io;
static struct struct_io_manager vf_mgr;
static unsigned char vf_gd[1024] __attribute__((aligned(8)));
static char vf_devname[2] = "d";

static __u16 vf_disk_state;		/* THE DISK: s_state of the on-disk primary superblock */
static int vf_next;			/* next expected stage */
static int vf_first_flush_done, vf_nflush, vf_flush1_failed;
static int vf_final_write;		/* the close of new_fs rewrote the primary superblock */
static int vf_closed_new, vf_freed_old, vf_freed_new;
static blk64_t vf_written_size;
static ext2_filsys vf_newfs;

static errcode_t vf_stage(int id)
{
	PROP(vf_next == id, "stages of resize_fs run in the documented order, none skipped");
	vf_next = id + 1;
	if (id == ST_FIX_UNINIT1)
		vf_next = ST_RESIZE_GD;	/* ext2fs_dup_handle is the real function, not a stage stub */
#ifdef FLUSH_FAULT
	if (id > ST_FLUSH1)
		PROP(!vf_flush1_failed, "no stage runs after the flush that makes the error flag durable has failed");
	ASSUME(!vf_flush1_failed);	/* FLUSH_FAULT query only: report that one label, not its consequences */
#endif
	if (id > ST_FLUSH1)
		PROP((vf_disk_state & EXT2_ERROR_FS) != 0,
		     "on-disk primary superblock carries the error flag whenever a stage after the first flush runs");
	return (errcode_t) IN.err[id];
}

/* STUB: init_resource_track()/print_resource_track() only print statistics: empty */
void init_resource_track(struct resource_track *t, const char *d, io_channel c) { (void) t; (void) d; (void) c; }
void print_resource_track(ext2_resize_t r, struct resource_track *t, io_channel c) { (void) r; (void) t; (void) c; }

/* STUB: ext2fs_read_bitmaps() reads only; symbolic error */
errcode_t ext2fs_read_bitmaps(ext2_filsys fs)
{
	PROP(fs == &vf_fs, "bitmaps are read from the handle passed in");
	return vf_stage(ST_READ_BITMAPS);
}

/* STUB: ext2fs_flush() rewrites the primary superblock from fs->super (disk word := fs->super->s_state) and
 * clears EXT2_FLAG_DIRTY, as ext2fs_flush2() does on success; with -DFLUSH_FAULT it may fail and write nothing */
errcode_t ext2fs_flush(ext2_filsys fs)
{
	PROP(!(fs == &vf_fs && vf_freed_old) && !(fs == vf_newfs && vf_freed_new), "no flush of a freed handle");
	if (!vf_first_flush_done) {
		errcode_t e = vf_stage(ST_FLUSH1);
		vf_first_flush_done = 1;
		PROP(fs == &vf_fs, "the first flush is of the handle passed in");
#ifdef FLUSH_FAULT
		if (e) {
			vf_flush1_failed = 1;
			return e;
		}
#else
		(void) e;
#endif
	}
	vf_nflush++;
	vf_disk_state = fs->super->s_state;
	fs->flags &= ~EXT2_FLAG_DIRTY;
	return 0;
}

/* STUB: ext2fs_free() releases a handle without writing anything */
void ext2fs_free(ext2_filsys fs)
{
	if (fs == &vf_fs) vf_freed_old++;
	else if (fs && fs == vf_newfs) vf_freed_new++;
}
void ext2fs_free_block_bitmap(ext2fs_block_bitmap b) { (void) b; }

/* STUB: ext2fs_close_free(): ext2fs_close2() flushes only a DIRTY handle, the flush rewrites the primary
 * superblock last; on failure the write happened (close_wrote) or not; the handle is released on success */
errcode_t ext2fs_close_free(ext2_filsys *fsp)
{
	ext2_filsys fs = *fsp;
	errcode_t e = vf_stage(ST_CLOSE);

	PROP(fs == vf_newfs && fs != &vf_fs, "the handle closed at the end is the duplicate (new_fs)");
	PROP(!(fs->super->s_state & EXT2_ERROR_FS), "the superblock handed to the final close has the error flag cleared");
	PROP((fs->flags & EXT2_FLAG_DIRTY) != 0, "the final close really writes: new_fs is marked dirty");
	PROP(!(fs->flags & EXT2_FLAG_MASTER_SB_ONLY), "the final close also rewrites the backup superblocks");
	if ((fs->flags & EXT2_FLAG_DIRTY) && (!e || IN.close_wrote)) {
		vf_disk_state = fs->super->s_state;
		vf_final_write = 1;
		vf_written_size = ext2fs_blocks_count(fs->super);
	}
	if (!e) {
		vf_closed_new = 1;
		vf_freed_new++;
	}
	*fsp = NULL;			/* ext2fs_close_free() always clears the caller's pointer */
	return e;
}

/* STUB: ext2fs_set_gdt_csum() recomputes checksums in memory; symbolic error, may mark the superblock dirty */
errcode_t ext2fs_set_gdt_csum(ext2_filsys fs)
{
	errcode_t e = vf_stage(ST_GDT_CSUM);
	if (!e && IN.csum_dirty)
		ext2fs_mark_super_dirty(fs);
	return e;
}

/* STUB: every static stage of resize2fs.c is cut (run.py cut_statics) and replaced by: order check, disk-flag
 * check, symbolic error.  Side effects kept: the ones resize_fs()'s own protocol depends on (listed per stub). */
static void fix_uninit_block_bitmaps(ext2_filsys fs)
{
	if (fs == &vf_fs) (void) vf_stage(ST_FIX_UNINIT1);
	else (void) vf_stage(ST_FIX_UNINIT2);
}
static errcode_t resize_group_descriptors(ext2_resize_t rfs, blk64_t new_size)
{
	vf_newfs = rfs->new_fs;
	PROP(rfs->new_fs && rfs->new_fs != rfs->old_fs && rfs->new_fs->super != rfs->old_fs->super,
	     "new_fs is a separate handle with its own superblock copy");
	PROP(new_size == IN.req_size, "the requested size reaches resize_group_descriptors");
	return vf_stage(ST_RESIZE_GD);
}
static errcode_t move_bg_metadata(ext2_resize_t rfs) { (void) rfs; return vf_stage(ST_MOVE_BG); }
static errcode_t zero_high_bits_in_inodes(ext2_resize_t rfs) { (void) rfs; return vf_stage(ST_ZERO_HIGH); }
/* adjust_superblock: marks new_fs dirty, settles the new size in new_fs->super (adjust_fs_info) */
static errcode_t adjust_superblock(ext2_resize_t rfs, blk64_t new_size)
{
	errcode_t e = vf_stage(ST_ADJUST_SB);
	PROP(new_size == IN.req_size, "the requested size reaches adjust_superblock");
	ext2fs_mark_super_dirty(rfs->new_fs);
	if (!e)
		ext2fs_blocks_count_set(rfs->new_fs->super, IN.adj_size);
	return e;
}
static errcode_t blocks_to_move(ext2_resize_t rfs) { (void) rfs; return vf_stage(ST_BLOCKS_TO_MOVE); }
static errcode_t block_mover(ext2_resize_t rfs) { (void) rfs; return vf_stage(ST_BLOCK_MOVER); }
static errcode_t inode_scan_and_fix(ext2_resize_t rfs) { (void) rfs; return vf_stage(ST_INODE_SCAN); }
static errcode_t inode_ref_fix(ext2_resize_t rfs) { (void) rfs; return vf_stage(ST_INODE_REF); }
/* move_itables: after each moved table flushes old_fs (MASTER_SB_ONLY), at the end flushes new_fs */
static errcode_t move_itables(ext2_resize_t rfs)
{
	errcode_t e = vf_stage(ST_MOVE_ITABLES);
	if (IN.itab_flush_old) {
		rfs->old_fs->flags |= EXT2_FLAG_MASTER_SB_ONLY;
		ext2fs_mark_super_dirty(rfs->old_fs);
		ext2fs_flush(rfs->old_fs);
	}
	if (!e && IN.itab_flush_new)
		ext2fs_flush(rfs->new_fs);
	PROP((vf_disk_state & EXT2_ERROR_FS) != 0, "intermediate flushes of old_fs/new_fs keep the error flag on disk");
	return e;
}
static errcode_t clear_sparse_super2_last_group(ext2_resize_t rfs) { (void) rfs; return vf_stage(ST_CLEAR_SS2); }
/* resize2fs_calculate_summary_stats: marks the superblock dirty on success */
static errcode_t resize2fs_calculate_summary_stats(ext2_filsys fs)
{
	errcode_t e = vf_stage(ST_SUMMARY);
	PROP(fs == vf_newfs, "summary statistics are computed on new_fs");
	if (!e)
		ext2fs_mark_super_dirty(fs);
	return e;
}
static errcode_t fix_resize_inode(ext2_filsys fs) { (void) fs; return vf_stage(ST_FIX_RESIZE_INO); }
static errcode_t fix_orphan_file_inode(ext2_filsys fs) { (void) fs; return vf_stage(ST_FIX_ORPHAN); }
static errcode_t fix_sb_journal_backup(ext2_filsys fs)
{
	errcode_t e = vf_stage(ST_FIX_JNL);
	if (!e && IN.jnl_dirty)
		ext2fs_mark_super_dirty(fs);
	return e;
}

int main(void)
{
	errcode_t rc;
	blk64_t new_size;

	VF_INPUT(IN);
	/* ASSUME: resize flags without the debug-print bits (they only select printf calls) */
	ASSUME((IN.flags & ~(RESIZE_PERCENT_COMPLETE | RESIZE_VERBOSE | RESIZE_ENABLE_64BIT | RESIZE_DISABLE_64BIT)) == 0);
	ASSUME(IN.itab_flush_old <= 1 && IN.itab_flush_new <= 1 && IN.close_wrote <= 1 && IN.jnl_dirty <= 1 && IN.csum_dirty <= 1);
	/* ASSUME: the first ext2fs_flush() (the one that makes the flag durable) succeeds.  Query FLUSH_FAULT drops this
	 * assumption: then resize_fs() must stop before any stage (it used to ignore that result; repaired by 58c4b827) */
	/* BOUND: geometry is irrelevant to the protocol: 2 groups, 1 KiB blocks, one descriptor block, no bitmaps loaded */
	vf_sb.s_magic = EXT2_SUPER_MAGIC;
	vf_sb.s_state = IN.s_state;
	vf_sb.s_blocks_count = 16384;
	vf_sb.s_blocks_per_group = 8192;
	vf_sb.s_first_data_block = 1;
	vf_sb.s_rev_level = EXT2_DYNAMIC_REV;
	vf_osb = vf_sb;
	vf_mgr.magic = EXT2_ET_MAGIC_IO_MANAGER;
	vf_io.magic = EXT2_ET_MAGIC_IO_CHANNEL;
	vf_io.manager = &vf_mgr;
	vf_io.block_size = 1024;
	vf_io.refcount = 1;
	vf_fs.magic = EXT2_ET_MAGIC_EXT2FS_FILSYS;
	vf_fs.super = &vf_sb;
	vf_fs.orig_super = &vf_osb;
	vf_fs.io = &vf_io;
	vf_fs.device_name = vf_devname;
	vf_fs.blocksize = 1024;
	vf_fs.group_desc_count = 2;
	vf_fs.desc_blocks = 1;
	vf_fs.group_desc = (struct opaque_ext2_group_desc *) vf_gd;
	vf_fs.mmp_fd = -1;
	vf_fs.flags = EXT2_FLAG_RW | EXT2_FLAG_MASTER_SB_ONLY;	/* as resize/main.c opens it */
	vf_disk_state = IN.s_state;
	new_size = IN.req_size;

	rc = resize_fs(&vf_fs, &new_size, IN.flags, 0);

	if (rc == 0) {
		PROP(vf_next == NSTAGE && vf_closed_new && vf_final_write, "success: every stage ran and new_fs was closed and written");
		PROP(vf_disk_state == (IN.s_state & ~EXT2_ERROR_FS),
		     "success: the on-disk state is the original state with the error flag cleared");
		PROP(new_size == vf_written_size && new_size == IN.adj_size, "success: the reported size is the size in the superblock written last");
		PROP(vf_freed_old == 1 && vf_freed_new == 1, "success: both handles released exactly once");
	} else {
		PROP(vf_freed_new <= 1 && vf_freed_old == 0, "failure: the caller's handle stays valid, new_fs released at most once");
		if (!vf_first_flush_done) {
			PROP(vf_disk_state == IN.s_state && vf_sb.s_state == IN.s_state && vf_next == 1 && !(vf_fs.flags & EXT2_FLAG_DIRTY),
			     "refused before the first write: nothing changed on disk or in the caller's superblock");
		} else {
			PROP((vf_disk_state & EXT2_ERROR_FS) != 0 || (vf_final_write && vf_next == NSTAGE) ||
			     (vf_flush1_failed && vf_next == ST_FIX_UNINIT1 && vf_disk_state == IN.s_state),
			     "failure: the error flag is still on disk (unless only the final close failed after its write, or nothing ran after a failed first flush)");
			PROP((vf_sb.s_state & EXT2_ERROR_FS) != 0,
			     "failure: the caller's in-memory superblock keeps the flag (main() closes that handle next)");
		}
	}
	VF_END();
	return 0;
}
