/*
 * C08/newsize: which size does resize2fs settle on?  (pattern D, two real functions + a reference)
 *
 * resize/main.c calls the real adjust_new_size() to predict the final size (and exits with "Nothing to
 * do!" when it equals the current size); resize_fs() later lets the real adjust_fs_info() compute the
 * geometry that is written.  adjust_new_size() is documented as a replica of the first part of
 * adjust_fs_info().  Decided, for every requested size and geometry inside the bounds:
 *   - both real functions settle on the SAME size, group count and descriptor-block count;
 *   - where adjust_fs_info() refuses (EXT2_ET_TOOSMALL / EXT2_ET_TOO_MANY_INODES) adjust_new_size() leaves
 *     the request untouched;
 *   - the settled size satisfies the format rules stated independently in the harness: never larger than
 *     requested; reduced only to a group boundary; the last group is complete or holds its own metadata
 *     (+50 blocks when there are several groups); the inode count fits in 32 bits; a request that already
 *     satisfies the rules is not reduced; settling is idempotent;
 *   - superblock arithmetic of the accepted geometry: s_inodes_count, free-block count delta.
 * adjust_fs_info() is run up to its first bitmap call (ext2fs_resize_inode_bitmap2 is a stub returning a
 * sentinel), i.e. exactly the part adjust_new_size() replicates plus the superblock counters.
 */
#include "resize/resize2fs.c"

#ifndef LOGBS
#define LOGBS 0
#endif
#ifndef BPG
#define BPG 8192
#endif
#ifndef DESC
#define DESC 32
#endif
#ifndef SBITS
#define SBITS 32
#endif
#define VF_BS (1024u << LOGBS)
#define VF_DPB (VF_BS / DESC)
#define VF_FIRST ((LOGBS == 0) ? 1u : 0u)
/* IPG (inodes per group) concrete per query when defined: multiplication by a constant */
#ifdef IPG
#define VF_IPG ((__u32) IPG)
#else
#define VF_IPG IN.ipg
#endif
#define VF_SENTINEL ((errcode_t) 0x7e57)

struct vf_in {
	__u64 req;			/* requested size in blocks */
	__u64 old_blocks, old_free, old_rsv;
	__u32 ipg, itb, rsv_gdt;
	unsigned char sparse, sparse2;
	__u32 backup_bgs[2];
};
VF_DECLARE_INPUT(struct vf_in, IN)
#include "vf_input.inc"

static struct struct_ext2_filsys vf_fs, vf_fs2, vf_old;
static struct ext2_super_block vf_sb, vf_sb2, vf_osb;

/* STUB: ext2fs_resize_inode_bitmap2() ends the run of adjust_fs_info() after the replicated prelude */
errcode_t ext2fs_resize_inode_bitmap2(__u64 new_end, __u64 new_real_end, ext2fs_inode_bitmap bmap)
{
	(void) new_end; (void) new_real_end; (void) bmap;
	return VF_SENTINEL;
}

#ifndef VF_REPLAY
/* STUB: gettext() returns its argument (message of the "too many inodes" refusal) */
char *gettext(const char *m) { return (char *) m; }
#endif

/* reference: backup placement of the on-disk format (sparse_super: groups 0, 1 and powers of 3, 5, 7) */
static int ref_is_power(__u64 g, __u64 b)
{
	__u64 p = b;
	int k, r = 0;
	for (k = 0; k < 24; k++) {	/* p is a constant in every iteration */
		if (p == g) r = 1;
		p *= b;
	}
	return r;
}
static int ref_has_backup(__u64 g)
{
	if (g <= 1 || !IN.sparse) return 1;
	return ref_is_power(g, 3) || ref_is_power(g, 5) || ref_is_power(g, 7);
}
#ifndef REAL_HAS_SUPER
/* STUB: ext2fs_bg_has_super() replaced by the format rule it implements (assume-guarantee: the real function is
 * decided against this rule for all 2^32 groups in C20/bg_has_super); -DREAL_HAS_SUPER links the real one */
int ext2fs_bg_has_super(ext2_filsys fs, dgrp_t group)
{
	if (group == 0) return 1;
	if (ext2fs_has_feature_sparse_super2(fs->super))
		return group == fs->super->s_backup_bgs[0] || group == fs->super->s_backup_bgs[1];
	return ref_has_backup(group);
}
#endif

/* reference: the format rules for a size taken as it stands (not available with sparse_super2, see main) */
static __u64 ref_groups(__u64 size) { return (size - VF_FIRST + BPG - 1) / BPG; }
/* last group complete, or large enough for its own metadata (+50 blocks when it is not the only group) */
static int ref_last_ok(__u64 size)
{
	__u64 groups = ref_groups(size);
	__u64 rem = (size - VF_FIRST) % BPG;
	__u64 ovh = 2 + (__u64) IN.itb;
	if (ref_has_backup(groups - 1))
		ovh += 1 + (groups + VF_DPB - 1) / VF_DPB + IN.rsv_gdt;
	if (rem && groups == 1 && rem < ovh) return 0;
	if (rem && groups > 1 && rem < ovh + 50) return 0;
	return 1;
}
static int ref_acceptable(__u64 size)
{
	return ref_last_ok(size) && ref_groups(size) * VF_IPG <= 0xffffffffULL;
}

static void vf_fill(struct ext2_super_block *sb)
{
	sb->s_magic = EXT2_SUPER_MAGIC;
	sb->s_rev_level = EXT2_DYNAMIC_REV;
	sb->s_log_block_size = LOGBS;
	sb->s_log_cluster_size = LOGBS;
	sb->s_first_data_block = VF_FIRST;
	sb->s_blocks_per_group = BPG;
	sb->s_clusters_per_group = BPG;
	sb->s_inodes_per_group = VF_IPG;
	sb->s_reserved_gdt_blocks = IN.rsv_gdt;
	sb->s_desc_size = (DESC == 32) ? 0 : DESC;
	sb->s_feature_incompat = (DESC == 32) ? 0 : EXT4_FEATURE_INCOMPAT_64BIT;
	sb->s_feature_ro_compat = IN.sparse ? EXT2_FEATURE_RO_COMPAT_SPARSE_SUPER : 0;
	sb->s_feature_compat = IN.sparse2 ? EXT4_FEATURE_COMPAT_SPARSE_SUPER2 : 0;
	sb->s_backup_bgs[0] = IN.backup_bgs[0];
	sb->s_backup_bgs[1] = IN.backup_bgs[1];
	sb->s_blocks_count = (__u32) IN.old_blocks;
	sb->s_blocks_count_hi = (DESC == 32) ? 0 : (__u32) (IN.old_blocks >> 32);
	sb->s_free_blocks_count = (__u32) IN.old_free;
	sb->s_free_blocks_hi = (DESC == 32) ? 0 : (__u32) (IN.old_free >> 32);
	sb->s_r_blocks_count = (__u32) IN.old_rsv;
	sb->s_r_blocks_count_hi = (DESC == 32) ? 0 : (__u32) (IN.old_rsv >> 32);
}
static void vf_fs_init(ext2_filsys fs, struct ext2_super_block *sb)
{
	fs->magic = EXT2_ET_MAGIC_EXT2FS_FILSYS;
	fs->super = sb;
	fs->blocksize = VF_BS;
	fs->inode_blocks_per_group = IN.itb;
	fs->cluster_ratio_bits = 0;
}

int main(void)
{
	blk64_t pred, again = 0, settled = 0;
	errcode_t rc = 0;
	__u64 groups = 0, rem = 0;

	VF_INPUT(IN);
	/* BOUND: block size 1024<<LOGBS, BPG blocks per group, descriptor size DESC: concrete per query; sizes < 2^SBITS */
	ASSUME(IN.req > VF_FIRST && IN.req < (1ULL << SBITS));
	ASSUME(IN.old_blocks > VF_FIRST && IN.old_blocks < (1ULL << SBITS));
	ASSUME(IN.old_free <= IN.old_blocks && IN.old_rsv <= IN.old_blocks);
	/* ASSUME: geometry as mke2fs produces it: inodes per group a multiple of 8, 8..8*blocksize; inode table smaller
	 * than half a group; reserved GDT blocks <= blocksize/4 */
#ifdef IPG
	ASSUME(IN.ipg == IPG);
#endif
	ASSUME(IN.ipg >= 8 && IN.ipg <= 8 * VF_BS && (IN.ipg & 7) == 0);
	ASSUME(IN.itb >= 1 && IN.itb <= BPG / 2);
	ASSUME(IN.rsv_gdt <= VF_BS / 4);
	ASSUME(IN.sparse <= 1 && IN.sparse2 <= 1);

	vf_fill(&vf_sb); vf_fill(&vf_sb2); vf_fill(&vf_osb);
	vf_fs_init(&vf_fs, &vf_sb); vf_fs_init(&vf_fs2, &vf_sb2); vf_fs_init(&vf_old, &vf_osb);

	pred = IN.req;
	adjust_new_size(&vf_fs, &pred);			/* what main() predicts */
	PROP(ext2fs_blocks_count(&vf_sb) == IN.old_blocks && vf_sb.s_inodes_count == 0, "adjust_new_size does not touch the superblock");
#if CHECK == 1
	/* ---- agreement of the two real functions, and the superblock counters of the accepted geometry */
	rc = adjust_fs_info(&vf_fs2, &vf_old, 0, IN.req);	/* what resize_fs() settles on */
	settled = ext2fs_blocks_count(&vf_sb2);
	PROP(rc == VF_SENTINEL || rc == EXT2_ET_TOOSMALL || rc == EXT2_ET_TOO_MANY_INODES, "adjust_fs_info: only the documented refusals");
	if (rc != VF_SENTINEL) {
		PROP(pred == IN.req, "refused geometry: adjust_new_size leaves the request unchanged");
	} else {
		PROP(pred == settled, "adjust_new_size predicts exactly the size adjust_fs_info settles on");
		groups = (settled - VF_FIRST + BPG - 1) / BPG;
		PROP(vf_fs2.group_desc_count == groups && groups >= 1, "group count = ceil((size - first_data_block) / blocks_per_group)");
		PROP(vf_fs2.desc_blocks == (groups + VF_DPB - 1) / VF_DPB, "descriptor blocks = ceil(groups / descriptors per block)");
		PROP((__u64) VF_IPG * groups <= 0xffffffffULL && vf_sb2.s_inodes_count == VF_IPG * groups,
		     "inode count = inodes per group * groups, without 32-bit wrap");
		/* free blocks follow the size delta (32-bit counter without the 64bit feature) */
		{
			__u64 want = IN.old_free + settled - IN.old_blocks;
			if (DESC == 32) want &= 0xffffffffULL;
			PROP(ext2fs_free_blocks_count(&vf_sb2) == want, "free block count changes by exactly the size delta");
		}
	}
#elif CHECK == 2
	/* ---- the predicted size against the format rules stated in the harness */
	(void) rc; (void) settled;
	settled = pred;
	groups = (settled - VF_FIRST + BPG - 1) / BPG;
	rem = (settled - VF_FIRST) % BPG;
	PROP(settled <= IN.req && settled > VF_FIRST, "settled size is not larger than requested and not empty");
	PROP(settled == IN.req || rem == 0, "a reduced size ends on a group boundary");
	PROP(IN.req - settled < 2ULL * BPG, "the reduction is less than two groups");
	/* ASSUME: no sparse_super2 in this check (the last-group rule then depends on s_backup_bgs bookkeeping that
	 * adjust_fs_info() does later; agreement of the two functions under sparse_super2 is in CHECK 1) */
	ASSUME(!IN.sparse2);
	if (ref_acceptable(IN.req))
		PROP(settled == IN.req, "an acceptable request is not reduced");
	if (settled != IN.req)
		PROP(ref_acceptable(settled), "a reduced size satisfies the last-group and inode-count rules of the format");
	if (settled == IN.req && !ref_acceptable(IN.req)) {
		/* left alone although unacceptable: only where resize_fs() will refuse the request */
		__u64 g = ref_groups(IN.req);
		__u64 g2 = ref_last_ok(IN.req) ? g : g - 1;	/* groups once a too-small last group is dropped */
		PROP(g == 1 || (g2 - 1) * VF_IPG > 0xffffffffULL,
		     "an unacceptable request is left unreduced only when it will be refused (single group too small / too many inodes)");
	}
	again = settled;
	adjust_new_size(&vf_fs, &again);
	PROP(again == settled, "settling is idempotent");
#else
#error CHECK
#endif
	VF_END();
	return 0;
}
