/*
 * C14/dirblk_p: "verification on every read path, set on every write path" for
 * directory blocks -- the real ext2fs_read_dir_block4() / ext2fs_write_dir_block4()
 * of lib/ext2fs/dirblock.c (and the oldest wrappers ext2fs_read_dir_block() /
 * ext2fs_write_dir_block()), pattern P (protocol).
 *
 * The device is a small array of blocks with fully symbolic content.
 * ext2fs_dir_block_csum_verify() is a stub with a SYMBOLIC verdict that records
 * what it is shown; ext2fs_dir_block_csum_set() is a stub that records what it is
 * shown, stores a symbolic token in the last four bytes of the block (where the
 * dirent tail / dx tail checksum lives is decided by csum_t OBJ=8/9) and may fail.
 *
 * Read: exactly the requested block is read; unless EXT2_FLAG_IGNORE_CSUM_ERRORS is
 * set the verifier is called once, with the caller's inode number, on exactly the
 * bytes that came from the device (before any change); a block whose verdict is
 * bad yields EXT2_ET_DIR_CSUM_INVALID -- never 0 --, a good one 0; a device error
 * is returned as is; the caller's buffer holds the device bytes.
 * Write: the checksum is set (with the caller's inode number) on the caller's
 * bytes BEFORE the device write, and the bytes that reach the device are exactly
 * the bytes the setter left (token included); a failing setter is propagated and
 * nothing is written; a device error is returned.
 */
#include "lib/ext2fs/dirblock.c"

#ifndef OP
#define OP 1		/* 1 read4, 2 write4, 3 ext2fs_read_dir_block (inode unknown: 0), 4 ext2fs_write_dir_block */
#endif
#ifndef IGN
#define IGN 0
#endif
/* BOUND: block size 16 bytes, device of 4 blocks, every byte symbolic; block number (64 bit, < 4), inode number, the
 * DIRENT_FLAG_* argument and all other bits of fs->flags symbolic; EXT2_FLAG_IGNORE_CSUM_ERRORS concrete per query */
#define BS 16
#define NB 4

struct vf_in {
	unsigned char dev[NB][BS];	/* device content */
	unsigned char in[BS];		/* caller's block (write) */
	unsigned long long block;
	__u32 ino;
	int flags;
	unsigned int fsflags;
	unsigned char bad, rfail, wfail, setfail;
	unsigned char tok[4];		/* what the setter stores */
};
VF_DECLARE_INPUT(struct vf_in, IN)
#include "vf_input.inc"

static struct struct_ext2_filsys vf_fs;
static struct struct_io_channel vf_io;
static unsigned char vf_buf[BS] __attribute__((aligned(8)));
static unsigned char vf_seen[BS], vf_written[BS];
static int vf_nreads, vf_nverify, vf_nset, vf_nwrites, vf_bad_io, vf_set_after_write;
static ext2_ino_t vf_inum;
static unsigned long long vf_wblk;

/* STUB: io_channel_read_blk64() copies one block of the device array; IN.rfail: EXT2_ET_SHORT_READ */
errcode_t io_channel_read_blk64(io_channel channel, unsigned long long block, int count, void *data)
{
	unsigned char *d = data;
	int b, k;
	vf_nreads++;
	if (channel != &vf_io || count != 1 || block != IN.block)
		vf_bad_io = 1;
	if (IN.rfail)
		return EXT2_ET_SHORT_READ;
	for (b = 0; b < NB; b++)
		if ((unsigned long long) b == block)
			for (k = 0; k < BS; k++)
				d[k] = IN.dev[b][k];
	return 0;
}
/* STUB: io_channel_write_blk64() records block number and bytes; IN.wfail: EXT2_ET_SHORT_WRITE */
errcode_t io_channel_write_blk64(io_channel channel, unsigned long long block, int count, const void *data)
{
	const unsigned char *d = data;
	int k;
	vf_nwrites++;
	if (channel != &vf_io || count != 1)
		vf_bad_io = 1;
	vf_wblk = block;
	for (k = 0; k < BS; k++)
		vf_written[k] = d[k];
	return IN.wfail ? EXT2_ET_SHORT_WRITE : 0;
}
/* STUB: ext2fs_dir_block_csum_verify() answers with the symbolic verdict IN.bad and records inode number and the bytes shown (its arithmetic: csum_t OBJ=8, 9) */
int ext2fs_dir_block_csum_verify(ext2_filsys fs, ext2_ino_t inum, struct ext2_dir_entry *dirent)
{
	const unsigned char *d = (const unsigned char *) dirent;
	int k;
	vf_nverify++;
	if (fs != &vf_fs)
		vf_bad_io = 1;
	vf_inum = inum;
	for (k = 0; k < BS; k++)
		vf_seen[k] = d[k];
	return IN.bad == 0;
}
/* STUB: ext2fs_dir_block_csum_set() records inode number and the bytes shown, then stores the token IN.tok in the last 4 bytes; IN.setfail: EXT2_ET_DIR_NO_SPACE_FOR_CSUM, block untouched */
errcode_t ext2fs_dir_block_csum_set(ext2_filsys fs, ext2_ino_t inum, struct ext2_dir_entry *dirent)
{
	unsigned char *d = (unsigned char *) dirent;
	int k;
	vf_nset++;
	if (fs != &vf_fs)
		vf_bad_io = 1;
	if (vf_nwrites)
		vf_set_after_write = 1;
	vf_inum = inum;
	for (k = 0; k < BS; k++)
		vf_seen[k] = d[k];
	if (IN.setfail)
		return EXT2_ET_DIR_NO_SPACE_FOR_CSUM;
	for (k = 0; k < 4; k++)
		d[BS - 4 + k] = IN.tok[k];
	return 0;
}

int main(void)
{
	errcode_t ret;
	int b, k, same;

	VF_INPUT(IN);
	ASSUME(IN.block < NB);
	vf_fs.magic = EXT2_ET_MAGIC_EXT2FS_FILSYS;
	vf_fs.io = &vf_io;
	vf_fs.blocksize = BS;
	vf_fs.flags = (IN.fsflags & ~EXT2_FLAG_IGNORE_CSUM_ERRORS) | (IGN ? EXT2_FLAG_IGNORE_CSUM_ERRORS : 0);

#if OP == 1 || OP == 3
#if OP == 1
	ret = ext2fs_read_dir_block4(&vf_fs, IN.block, vf_buf, IN.flags, IN.ino);
#else
	ASSUME(IN.block <= 0xFFFFFFFFu);
	ret = ext2fs_read_dir_block(&vf_fs, (blk_t) IN.block, vf_buf);
#endif
	PROP(vf_nreads == 1 && !vf_bad_io && vf_nwrites == 0, "read_dir_block: exactly the requested block is read, once, from fs->io");
	if (IN.rfail) {
		PROP(ret == EXT2_ET_SHORT_READ, "read_dir_block: a device error is returned");
	} else {
		PROP(vf_nverify == (IGN ? 0 : 1), "read_dir_block: the block is verified exactly once (not at all under IGNORE_CSUM_ERRORS)");
		same = 1;
		for (b = 0; b < NB; b++)
			if ((unsigned long long) b == IN.block)
				for (k = 0; k < BS; k++) {
					if (!IGN && vf_seen[k] != IN.dev[b][k])
						same = 0;
					if (vf_buf[k] != IN.dev[b][k])
						same = 0;
				}
		PROP(same, "read_dir_block: the verifier sees, and the caller gets, exactly the device bytes of that block");
		if (!IGN)
			PROP(vf_inum == (OP == 1 ? IN.ino : 0), "read_dir_block: the verifier gets the caller's inode number");
		PROP(!(IN.bad && !IGN) || ret != 0, "read_dir_block: a block that failed verification is never returned as good");
		PROP(ret == ((IN.bad && !IGN) ? EXT2_ET_DIR_CSUM_INVALID : 0),
		     "read_dir_block: EXT2_ET_DIR_CSUM_INVALID iff checked and the verdict is bad, else 0");
	}
#else
	for (k = 0; k < BS; k++)
		vf_buf[k] = IN.in[k];
#if OP == 2
	ret = ext2fs_write_dir_block4(&vf_fs, IN.block, vf_buf, IN.flags, IN.ino);
#else
	ASSUME(IN.block <= 0xFFFFFFFFu);
	ret = ext2fs_write_dir_block(&vf_fs, (blk_t) IN.block, vf_buf);
#endif
	PROP(vf_nset == 1 && !vf_set_after_write && vf_nreads == 0 && vf_nverify == 0,
	     "write_dir_block: the checksum is set exactly once, before the device write");
	PROP(vf_inum == (OP == 2 ? IN.ino : 0), "write_dir_block: the setter gets the caller's inode number");
	same = 1;
	for (k = 0; k < BS; k++)
		if (vf_seen[k] != IN.in[k])
			same = 0;
	PROP(same, "write_dir_block: the setter is shown the caller's bytes");
	if (IN.setfail) {
		PROP(ret == EXT2_ET_DIR_NO_SPACE_FOR_CSUM && vf_nwrites == 0,
		     "write_dir_block: a failing checksum setter is propagated and nothing is written");
	} else {
		PROP(vf_nwrites == 1 && !vf_bad_io && vf_wblk == IN.block, "write_dir_block: one write of one block to the requested block number");
		same = 1;
		for (k = 0; k < BS; k++)
			if (vf_written[k] != (k >= BS - 4 ? IN.tok[k - (BS - 4)] : IN.in[k]))
				same = 0;
		PROP(same, "write_dir_block: the bytes that reach the device are the caller's bytes with the checksum the setter stored");
		PROP(ret == (IN.wfail ? EXT2_ET_SHORT_WRITE : 0), "write_dir_block: result is the device write's result");
	}
#endif
	VF_END();
	return 0;
}
