/*
 * C14/readinode_p: "verification on every read path" for single inode reads --
 * the real ext2fs_read_inode2() of lib/ext2fs/inode.c with its 4-entry inode
 * cache, pattern P (protocol).
 *
 * TWO consecutive reads of the same inode number on the same handle, with flags
 * F1 then F2 (each 0 or READ_INODE_NOCSUM, concrete per query), the cache
 * initially empty (-DPRE=0) or full of other inodes (-DPRE=1).  The device is a
 * token disk (inode n carries n in i_generation, the inode read carries a
 * symbolic payload in i_size); ext2fs_inode_csum_verify() is a stub with a
 * SYMBOLIC verdict for the inode (its arithmetic is csum_t OBJ=1).
 *
 * Property: a read WITHOUT READ_INODE_NOCSUM returns EXT2_ET_INODE_CSUM_INVALID
 * iff the verdict for that inode is bad -- whether or not an earlier NOCSUM read
 * of the same inode happened: an inode whose checksum was not verified good is
 * never served from the cache to a checked read.  A NOCSUM read, and every read
 * under EXT2_FLAG_IGNORE_CSUM_ERRORS, returns 0 (as the code documents).  In
 * every case the bytes returned are the bytes on the device.
 */
#include "lib/ext2fs/inode.c"

#ifndef F1
#define F1 READ_INODE_NOCSUM
#endif
#ifndef F2
#define F2 0
#endif
#ifndef PRE
#define PRE 0
#endif
#ifndef IGN
#define IGN 0
#endif
/* BOUND: one group of 16 inodes of 256 bytes, block size 1024, inode table at block 10; inode number 3 (concrete);
 * two consecutive reads; flags, cache pre-state and IGNORE_CSUM_ERRORS concrete per query; verdict and payload symbolic */
#define ISZ 256
#define INO 3
#define ITAB 10

struct vf_in {
	unsigned char bad;	/* checksum verdict of inode INO */
	__u32 data;		/* payload (i_size) of inode INO on the device */
};
VF_DECLARE_INPUT(struct vf_in, IN)
#include "vf_input.inc"

struct vf_slot { struct ext2_inode_large i; char pad[ISZ - sizeof(struct ext2_inode_large)]; };
static struct struct_ext2_filsys vf_fs;
static struct ext2_super_block vf_sb;
static struct struct_io_channel vf_io;
static unsigned char vf_gd[32] __attribute__((aligned(8)));
static struct ext2_inode_cache vf_icache;
static struct ext2_inode_cache_ent vf_ent[4];
static struct vf_slot vf_cslot[4] __attribute__((aligned(8)));
static struct vf_slot vf_blockbuf[1024 / ISZ] __attribute__((aligned(8)));
static struct vf_slot vf_out __attribute__((aligned(8)));
static const struct vf_slot vf_zero_slot;
static int vf_nreads, vf_nverify, vf_shown_wrong_bytes, vf_bad_read;

/* STUB: io_channel_read_blk64() serves inode-table blocks of the token disk, never fails */
errcode_t io_channel_read_blk64(io_channel channel, unsigned long long block, int count, void *data)
{
	struct vf_slot *d = (struct vf_slot *) data;
	int k;
	(void) channel;
	if (block < ITAB || block >= ITAB + 4 || count != 1) {
		vf_bad_read = 1;
		return EXT2_ET_SHORT_READ;
	}
	vf_nreads++;
	for (k = 0; k < 1024 / ISZ; k++) {
		unsigned int n = (unsigned int) (block - ITAB) * (1024 / ISZ) + k + 1;
		d[k] = vf_zero_slot;
		d[k].i.i_generation = n;
		if (n == INO)
			d[k].i.i_size = IN.data;
	}
	return 0;
}

/* STUB: ext2fs_inode_csum_verify() answers with the symbolic verdict and checks it is shown the device bytes of the inode */
int ext2fs_inode_csum_verify(ext2_filsys fs, ext2_ino_t inum, struct ext2_inode_large *inode)
{
	(void) fs;
	vf_nverify++;
	if (inum != INO || inode->i_generation != inum || inode->i_size != IN.data)
		vf_shown_wrong_bytes = 1;
	return IN.bad == 0;
}

static errcode_t ref_want(int flags)
{
	if (IGN || (flags & READ_INODE_NOCSUM))
		return 0;
	return IN.bad ? EXT2_ET_INODE_CSUM_INVALID : 0;
}

int main(void)
{
	errcode_t r1, r2;
	int k;

	VF_INPUT(IN);
	vf_sb.s_rev_level = 1;
	vf_sb.s_inode_size = ISZ;
	vf_sb.s_inodes_count = 16;
	vf_sb.s_inodes_per_group = 16;
	vf_sb.s_first_data_block = 1;
	vf_sb.s_blocks_count = 100;
	vf_sb.s_feature_ro_compat = 0x0400;
	vf_gd[8] = ITAB;
	vf_fs.magic = EXT2_ET_MAGIC_EXT2FS_FILSYS;
	vf_fs.super = &vf_sb;
	vf_fs.io = &vf_io;
	vf_fs.blocksize = 1024;
	vf_fs.flags = IGN ? EXT2_FLAG_IGNORE_CSUM_ERRORS : 0;
	vf_fs.group_desc_count = 1;
	vf_fs.group_desc = (struct opaque_ext2_group_desc *) vf_gd;
	vf_fs.inode_blocks_per_group = 4;
	/* the cache as ext2fs_create_inode_cache(fs, 4) builds it */
	vf_icache.buffer = vf_blockbuf;
	vf_icache.buffer_blk = 0;
	vf_icache.cache_last = -1;
	vf_icache.cache_size = 4;
	vf_icache.refcount = 1;
	vf_icache.cache = vf_ent;
	for (k = 0; k < 4; k++) {
		vf_ent[k].inode = (struct ext2_inode *) &vf_cslot[k];
		vf_ent[k].ino = PRE ? (ext2_ino_t) (5 + k) : 0;	/* other inodes, all verified good when they entered */
		vf_cslot[k].i.i_generation = PRE ? (__u32) (5 + k) : 0;
	}
	if (PRE)
		vf_icache.cache_last = 3;
	vf_fs.icache = &vf_icache;

	r1 = ext2fs_read_inode2(&vf_fs, INO, (struct ext2_inode *) &vf_out, ISZ, F1);
	PROP(r1 == ref_want(F1), "read_inode2: first read: CSUM_INVALID iff checked and the inode's verdict is bad");
	PROP(vf_out.i.i_generation == INO && vf_out.i.i_size == IN.data, "read_inode2: first read returns the device bytes");
	vf_out = vf_zero_slot;
	r2 = ext2fs_read_inode2(&vf_fs, INO, (struct ext2_inode *) &vf_out, ISZ, F2);
	PROP(r2 == ref_want(F2), "read_inode2: second read: CSUM_INVALID iff checked and the inode's verdict is bad (cache or not)");
	PROP(vf_out.i.i_generation == INO && vf_out.i.i_size == IN.data, "read_inode2: second read returns the device bytes");
	PROP(!vf_shown_wrong_bytes && !vf_bad_read && vf_nreads >= 1,
	     "read_inode2: the verifier sees the inode's device bytes; only its inode-table block is read");
	for (k = 0; k < 4; k++)
		PROP(vf_ent[k].ino != INO || !IN.bad, "read_inode2: an inode with a bad checksum is never left in the cache");
	VF_END();
	return 0;
}
