/*
 * C14/iscan_p: "verification on every read path" for inodes -- the real inode
 * scan of lib/ext2fs/inode.c (ext2fs_get_next_inode_full, get_next_blockgroup,
 * get_next_blocks, check_inode_block_sanity), pattern P (protocol), as e2fsck
 * pass 1 runs it (EXT2_SF_WARN_GARBAGE_INODES | EXT2_SF_SKIP_MISSING_ITABLE).
 *
 * The scan state is built directly (what ext2fs_open_inode_scan leaves behind;
 * that function insists on nothing but a real channel) for a small geometry in
 * which the inode table of a group is NOT a multiple of the scan buffer:
 *   2 groups, 3 inode-table blocks per group, 2 inodes per block (inode size
 *   512, block size 1024), buffer of BUF blocks (-DBUF, default 2).
 * The device is a token disk (every inode carries its number as a tag in
 * i_generation and a symbolic "looks insane" bit), and
 * ext2fs_inode_csum_verify() is a stub answering with a SYMBOLIC verdict per
 * inode number (its arithmetic is harness csum_t OBJ=1).
 *
 * Property, for the complete scan (every call until *ino == 0):
 *   - every in-use inode of every group is returned exactly once, in order,
 *     with the bytes of THAT inode;
 *   - the error code of each call is determined by the verdicts of the block
 *     the inode lives in, exactly as inode.c documents the rule ("If more than
 *     half are insane, declare the whole block bad"; an inode is counted when
 *     its checksum fails or its block map / extent header looks insane):
 *         block garbage  -> EXT2_ET_INODE_IS_GARBAGE for every inode of it
 *         otherwise      -> EXT2_ET_INODE_CSUM_INVALID iff the verdict for that
 *                           very inode is bad, else 0;
 *   - the verifier is only ever shown inode n together with the bytes of inode n.
 */
#include "lib/ext2fs/inode.c"

#ifndef BUF
#define BUF 2		/* scan->inode_buffer_blocks */
#endif
#ifndef UNUSED
#define UNUSED 0	/* bg_itable_unused of both groups */
#endif
#ifndef IGN
#define IGN 0
#endif
#ifndef INSANE
#define INSANE 0	/* 1: every inode additionally carries a symbolic "extent head looks insane" bit */
#endif
/* BOUND: 2 groups x 3 inode-table blocks x 2 inodes (inode size 512, block size 1024), scan buffer of 1, 2 or 3 blocks,
 * bg_itable_unused 0 or 1 in both groups; geometry concrete; per-inode checksum verdict and "insane" bit symbolic */
#define NG 2
#define IPG 6
#define IPB 2
#define ISZ 512
#define BSZ 1024
#define IBPG 3
#define NINO (NG * IPG)
#define ITAB0 10
#define ITAB1 40

struct vf_in {
	unsigned char bad[NINO];	/* checksum verdict of inode n+1 */
	unsigned char insane[NINO];	/* inode n+1 carries EXT4_EXTENTS_FL over a zero i_block: extent head looks insane */
};
VF_DECLARE_INPUT(struct vf_in, IN)
#include "vf_input.inc"

static struct struct_ext2_filsys vf_fs;
static struct ext2_super_block vf_sb;
static struct struct_io_channel vf_io;
static struct ext2_struct_inode_scan vf_scan;
static unsigned char vf_gd[NG * 32] __attribute__((aligned(8)));
/* The buffers are typed as inode slots (same memory layout as the char arrays the library allocates): the fields the
 * code looks at are then scalars for the solver instead of bytes of a 2 KiB array (array theory blow-up: > 9 GB). */
struct vf_slot {
	struct ext2_inode_large i;
	char pad[ISZ - sizeof(struct ext2_inode_large)];
};
static const struct vf_slot vf_zero_slot;
static struct vf_slot vf_islots[BUF * IPB] __attribute__((aligned(8)));
static struct { struct vf_slot t; char status[BUF + 8]; } vf_tslot __attribute__((aligned(8)));
static struct vf_slot vf_oslot __attribute__((aligned(8)));
#define vf_ibuf ((char *) vf_islots)
#define vf_tbuf ((char *) &vf_tslot)
#define vf_out ((char *) &vf_oslot)
static int vf_shown_wrong_bytes, vf_bad_read;

/* STUB: io_channel_read_blk64() serves the token disk: inode-table blocks only; inode n has i_generation == n and
 * i_flags == EXT4_EXTENTS_FL iff IN.insane[n-1]; everything else zero (an unused-looking, sane inode) */
errcode_t io_channel_read_blk64(io_channel channel, unsigned long long block, int count, void *data)
{
	char *d = (char *) data;
	int j, k;
	(void) channel;
	for (j = 0; j < BUF; j++) {
		unsigned long long b = block + j;
		int g, bi;
		if (j >= count)
			break;
		if (b >= ITAB0 && b < ITAB0 + IBPG) {
			g = 0; bi = (int) (b - ITAB0);
		} else if (b >= ITAB1 && b < ITAB1 + IBPG) {
			g = 1; bi = (int) (b - ITAB1);
		} else {
			vf_bad_read = 1;
			return EXT2_ET_SHORT_READ;
		}
		for (k = 0; k < IPB; k++) {
			int n0 = g * IPG + bi * IPB + k, q;	/* 0-based inode index */
			struct ext2_inode *ino = (struct ext2_inode *) (d + j * BSZ + k * ISZ);
			unsigned char ins = 0;
			*(struct vf_slot *) (d + j * BSZ + k * ISZ) = vf_zero_slot;
#if INSANE
			for (q = 0; q < NINO; q++)
				if (q == n0)
					ins = IN.insane[q];
#else
			(void) q;
#endif
			ino->i_generation = n0 + 1;
			ino->i_flags = ins ? EXT4_EXTENTS_FL : 0;
		}
	}
	if (count > BUF)
		vf_bad_read = 1;
	return 0;
}

/* STUB: ext2fs_inode_csum_verify() answers with the symbolic verdict of inode `inum` and checks that the bytes it is
 * shown are those of inode `inum` */
int ext2fs_inode_csum_verify(ext2_filsys fs, ext2_ino_t inum, struct ext2_inode_large *inode)
{
	int q, b = 0;
	(void) fs;
	if (inode->i_generation != inum)
		vf_shown_wrong_bytes = 1;
	for (q = 0; q < NINO; q++)
		if (q + 1 == (int) inum)
			b = IN.bad[q] != 0;
	return !b;
}

static int ref_B(int n0)	/* inode index n0 counts as bad for the garbage rule */
{
	return IN.bad[n0] != 0 || (INSANE && IN.insane[n0] != 0);
}

int main(void)
{
	int g, j, c;
	ext2_ino_t ino;
	errcode_t ret;

	VF_INPUT(IN);
	vf_sb.s_rev_level = 1;
	vf_sb.s_inode_size = ISZ;
	vf_sb.s_log_block_size = 0;
	vf_sb.s_inodes_per_group = IPG;
	vf_sb.s_first_data_block = 1;
	vf_sb.s_blocks_count = 100;
	vf_sb.s_feature_ro_compat = 0x0400;		/* metadata_csum */
	vf_gd[8] = ITAB0;				/* bg_inode_table */
	vf_gd[32 + 8] = ITAB1;
	vf_gd[0x1C] = UNUSED;				/* bg_itable_unused */
	vf_gd[32 + 0x1C] = UNUSED;
	vf_fs.magic = EXT2_ET_MAGIC_EXT2FS_FILSYS;
	vf_fs.super = &vf_sb;
	vf_fs.io = &vf_io;
	vf_fs.blocksize = BSZ;
	vf_fs.flags = IGN ? EXT2_FLAG_IGNORE_CSUM_ERRORS : 0;
	vf_fs.group_desc_count = NG;
	vf_fs.group_desc = (struct opaque_ext2_group_desc *) vf_gd;
	vf_fs.inode_blocks_per_group = IBPG;
	/* the state ext2fs_open_inode_scan(fs, BUF, &scan) + ext2fs_inode_scan_flags(e2fsck's flags) leaves */
	vf_scan.magic = EXT2_ET_MAGIC_INODE_SCAN;
	vf_scan.fs = &vf_fs;
	vf_scan.inode_size = ISZ;
	vf_scan.current_group = 0;
	vf_scan.groups_left = NG - 1;
	vf_scan.inode_buffer_blocks = BUF;
	vf_scan.current_block = ITAB0;
	vf_scan.inodes_left = IPG - UNUSED;
	vf_scan.blocks_left = (IPG - UNUSED + (BSZ / ISZ - 1)) * ISZ / BSZ;
	vf_scan.inode_buffer = vf_ibuf;
	vf_scan.temp_buffer = vf_tbuf;
	vf_scan.scan_flags = EXT2_SF_DO_LAZY | EXT2_SF_SKIP_MISSING_ITABLE | EXT2_SF_WARN_GARBAGE_INODES;

	for (g = 0; g < NG; g++)
		for (j = 0; j < IPG - UNUSED; j++) {
			int n0 = g * IPG + j;
			int partner = (j % IPB) ? j - 1 : j + 1;	/* the other inode of the same block */
			int have_partner = partner < IPG - UNUSED;	/* beyond the in-use part the block is not looked at */
			int garbage = have_partner && ref_B(n0) && ref_B(g * IPG + partner);
			errcode_t want;

			ret = ext2fs_get_next_inode_full(&vf_scan, &ino, (struct ext2_inode *) vf_out, ISZ);
			PROP(ino == (ext2_ino_t) (n0 + 1), "inode scan: next inode number, each in-use inode once, in order");
			PROP(((struct ext2_inode *) vf_out)->i_generation == (__u32) (n0 + 1),
			     "inode scan: returned bytes are those of the inode returned");
#if IGN
			/* with EXT2_FLAG_IGNORE_CSUM_ERRORS the per-inode verdict is not consulted; the garbage rule still is */
			want = garbage ? EXT2_ET_INODE_IS_GARBAGE : 0;
#else
			want = garbage ? EXT2_ET_INODE_IS_GARBAGE : (IN.bad[n0] ? EXT2_ET_INODE_CSUM_INVALID : 0);
#endif
			PROP(ret == want, "inode scan: error code follows the checksum verdicts of the inode's own block");
		}
	ret = ext2fs_get_next_inode_full(&vf_scan, &ino, (struct ext2_inode *) vf_out, ISZ);
	PROP(ret == 0 && ino == 0, "inode scan: ends after the last group");
	PROP(!vf_shown_wrong_bytes, "inode scan: the verifier is shown inode n together with the bytes of inode n");
	PROP(!vf_bad_read, "inode scan: only inode-table blocks are read, at most the buffer size at a time");
	(void) c;
	VF_END();
	return 0;
}
