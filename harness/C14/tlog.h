/*
 * tlog.h -- pattern T (checksum trace): the CRC primitives are replaced by
 * logging stubs.  What the property is about here is WHAT is fed to the CRC
 * (seed chain + exact byte stream) and where/how the result is stored, not the
 * arithmetic of the CRC (that is harness crc32c_d / crc16_d).
 *
 * Every call compares its bytes AT CALL TIME (so a temporarily zeroed checksum
 * field is seen as the code presents it) with the next bytes of the expected
 * stream TL_EXPECT[] that the harness computed beforehand from the format
 * description, records its incoming crc, and returns a fresh symbolic token
 * IN.tok[k].  (Comparing instead of copying keeps ~1000 array updates per call
 * out of the formula; the check is the same.)  Because the
 * tokens are arbitrary, "call k+1 continues from the result of call k" can only
 * hold for every token if the code really chains the calls.
 *
 * Needs before inclusion: TL_MAXCALLS, TL_MAXBYTES, TL_EXPECT (array of
 * TL_MAXBYTES expected stream bytes) and the global input struct IN with a
 * member  __u32 tok[TL_MAXCALLS].
 */
#ifndef TL_MAXCALLS
#error "define TL_MAXCALLS"
#endif

static unsigned int tl_ncalls;			/* calls so far */
static __u32 tl_crc_in[TL_MAXCALLS];		/* incoming crc of call k */
static unsigned int tl_kind[TL_MAXCALLS];	/* 32 = crc32c, 16 = crc16, 33 = crc32_be */
static unsigned int tl_nbytes;			/* stream length so far */
static int tl_mismatch;				/* some byte fed differs from TL_EXPECT at its stream position */
static int tl_overflow;

static void stub_tl_reset(void)
{
	tl_ncalls = 0;
	tl_nbytes = 0;
	tl_overflow = 0;
	tl_mismatch = 0;
}

static __u32 stub_tl_call(unsigned int kind, __u32 crc, const unsigned char *p, unsigned long len)
{
	unsigned int k = tl_ncalls, i;
	__u32 tok = 0;

	if (k >= TL_MAXCALLS || len > TL_MAXBYTES || tl_nbytes + len > TL_MAXBYTES) {
		tl_overflow = 1;
		return 0;
	}
	tl_ncalls = k + 1;
	for (i = 0; i < TL_MAXCALLS; i++)
		if (i == k) {
			tl_crc_in[i] = crc;
			tl_kind[i] = kind;
			tok = IN.tok[i];
		}
	for (i = 0; i < len; i++)
		if (p[i] != TL_EXPECT[tl_nbytes + i])
			tl_mismatch = 1;
	tl_nbytes += len;
	return tok;
}

/* STUB: ext2fs_crc32c_le() logs (crc_in, bytes) and returns a fresh symbolic token (pattern T) */
__u32 ext2fs_crc32c_le(__u32 crc, unsigned char const *p, size_t len)
{
	return stub_tl_call(32, crc, p, len);
}

#ifndef TL_NO_CRC16
/* STUB: ext2fs_crc16() logs (crc_in, bytes) and returns a fresh symbolic 16-bit token (pattern T) */
crc16_t ext2fs_crc16(crc16_t crc, const void *buffer, unsigned int len)
{
	return stub_tl_call(16, crc, (const unsigned char *) buffer, len) & 0xFFFF;
}
#endif

/* the chain: first call starts from `seed`, every later call from the previous token,
 * all calls of the same kind; returns 1 iff so */
static int vf_tl_chain_ok(unsigned int kind, __u32 seed, unsigned int ncalls_min)
{
	unsigned int k;
	__u32 mask = (kind == 16) ? 0xFFFFu : 0xFFFFFFFFu;
	if (tl_overflow || tl_ncalls < ncalls_min || tl_ncalls < 1)
		return 0;
	for (k = 0; k < TL_MAXCALLS; k++) {
		if (k >= tl_ncalls)
			break;
		if (tl_kind[k] != kind)
			return 0;
		/* crc16 only ever uses the low 16 bits of the incoming value (crc16_d shows that) */
		if (k == 0) {
			if ((tl_crc_in[0] & mask) != (seed & mask))
				return 0;
		} else if ((tl_crc_in[k] & mask) != (IN.tok[k - 1] & mask))
			return 0;
	}
	return 1;
}

/* the value the LAST call returned = "the checksum" */
static __u32 vf_tl_result(void)
{
	unsigned int k;
	__u32 r = 0;
	for (k = 0; k < TL_MAXCALLS; k++)
		if (k + 1 == tl_ncalls)
			r = IN.tok[k];
	return r;
}
