/*
 * C14/bitmaps_p: "verification on every read path, set on every write path" for the
 * allocation bitmaps -- the real read_bitmaps_range_start() (the body of
 * ext2fs_read_bitmaps / every loader thread) and write_bitmaps() of
 * lib/ext2fs/rw_bitmaps.c, with the real descriptor accessors of blknum.c,
 * pattern P (protocol).
 *
 * Two groups; the group descriptors (bitmap locations, bg_flags) and the device
 * blocks are symbolic bytes.  ext2fs_{block,inode}_bitmap_csum_verify() are stubs
 * with a SYMBOLIC verdict per (group, kind) that record group, size and the bytes
 * shown; ext2fs_{block,inode}_bitmap_csum_set() record the same and store a token
 * in the descriptor; ext2fs_group_desc_csum_set()/_verify() are recording stubs
 * (arithmetic of all of them: csum_t OBJ=2..5).  The in-core bitmaps are stubs that
 * record what is loaded into / deliver what is stored in them (C16 covers them).
 *
 * Read, for each group of the range, block bitmap then inode bitmap: a group that
 * is *_UNINIT under a descriptor-checksum feature WITH a good descriptor checksum,
 * or whose bitmap location is 0 / beyond the device, loads zeroes and reads nothing;
 * otherwise exactly the block named by THAT group's descriptor is read, the
 * verifier gets that group's number, the per-group byte count and exactly the
 * bytes read, and a bad verdict ends the load with
 * EXT2_ET_BLOCK_BITMAP_CSUM_INVALID / EXT2_ET_INODE_BITMAP_CSUM_INVALID before
 * the bytes of that group (or of any later group) reach the in-core bitmap; a
 * good one loads exactly the bytes read at the group's bit offset.
 * Write, for each group: a *_UNINIT group is skipped; otherwise the checksum is
 * set for that group from exactly the bytes that are then written (in-core bits,
 * last group's padding forced to 1), the descriptor checksum is recomputed after
 * the bitmap checksum was stored, the descriptors are marked dirty, and the block
 * written to the descriptor's location is those bytes followed by 0xff padding.
 */
#include "lib/ext2fs/rw_bitmaps.c"

#ifndef OP
#define OP 1		/* 1 read_bitmaps_range_start, 2 write_bitmaps */
#endif
#ifndef FL
#define FL 3		/* 1 block bitmap, 2 inode bitmap, 3 both */
#endif
#ifndef FEAT
#define FEAT 2		/* 0 no checksums, 1 uninit_bg (gdt_csum), 2 metadata_csum */
#endif
#ifndef DESC
#define DESC 32		/* 64: 64bit feature, high halves of the locations used */
#endif
#ifndef IGN
#define IGN 0
#endif
/* BOUND: 2 groups, block size 16 bytes, 64 clusters (8 bitmap bytes) and 32 inodes (4 bitmap bytes) per group, cluster
 * ratio 1, first data block 1; descriptors of 32 or 64 bytes fully symbolic; blocks count 66..129 symbolic (last group
 * 1..64 blocks); device content is a function of (block number mod 8): 8 symbolic blocks; which bitmaps (FL), the checksum
 * feature (FEAT), descriptor size and IGNORE_CSUM_ERRORS concrete per query */
#define BS 16
#define NG 2
#define CPG 64
#define IPG 32
#define KB 0		/* kind: block bitmap */
#define KI 1		/* kind: inode bitmap */

struct vf_in {
	unsigned char gd[NG][DESC];
	unsigned char dev[8][BS];
	unsigned char core[NG][2][8];	/* in-core bitmap bytes of each group (write) */
	unsigned char bad[NG][2];	/* bitmap checksum verdict */
	unsigned char gdok[NG];		/* descriptor checksum verdict */
	unsigned char setfail[NG][2];
	unsigned char tok[NG][2];
	unsigned char iofail;		/* device block (mod 8) whose transfer fails; >= 8: none */
	unsigned char rem;		/* blocks in the last group */
	unsigned int fsflags;
};
VF_DECLARE_INPUT(struct vf_in, IN)
#include "vf_input.inc"

static struct struct_ext2_filsys vf_fs;
static struct ext2_super_block vf_sb;
static struct struct_io_channel vf_io;
static unsigned char vf_gd[NG * DESC] __attribute__((aligned(8)));
static int vf_dummy_map;

static int vf_seq, vf_bad_call, vf_nio, vf_nio_at_load;
static unsigned long long vf_last_blk;
/* per (group, kind) record; group index concrete in the encoded loops */
static struct vf_rec {
	int nverify, vsize, vseq, vnio;
	unsigned long long vblk;
	unsigned char vseen[8];
	int nload, lio;
	unsigned long long lstart, lblk;
	unsigned int lcnt;
	unsigned char lbytes[8];
	int nget;
	int nset, ssize, sseq;
	unsigned char sseen[8];
	int nwr, wseq;
	unsigned long long wblk;
	unsigned char wbytes[BS];
} vf_r[NG][2];
static int vf_gdseq[NG], vf_ngdset[NG];
static unsigned char vf_gdseen[NG][2];
static int vf_cur_g = -1, vf_cur_k = -1;

/* STUB: io_channel_alloc_buf() hands out a block-sized heap buffer */
errcode_t io_channel_alloc_buf(io_channel ch, int count, void *ptr)
{
	void *p = malloc(BS);
	(void) ch; (void) count;
	ASSUME(p != 0);
	*(void **) ptr = p;
	return 0;
}
/* STUB: io_channel_read_blk64() delivers device block (number mod 8); block IN.iofail fails with EXT2_ET_SHORT_READ */
errcode_t io_channel_read_blk64(io_channel ch, unsigned long long blk, int cnt, void *data)
{
	unsigned char *p = data;
	int b, k;
	if (ch != &vf_io || cnt != 1)
		vf_bad_call = 1;
	vf_nio++;
	vf_last_blk = blk;
	if ((blk & 7) == IN.iofail)
		return EXT2_ET_SHORT_READ;
	for (b = 0; b < 8; b++)
		if ((unsigned long long) b == (blk & 7))
			for (k = 0; k < BS; k++)
				p[k] = IN.dev[b][k];
	return 0;
}
/* STUB: io_channel_write_blk64() records block number and bytes under the (group, kind) whose checksum was set last; block IN.iofail fails */
errcode_t io_channel_write_blk64(io_channel ch, unsigned long long blk, int cnt, const void *data)
{
	const unsigned char *p = data;
	int g, k, i;
	if (ch != &vf_io || cnt != 1)
		vf_bad_call = 1;
	vf_nio++;
	vf_seq++;
	for (g = 0; g < NG; g++)
		for (k = 0; k < 2; k++)
			if (g == vf_cur_g && k == vf_cur_k) {
				vf_r[g][k].nwr++;
				vf_r[g][k].wseq = vf_seq;
				vf_r[g][k].wblk = blk;
				for (i = 0; i < BS; i++)
					vf_r[g][k].wbytes[i] = p[i];
			}
	if (vf_cur_g < 0)
		vf_bad_call = 1;
	return ((blk & 7) == IN.iofail) ? EXT2_ET_SHORT_WRITE : 0;
}

static int stub_verify(int kind, dgrp_t group, char *bitmap, int size)
{
	struct vf_rec *r;
	int i;
	if (group >= NG) {
		vf_bad_call = 1;
		return 1;
	}
	r = &vf_r[group][kind];
	r->nverify++;
	r->vsize = size;
	r->vseq = ++vf_seq;
	r->vblk = vf_last_blk;
	r->vnio = vf_nio;
	for (i = 0; i < 8; i++)
		r->vseen[i] = (unsigned char) bitmap[i];
	/* without metadata_csum the real routine accepts everything (csum_t CSUM=0) */
	return !(FEAT == 2 && IN.bad[group][kind]);
}
/* STUB: ext2fs_block_bitmap_csum_verify()/ext2fs_inode_bitmap_csum_verify() answer with the symbolic verdict IN.bad[group][kind] (always good without metadata_csum) and record group, size, bytes shown */
int ext2fs_block_bitmap_csum_verify(ext2_filsys fs, dgrp_t group, char *bitmap, int size)
{ if (fs != &vf_fs) vf_bad_call = 1; return stub_verify(KB, group, bitmap, size); }
int ext2fs_inode_bitmap_csum_verify(ext2_filsys fs, dgrp_t group, char *bitmap, int size)
{ if (fs != &vf_fs) vf_bad_call = 1; return stub_verify(KI, group, bitmap, size); }
/* STUB: ext2fs_group_desc_csum_verify() answers with the symbolic verdict IN.gdok[group] */
int ext2fs_group_desc_csum_verify(ext2_filsys fs, dgrp_t group)
{
	(void) fs;
	if (group >= NG) {
		vf_bad_call = 1;
		return 1;
	}
	return IN.gdok[group] != 0;
}

static errcode_t stub_set(int kind, dgrp_t group, char *bitmap, int size)
{
	struct vf_rec *r;
	int i;
	if (group >= NG) {
		vf_bad_call = 1;
		return 0;
	}
	r = &vf_r[group][kind];
	r->nset++;
	r->ssize = size;
	r->sseq = ++vf_seq;
	for (i = 0; i < 8; i++)
		r->sseen[i] = (unsigned char) bitmap[i];
	vf_cur_g = (int) group;
	vf_cur_k = kind;
	if (IN.setfail[group][kind])
		return EXT2_ET_INVALID_ARGUMENT;
	/* bg_block_bitmap_csum_lo at 0x18, bg_inode_bitmap_csum_lo at 0x1A */
	vf_gd[group * DESC + 0x18 + 2 * kind] = IN.tok[group][kind];
	return 0;
}
/* STUB: ext2fs_block_bitmap_csum_set()/ext2fs_inode_bitmap_csum_set() record group, size, bytes shown and store the token IN.tok[group][kind] in the descriptor's bitmap checksum field; IN.setfail: error */
errcode_t ext2fs_block_bitmap_csum_set(ext2_filsys fs, dgrp_t group, char *bitmap, int size)
{ if (fs != &vf_fs) vf_bad_call = 1; return stub_set(KB, group, bitmap, size); }
errcode_t ext2fs_inode_bitmap_csum_set(ext2_filsys fs, dgrp_t group, char *bitmap, int size)
{ if (fs != &vf_fs) vf_bad_call = 1; return stub_set(KI, group, bitmap, size); }
/* STUB: ext2fs_group_desc_csum_set() records when it ran and the bitmap checksum fields it saw */
void ext2fs_group_desc_csum_set(ext2_filsys fs, dgrp_t group)
{
	(void) fs;
	if (group >= NG) {
		vf_bad_call = 1;
		return;
	}
	vf_ngdset[group]++;
	vf_gdseq[group] = ++vf_seq;
	vf_gdseen[group][KB] = vf_gd[group * DESC + 0x18];
	vf_gdseen[group][KI] = vf_gd[group * DESC + 0x1A];
}

static void stub_load(int kind, unsigned long long start, size_t num, void *in)
{
	const unsigned char *p = in;
	unsigned long long base = 1;	/* first cluster = first data block 1; first inode 1 */
	unsigned int per = kind == KB ? CPG : IPG;
	int g, i, hit = 0;
	for (g = 0; g < NG; g++)
		if (start == base + (unsigned long long) g * per) {
			struct vf_rec *r = &vf_r[g][kind];
			hit = 1;
			r->nload++;
			r->lstart = start;
			r->lcnt = (unsigned int) num;
			r->lio = vf_nio - vf_nio_at_load;
			r->lblk = vf_last_blk;
			for (i = 0; i < 8; i++)
				r->lbytes[i] = (i < (int) (per / 8)) ? p[i] : 0;
		}
	if (!hit)
		vf_bad_call = 1;
	vf_nio_at_load = vf_nio;
}
/* STUB: ext2fs_set_{block,inode}_bitmap_range2() record, under the group whose bit offset they are given, the bit count and the bytes loaded */
errcode_t ext2fs_set_block_bitmap_range2(ext2fs_block_bitmap b, blk64_t start, size_t num, void *in)
{ (void) b; stub_load(KB, start, num, in); return 0; }
errcode_t ext2fs_set_inode_bitmap_range2(ext2fs_inode_bitmap b, __u64 start, size_t num, void *in)
{ (void) b; stub_load(KI, start, num, in); return 0; }

static void stub_get(int kind, unsigned long long start, size_t num, void *out)
{
	unsigned char *p = out;
	unsigned int per = kind == KB ? CPG : IPG;
	int g, i, hit = 0;
	for (g = 0; g < NG; g++)
		if (start == 1 + (unsigned long long) g * per && num == per) {
			hit = 1;
			vf_r[g][kind].nget++;
			for (i = 0; i < (int) (per / 8); i++)
				p[i] = IN.core[g][kind][i];
		}
	if (!hit)
		vf_bad_call = 1;
}
/* STUB: ext2fs_get_{block,inode}_bitmap_range2() deliver the symbolic in-core bytes IN.core[group][kind] of the group whose bit offset they are given */
errcode_t ext2fs_get_block_bitmap_range2(ext2fs_block_bitmap b, blk64_t start, size_t num, void *out)
{ (void) b; stub_get(KB, start, num, out); return 0; }
errcode_t ext2fs_get_inode_bitmap_range2(ext2fs_inode_bitmap b, __u64 start, size_t num, void *out)
{ (void) b; stub_get(KI, start, num, out); return 0; }

/* ---- reference: the ext4 group descriptor on disk (little endian) ---- */
static __u32 ref_le32(const unsigned char *p) { return p[0] | (p[1] << 8) | (p[2] << 16) | ((__u32) p[3] << 24); }
/* bg_block_bitmap_lo at 0x00, bg_inode_bitmap_lo at 0x04, bg_flags (le16) at 0x12; with 64bit: *_hi at 0x20 / 0x24 */
static unsigned long long ref_loc(int g, int kind)
{
	unsigned long long v = ref_le32(&IN.gd[g][kind == KB ? 0 : 4]);
#if DESC == 64
	v |= (unsigned long long) ref_le32(&IN.gd[g][kind == KB ? 0x20 : 0x24]) << 32;
#endif
	return v;
}
/* EXT2_BG_INODE_UNINIT 0x0001, EXT2_BG_BLOCK_UNINIT 0x0002 */
static int ref_uninit(int g, int kind)
{
	unsigned int fl = IN.gd[g][0x12] | (IN.gd[g][0x13] << 8);
	return (fl & (kind == KB ? 0x0002 : 0x0001)) != 0;
}
static unsigned char ref_devbyte(unsigned long long blk, int i)
{
	int b;
	unsigned char v = 0;
	for (b = 0; b < 8; b++)
		if ((unsigned long long) b == (blk & 7))
			v = IN.dev[b][i];
	return v;
}

int main(void)
{
	errcode_t rc, want = 0;
	int g, k, i, stopped = 0, tail = 0, any = 0;
	unsigned long long nblocks;
	unsigned int before;

	VF_INPUT(IN);
	ASSUME(IN.rem >= 1 && IN.rem <= CPG);
	nblocks = 1 + CPG + IN.rem;
	vf_sb.s_rev_level = EXT2_DYNAMIC_REV;
	vf_sb.s_first_data_block = 1;
	vf_sb.s_blocks_count = (__u32) nblocks;
	vf_sb.s_blocks_per_group = CPG;
	vf_sb.s_clusters_per_group = CPG;
	vf_sb.s_inodes_per_group = IPG;
	vf_sb.s_inodes_count = NG * IPG;
	vf_sb.s_feature_ro_compat = FEAT == 2 ? EXT4_FEATURE_RO_COMPAT_METADATA_CSUM :
				    FEAT == 1 ? EXT4_FEATURE_RO_COMPAT_GDT_CSUM : 0;
#if DESC == 64
	vf_sb.s_feature_incompat = EXT4_FEATURE_INCOMPAT_64BIT;
	vf_sb.s_desc_size = 64;
#endif
	for (g = 0; g < NG; g++)
		for (i = 0; i < DESC; i++)
			vf_gd[g * DESC + i] = IN.gd[g][i];
	vf_fs.magic = EXT2_ET_MAGIC_EXT2FS_FILSYS;
	vf_fs.super = &vf_sb;
	vf_fs.io = &vf_io;
	vf_fs.blocksize = BS;
	vf_fs.cluster_ratio_bits = 0;
	vf_fs.group_desc_count = NG;
	vf_fs.group_desc = (struct opaque_ext2_group_desc *) vf_gd;
	vf_fs.block_map = (ext2fs_block_bitmap) &vf_dummy_map;
	vf_fs.inode_map = (ext2fs_inode_bitmap) &vf_dummy_map;
	vf_fs.flags = (IN.fsflags & ~(EXT2_FLAG_IGNORE_CSUM_ERRORS | EXT2_FLAG_IMAGE_FILE | EXT2_FLAG_DIRTY)) | EXT2_FLAG_RW |
		      (IGN ? EXT2_FLAG_IGNORE_CSUM_ERRORS : 0);
	before = vf_fs.flags;

#if OP == 1
	rc = read_bitmaps_range_start(&vf_fs, ((FL & 1) ? EXT2FS_BITMAPS_BLOCK : 0) | ((FL & 2) ? EXT2FS_BITMAPS_INODE : 0),
				      0, NG - 1, NULL, &tail);
	for (g = 0; g < NG; g++)
		for (k = 0; k < 2; k++) {
			struct vf_rec *r = &vf_r[g][k];
			unsigned long long loc;
			int nb = k == KB ? CPG / 8 : IPG / 8, same;
			if (!(FL & (1 << k))) {
				PROP(r->nverify == 0 && r->nload == 0, "read_bitmaps: a bitmap that was not asked for is neither verified nor loaded");
				continue;
			}
			if (stopped) {
				PROP(r->nverify == 0 && r->nload == 0, "read_bitmaps: nothing is verified or loaded after the failing group");
				continue;
			}
			loc = ref_loc(g, k);
			if ((FEAT != 0 && ref_uninit(g, k) && IN.gdok[g]) || loc >= nblocks)
				loc = 0;
			if (loc == 0) {
				same = 1;
				for (i = 0; i < nb; i++)
					if (r->lbytes[i] != 0)
						same = 0;
				PROP(r->nverify == 0 && r->nload == 1 && r->lio == 0 && same,
				     "read_bitmaps: an uninitialised / unlocated group reads nothing and loads zeroes");
			} else if ((loc & 7) == IN.iofail) {
				PROP(r->nverify == 0 && r->nload == 0, "read_bitmaps: a block that could not be read is neither verified nor loaded");
				want = k == KB ? EXT2_ET_BLOCK_BITMAP_READ : EXT2_ET_INODE_BITMAP_READ;
				stopped = 1;
				continue;
			} else {
				if (!IGN) {
					same = 1;
					for (i = 0; i < nb; i++)
						if (r->vseen[i] != ref_devbyte(loc, i))
							same = 0;
					PROP(r->nverify == 1 && r->vsize == nb && r->vblk == loc && same,
					     "read_bitmaps: the verifier gets this group's number, the per-group byte count and exactly the bytes read from this group's bitmap location");
				} else
					PROP(r->nverify == 0, "read_bitmaps: no verification under IGNORE_CSUM_ERRORS");
				if (!IGN && FEAT == 2 && IN.bad[g][k]) {
					PROP(r->nload == 0, "read_bitmaps: a bitmap that failed verification never reaches the in-core bitmap");
					want = k == KB ? EXT2_ET_BLOCK_BITMAP_CSUM_INVALID : EXT2_ET_INODE_BITMAP_CSUM_INVALID;
					stopped = 1;
					continue;
				}
				same = 1;
				for (i = 0; i < nb; i++)
					if (r->lbytes[i] != ref_devbyte(loc, i))
						same = 0;
				PROP(r->nload == 1 && r->lio == 1 && r->lblk == loc && same,
				     "read_bitmaps: a good bitmap is loaded once, from one read of this group's location, byte for byte");
			}
			PROP(r->lstart == 1 + (unsigned long long) g * (k == KB ? CPG : IPG) && r->lcnt == (unsigned int) nb * 8,
			     "read_bitmaps: the group's bits are loaded at the group's bit offset, per-group bit count");
		}
	PROP(rc == want, "read_bitmaps: result is the first failure (READ / CSUM_INVALID of the right kind), else 0");
	PROP(!(want != 0) || rc != 0, "read_bitmaps: a failed bitmap checksum is never reported as success");
	PROP(!vf_bad_call, "read_bitmaps: every stub was called with in-range arguments on fs->io");
#else
	rc = write_bitmaps(&vf_fs, FL & 2, FL & 1);
	for (g = 0; g < NG; g++)
		for (k = 0; k < 2; k++) {
			struct vf_rec *r = &vf_r[g][k];
			unsigned long long loc;
			unsigned char e[BS];
			int nb = k == KB ? CPG / 8 : IPG / 8, same;
			if (!(FL & (1 << k)) || stopped) {
				PROP(r->nset == 0 && r->nwr == 0, "write_bitmaps: nothing is set or written for a bitmap not asked for / after a failure");
				continue;
			}
			if (FEAT != 0 && ref_uninit(g, k)) {
				PROP(r->nset == 0 && r->nwr == 0 && r->nget == 0, "write_bitmaps: an uninitialised group is skipped");
				continue;
			}
			/* the block the format wants on disk: the group's bits, padding bits all ones; in the last group the
			 * bits past the end of the filesystem are ones too */
			for (i = 0; i < BS; i++)
				e[i] = i < nb ? IN.core[g][k][i] : 0xff;
			if (k == KB && g == NG - 1 && IN.rem != CPG)
				for (i = 0; i < nb; i++) {
					int bit;
					for (bit = 0; bit < 8; bit++)
						if (i * 8 + bit >= IN.rem)
							e[i] |= (unsigned char) (1 << bit);
				}
			same = 1;
			for (i = 0; i < nb; i++)
				if (r->sseen[i] != e[i])
					same = 0;
			PROP(r->nget == 1 && r->nset == 1 && r->ssize == nb && same,
			     "write_bitmaps: the checksum is set once for this group, over the per-group byte count, from the bytes that go to disk (padding of the last group applied first)");
			any = 1;
			if (IN.setfail[g][k]) {
				PROP(r->nwr == 0, "write_bitmaps: nothing is written when the checksum could not be set");
				want = EXT2_ET_INVALID_ARGUMENT;
				stopped = 1;
				continue;
			}
			PROP(vf_gdseq[g] > r->sseq && vf_gdseen[g][k] == IN.tok[g][k],
			     "write_bitmaps: the descriptor checksum is recomputed after the bitmap checksum was stored in the descriptor");
			PROP(vf_fs.flags & EXT2_FLAG_DIRTY, "write_bitmaps: the descriptors are marked dirty");
			loc = ref_loc(g, k);
			if (loc != 0 && loc < nblocks) {
				same = 1;
				for (i = 0; i < BS; i++)
					if (r->wbytes[i] != e[i])
						same = 0;
				PROP(r->nwr == 1 && r->wblk == loc && r->wseq > r->sseq && same,
				     "write_bitmaps: the block written to this group's bitmap location is the checksummed bytes followed by 0xff padding");
				if ((loc & 7) == IN.iofail) {
					want = k == KB ? EXT2_ET_BLOCK_BITMAP_WRITE : EXT2_ET_INODE_BITMAP_WRITE;
					stopped = 1;
				}
			} else
				PROP(r->nwr == 0, "write_bitmaps: a group without a valid bitmap location is not written");
		}
	PROP(rc == want, "write_bitmaps: result is the first failure (setter error / *_BITMAP_WRITE of the right kind), else 0");
	if (rc == 0)
		PROP(vf_fs.flags == ((before & ~(((FL & 1) ? EXT2_FLAG_BB_DIRTY : 0) | ((FL & 2) ? EXT2_FLAG_IB_DIRTY : 0))) |
				     (any ? EXT2_FLAG_DIRTY : 0)),
		     "write_bitmaps: on success the written bitmaps are clean, the super/descriptors dirty iff a checksum was set, no other flag changes");
	PROP(!vf_bad_call, "write_bitmaps: every stub was called with in-range arguments on fs->io");
#endif
	VF_END();
	return 0;
}
