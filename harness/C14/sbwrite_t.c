/*
 * C14/sbwrite_t: "set on every write path" for the superblock -- the real write
 * paths of lib/ext2fs/closefs.c with the real ext2fs_superblock_csum_set() of
 * csum.c and a logging CRC stub (pattern T).
 *
 *   MODE 1  write_backup_super(fs, group, group_block, shadow)   (static; symbolic group)
 *   MODE 2  ext2fs_flush2() tail: primary superblock (reached through the
 *           journal_dev short cut, which skips the group loop; the code behind
 *           the label write_primary_superblock_only is the same for every fs),
 *           write_primary_superblock() fallback path (no orig_super)
 *
 *   MODE 3  write_primary_superblock() on the orig_super route (channel with write_byte, fs->orig_super mirrors
 *           the device): TWO consecutive calls with images A then B over a byte-array device: after each call the
 *           1024 superblock bytes on the device equal the image handed in (incremental word-wise update is
 *           invisible) and orig_super mirrors the device again.
 *
 * Property (format: s_checksum at 0x3FC = crc32c(~0, superblock[0, 0x3FC)),
 * s_block_group_nr at 0x5A = group of the copy, 0 for the primary):
 *   the 1024 bytes HANDED TO THE DEVICE carry s_block_group_nr of the copy and
 *   an s_checksum that was computed over exactly these bytes: the CRC stub logs
 *   the bytes it was fed and the device stub compares the written buffer with
 *   that log byte for byte, at the time of the write.  Without metadata_csum
 *   no CRC is computed and s_checksum is written through untouched.
 */
#include "lib/ext2fs/closefs.c"
#include "lib/ext2fs/csum.c"

#ifndef MODE
#define MODE 1
#endif
#ifndef CSUM
#define CSUM 1
#endif

/* BOUND: one superblock copy per query; every byte of the superblock symbolic except the feature words (concrete per
 * query: metadata_csum on/off; MODE 2: journal_dev + needs_recovery); group and its block number symbolic (all 2^32 / 2^64) */
struct vf_in {
	unsigned char obj[1024];
	__u32 csum_o, csum_a, csum_b;	/* MODE 3: s_checksum of the open-time image, of A and of B */
	__u32 tok;
	__u32 group;
	__u64 group_block;
	__s64 now;
};
VF_DECLARE_INPUT(struct vf_in, IN)
#include "vf_input.inc"

static struct struct_ext2_filsys vf_fs;
static struct struct_io_channel vf_io;
static struct struct_io_manager vf_mgr;
static struct ext2_super_block vf_sbW __attribute__((aligned(8)));	/* fs->super == the shadow (little-endian host) */
static unsigned char O[1024];		/* the superblock before the call */
static unsigned char vf_fed[1024];	/* what the CRC was fed */
static unsigned int vf_nfed, vf_ncrc, vf_crc_seed_ok;
static int vf_nwrites, vf_write_ok, vf_fed_equals_written, vf_rest_unchanged, vf_blksize = 4096, vf_nflush, vf_flush_before_write;
static unsigned int vf_w_group_nr, vf_w_csum, vf_w_state, vf_w_incompat, vf_w_wtime, vf_w_wtime_hi;

/* STUB: ext2fs_crc32c_le() logs the bytes it is fed (copied at call time) and returns the symbolic token IN.tok */
__u32 ext2fs_crc32c_le(__u32 crc, unsigned char const *p, size_t len)
{
	unsigned int i;
	vf_ncrc++;
	vf_crc_seed_ok = (crc == 0xFFFFFFFFu);
	if (len > 1024 || vf_nfed + len > 1024)
		return 0;
	for (i = 0; i < len; i++)
		vf_fed[vf_nfed + i] = p[i];
	vf_nfed += len;
	return IN.tok;
}
/* STUB: ext2fs_crc16() is not reached (no gdt_csum computation on these paths) */
crc16_t ext2fs_crc16(crc16_t crc, const void *buffer, unsigned int len)
{
	(void) buffer; (void) len;
	return crc;
}

/* STUB: io_channel_write_blk64() is the device: it inspects the buffer AS WRITTEN (compares with the CRC log and with
 * the original superblock at the time of the write) and records where it was written */
errcode_t io_channel_write_blk64(io_channel channel, unsigned long long block, int count, const void *data)
{
	const unsigned char *d = (const unsigned char *) data;
	unsigned int i;
	(void) channel;
	vf_nwrites++;
#if MODE == 1
	vf_write_ok = (block == IN.group_block && count == -1024);
#else
	vf_write_ok = (block == 1 && count == -1024 && vf_blksize == 1024);
	vf_flush_before_write = vf_nflush;
#endif
	vf_fed_equals_written = (vf_nfed == 0x3FC);
	vf_rest_unchanged = 1;
	for (i = 0; i < 0x3FC; i++) {
		if (d[i] != vf_fed[i])
			vf_fed_equals_written = 0;
		/* s_wtime 0x30..0x33, s_state 0x3A..0x3B, s_block_group_nr 0x5A..0x5B, s_feature_incompat 0x60..0x63,
		 * s_wtime_hi 0x274 are looked at separately */
		if (!((i >= 0x30 && i < 0x34) || (i >= 0x3A && i < 0x3C) || (i >= 0x5A && i < 0x5C) ||
		      (i >= 0x60 && i < 0x64) || i == 0x274) && d[i] != O[i])
			vf_rest_unchanged = 0;
	}
	vf_w_wtime = d[0x30] | (d[0x31] << 8) | (d[0x32] << 16) | ((unsigned int) d[0x33] << 24);
	vf_w_state = d[0x3A] | (d[0x3B] << 8);
	vf_w_group_nr = d[0x5A] | (d[0x5B] << 8);
	vf_w_incompat = d[0x60] | (d[0x61] << 8) | (d[0x62] << 16) | ((unsigned int) d[0x63] << 24);
	vf_w_wtime_hi = d[0x274];
	vf_w_csum = d[0x3FC] | (d[0x3FD] << 8) | (d[0x3FE] << 16) | ((unsigned int) d[0x3FF] << 24);
	return 0;
}
/* STUB: channel manager: flush counts, set_blksize records the block size in force */
static errcode_t stub_flush(io_channel c) { (void) c; vf_nflush++; return 0; }
static errcode_t stub_set_blksize(io_channel c, int s) { (void) c; vf_blksize = s; return 0; }

#if MODE == 3
/* BOUND: MODE 3: the open-time image and the images A, B differ from each other only in s_wtime (0x30, lower half),
 * s_checksum_seed (0x270, upper half) and s_checksum (0x3FC) with CONCRETE values per query (-DLO_x / -DUP_x / -DCS_x,
 * x in O, A, B): which words differ is a compile-time pattern (changed and changed back; unchanged then changed; ...).
 * A symbolic word makes the counter of the real word-compare loop symbolic and every later iteration (and every run
 * of the inner loop) unwinds to its bound: no verdict in 150 s even with the symbolic word last.  So this mode is a
 * solver-executed concrete scenario, not a for-all statement. */
#ifndef LO_O
#define LO_O 1
#define LO_A 2
#define LO_B 1
#endif
#ifndef UP_O
#define UP_O 1
#define UP_A 2
#define UP_B 1
#endif
#ifndef CS_O
#define CS_O 0x11111111u
#define CS_A 0x22222222u
#define CS_B 0x11111111u
#endif
/* the three images are laid out as 16 chunks of 64 bytes (same memory as a superblock): CBMC keeps per-element
 * constants only for arrays of <= 64 elements, and the real word-compare loop must see the equal words as constants */
struct vf_img { unsigned char c0[64], c1[64], c2[64], c3[64], c4[64], c5[64], c6[64], c7[64],
		c8[64], c9[64], c10[64], c11[64], c12[64], c13[64], c14[64], c15[64]; };
static struct vf_img vf_orig __attribute__((aligned(8)));
static struct vf_img vf_imgA __attribute__((aligned(8)));
static struct vf_img vf_imgB __attribute__((aligned(8)));
static void vf_img_set(struct vf_img *m, unsigned char lo, unsigned char up, __u32 csum)
{
	m->c0[0x30] = lo;			/* s_wtime, byte 0x30 */
	m->c9[0x30] = up;			/* s_checksum_seed, byte 0x270 */
	m->c15[0x3C] = csum & 255;		/* s_checksum, 0x3FC..0x3FF little-endian */
	m->c15[0x3D] = (csum >> 8) & 255;
	m->c15[0x3E] = (csum >> 16) & 255;
	m->c15[0x3F] = (csum >> 24) & 255;
}
static unsigned char vf_dev[1024];	/* the device: bytes 1024..2047 of the disk */
static int vf_dev_bad_write;
/* STUB: io_channel_write_byte() stores the bytes in the device model (only inside the primary superblock) */
errcode_t io_channel_write_byte(io_channel channel, unsigned long offset, int count, const void *data)
{
	const unsigned char *d = (const unsigned char *) data;
	int i;
	(void) channel;
	if (offset < 1024 || count < 0 || offset + count > 2048) {
		vf_dev_bad_write = 1;
		return 0;
	}
	for (i = 0; i < 1024; i++)
		if (i < count)
			vf_dev[offset - 1024 + i] = d[i];
	return 0;
}
static errcode_t stub_write_byte(io_channel c, unsigned long o, int n, const void *d)
{
	return io_channel_write_byte(c, o, n, d);
}
static int vf_dev_equals(const struct vf_img *img)
{
	const unsigned char *p = (const unsigned char *) img;
	int i;
	for (i = 0; i < 1024; i++)
		if (vf_dev[i] != p[i])
			return 0;
	return 1;
}
#endif

static unsigned int ref_le32(const unsigned char *p)
{
	return p[0] | (p[1] << 8) | (p[2] << 16) | ((unsigned int) p[3] << 24);
}

int main(void)
{
	unsigned char *w = (unsigned char *) &vf_sbW;
	errcode_t rc;
	unsigned int i;

	VF_INPUT(IN);
#if MODE == 3
	vf_img_set(&vf_orig, LO_O, UP_O, CS_O);
	vf_img_set(&vf_imgA, LO_A, UP_A, CS_A);
	vf_img_set(&vf_imgB, LO_B, UP_B, CS_B);
	for (i = 0; i < 1024; i++)
		vf_dev[i] = ((unsigned char *) &vf_orig)[i];	/* orig_super is the image read at open time */
	vf_mgr.write_byte = stub_write_byte;
	vf_mgr.flush = stub_flush;
	vf_mgr.set_blksize = stub_set_blksize;
	vf_io.manager = &vf_mgr;
	vf_fs.magic = EXT2_ET_MAGIC_EXT2FS_FILSYS;
	vf_fs.super = (struct ext2_super_block *) &vf_imgA;
	vf_fs.io = &vf_io;
	vf_fs.blocksize = 4096;
	vf_fs.orig_super = (struct ext2_super_block *) &vf_orig;
	rc = write_primary_superblock(&vf_fs, (struct ext2_super_block *) &vf_imgA);
	PROP(rc == 0 && !vf_dev_bad_write && vf_nwrites == 0, "primary sb (incremental): first update succeeds, byte writes inside the superblock only");
	PROP(vf_dev_equals(&vf_imgA), "primary sb (incremental): after the first update the device holds image A");
	vf_fs.super = (struct ext2_super_block *) &vf_imgB;
	rc = write_primary_superblock(&vf_fs, (struct ext2_super_block *) &vf_imgB);
	PROP(rc == 0 && !vf_dev_bad_write && vf_nwrites == 0, "primary sb (incremental): second update succeeds, byte writes inside the superblock only");
	PROP(vf_dev_equals(&vf_imgB), "primary sb (incremental): after the second update the device holds image B");
	PROP(vf_dev_equals(&vf_orig), "primary sb (incremental): orig_super mirrors the device");
	(void) w;
	VF_END();
	return 0;
#endif
	for (i = 0; i < 1024; i++)
		w[i] = IN.obj[i];
	vf_sbW.s_feature_compat = 0;
	vf_sbW.s_feature_ro_compat = CSUM ? 0x0400 : 0;		/* metadata_csum */
	vf_sbW.s_feature_incompat = (MODE == 2) ? (0x0008 | 0x0004) : 0;	/* journal_dev + needs_recovery */
	for (i = 0; i < 1024; i++)
		O[i] = w[i];
	vf_mgr.flush = stub_flush;
	vf_mgr.set_blksize = stub_set_blksize;
	vf_io.manager = &vf_mgr;
	vf_fs.magic = EXT2_ET_MAGIC_EXT2FS_FILSYS;
	vf_fs.super = &vf_sbW;
	vf_fs.io = &vf_io;
	vf_fs.blocksize = 4096;
	vf_fs.flags = EXT2_FLAG_DIRTY;
	vf_fs.flags2 = EXT2_FLAG2_USE_FAKE_TIME;
	vf_fs.now = IN.now;
	vf_fs.orig_super = 0;

#if MODE == 1
	rc = write_backup_super(&vf_fs, IN.group, IN.group_block, &vf_sbW);
	PROP(rc == 0 && vf_nwrites == 1 && vf_write_ok, "backup sb: one write of 1024 bytes at the group's superblock block");
	PROP(vf_w_group_nr == (IN.group > 65535 ? 65535 : IN.group), "backup sb: written s_block_group_nr is the group of the copy");
	PROP(vf_w_state == (O[0x3A] | (O[0x3B] << 8)) && vf_w_incompat == 0 && vf_w_wtime == ref_le32(O + 0x30) &&
	     vf_w_wtime_hi == O[0x274] && vf_rest_unchanged, "backup sb: every other byte below 0x3FC written as it was");
#else
	rc = ext2fs_flush2(&vf_fs, 0);
	PROP(rc == 0 && vf_nwrites == 1 && vf_write_ok, "primary sb: one write of 1024 bytes at byte offset 1024");
	PROP(vf_w_group_nr == 0, "primary sb: written s_block_group_nr is 0");
	PROP(vf_w_state == (O[0x3A] | (O[0x3B] << 8)) && vf_w_incompat == (0x0008 | 0x0004),
	     "primary sb: s_state and s_feature_incompat written with their values from before the flush");
	PROP(vf_w_wtime == (__u32) (IN.now & 0xFFFFFFFF) && vf_w_wtime_hi == ((IN.now >> 32) & 3),
	     "primary sb: s_wtime is the time of the flush");
	PROP(vf_rest_unchanged, "primary sb: every other byte below 0x3FC written as it was");
	PROP(vf_flush_before_write == 1 && vf_nflush == 2 && !(vf_fs.flags & EXT2_FLAG_DIRTY),
	     "primary sb: channel flushed before and after the write, fs marked clean");
#endif
#if CSUM
	PROP(vf_ncrc == 1 && vf_crc_seed_ok, "sb write: one crc32c run seeded with ~0");
	PROP(vf_fed_equals_written, "sb write: the checksum was computed over the bytes [0,0x3FC) as written");
	PROP(vf_w_csum == IN.tok, "sb write: written s_checksum is that crc, little-endian at 0x3FC");
#else
	PROP(vf_ncrc == 0, "sb write without metadata_csum: no crc computed");
	PROP(vf_w_csum == ref_le32(O + 0x3FC), "sb write without metadata_csum: s_checksum written through untouched");
#endif
	VF_END();
	return 0;
}
