/*
 * C14/extget_p: "verification on every read path" for extent blocks -- the real
 * ext2fs_extent_get() on a depth-2 extent tree, pattern P (protocol).
 *
 * Real code: lib/ext2fs/extent.c:ext2fs_extent_get(), ext2fs_extent_header_verify().
 * The handle is built directly by the harness in a state that the public API
 * reaches (after ext2fs_extent_get(ROOT), or standing on a leaf entry), the
 * device is a token disk of 6 tiny extent blocks, and
 * ext2fs_extent_block_csum_verify() is a stub whose verdict for each block is a
 * SYMBOLIC input bit (the arithmetic of that routine is harness csum_t OBJ=7).
 *
 * Property: for one call with a composite or simple move
 * (NEXT_LEAF / LAST_LEAF / PREV_LEAF / DOWN / NEXT): if ANY block read during
 * the call failed verification and EXT2_FLAG_IGNORE_CSUM_ERRORS is off, the
 * call returns EXT2_ET_EXTENT_CSUM_INVALID -- in particular never 0 -- no
 * matter in which iteration of the internal retry loop the block was read;
 * without a failed block (or with the flag) it returns 0.  Every block read is
 * handed to the verifier, with the inode number of the handle.
 *
 * Tree (block size 36 bytes = header + 2 entries; root in i_block):
 *   root (depth 2): idx -> blk 10, idx -> blk 11
 *   blk 10 (depth 1): idx -> 20, 21        blk 11 (depth 1): idx -> 22, 23
 *   blk 20..23 (depth 0): NL extents each
 */
#include "lib/ext2fs/extent.c"

/* BOUND: extent tree of depth 2, 2 index entries per interior node, NL (1 or 2) extents per leaf, block size 36 bytes
 * (ext2fs_extent_header_verify accepts eh_max in [blocksize/12 - 3, blocksize/12 - 1]); tree shape, block numbers and the
 * start position are concrete per query; logical block numbers, extent payload, per-block checksum verdicts symbolic */
#define BS 36
#ifndef NL
#define NL 2
#endif
#ifndef SCEN
#define SCEN 0		/* 0: at the root's first entry (state after EXT2_EXTENT_ROOT)
			 * 1: on the last extent of leaf 21, all of subtree 10 visited
			 * 2: on the first extent of leaf 22, nothing of subtree 11 left behind */
#endif
#ifndef OP
#define OP EXT2_EXTENT_NEXT_LEAF
#endif
#ifndef IGN
#define IGN 0		/* 1: EXT2_FLAG_IGNORE_CSUM_ERRORS set */
#endif

struct vf_in {
	unsigned char bad[6];		/* checksum verdict per block: index 0,1 = blk 10,11; 2..5 = blk 20..23 */
	__u32 lblk[6][2];		/* ei_block / ee_block of the entries of each block */
	__u32 rlblk[2];			/* ei_block of the root entries */
	__u16 len[4][2];		/* ee_len of leaf extents */
	__u32 pblk[4][2];		/* ee_start */
	__u32 ino;
};
VF_DECLARE_INPUT(struct vf_in, IN)
#include "vf_input.inc"

static struct struct_ext2_filsys vf_fs;
static struct struct_io_channel vf_io;
static struct ext2_extent_handle vf_h;
static struct extent_path vf_path[3];
static char vf_buf1[BS] __attribute__((aligned(8)));
static char vf_buf2[BS] __attribute__((aligned(8)));

static int vf_nreads, vf_nverify, vf_any_bad, vf_last_id = -1, vf_verify_mismatch;

static void vf_put16(char *p, unsigned int v) { p[0] = v & 255; p[1] = (v >> 8) & 255; }
static void vf_put32(char *p, __u32 v) { vf_put16(p, v & 0xFFFF); vf_put16(p + 2, v >> 16); }

static int vf_id_of(unsigned long long blk)
{
	switch (blk) {
	case 10: return 0;
	case 11: return 1;
	case 20: return 2;
	case 21: return 3;
	case 22: return 4;
	case 23: return 5;
	}
	return -1;
}

/* the token disk: content of block `id` (structure concrete, payload symbolic) */
static void vf_fill(char *buf, int id)
{
	int i, k;
	for (i = 0; i < BS; i++)
		buf[i] = 0;
	vf_put16(buf + 0, 0xF30A);			/* eh_magic */
	vf_put16(buf + 4, 2);				/* eh_max */
	if (id < 2) {
		vf_put16(buf + 2, 2);			/* eh_entries */
		vf_put16(buf + 6, 1);			/* eh_depth */
		for (k = 0; k < 2; k++) {
			vf_put32(buf + 12 + 12 * k, IN.lblk[id][k]);
			vf_put32(buf + 12 + 12 * k + 4, 20 + 2 * id + k);	/* ei_leaf */
		}
	} else {
		vf_put16(buf + 2, NL);
		vf_put16(buf + 6, 0);
		for (k = 0; k < NL; k++) {
			vf_put32(buf + 12 + 12 * k, IN.lblk[id][k]);
			vf_put16(buf + 12 + 12 * k + 4, IN.len[id - 2][k]);
			vf_put32(buf + 12 + 12 * k + 8, IN.pblk[id - 2][k]);
		}
	}
}

/* STUB: io_channel_read_blk64() reads one block of the token disk, records it, never fails */
errcode_t io_channel_read_blk64(io_channel channel, unsigned long long block, int count, void *data)
{
	int id = vf_id_of(block);
	(void) channel;
	if (id < 0 || count != 1)
		return EXT2_ET_SHORT_READ;
	vf_fill((char *) data, id);
	vf_last_id = id;
	vf_nreads++;
	return 0;
}

/* STUB: ext2fs_extent_block_csum_verify() answers with the symbolic per-block verdict IN.bad[] of the block that
 * was read last, and records that a failed block was seen */
int ext2fs_extent_block_csum_verify(ext2_filsys fs, ext2_ino_t inum, struct ext3_extent_header *eh)
{
	int i, b = 0;
	(void) fs; (void) eh;
	vf_nverify++;
	if (inum != IN.ino || vf_nverify != vf_nreads)
		vf_verify_mismatch = 1;
	for (i = 0; i < 6; i++)
		if (i == vf_last_id)
			b = IN.bad[i] != 0;
	if (b)
		vf_any_bad = 1;
	return !b;
}

static void vf_node(int level, char *buf, unsigned long long blk, int entries, int cur, int visit)
{
	vf_path[level].buf = buf;
	vf_path[level].blk = blk;
	vf_path[level].entries = entries;
	vf_path[level].max_entries = level ? 2 : 4;
	vf_path[level].left = entries - 1 - cur;
	vf_path[level].curr = buf + 12 + 12 * cur;
	vf_path[level].visit_num = visit;
	vf_path[level].end_blk = 0xFFFFFFFFu;
}

int main(void)
{
	struct ext2fs_extent ext;
	errcode_t ret;
	char *root;
	int k, want_reads;

	VF_INPUT(IN);
	vf_fs.blocksize = BS;
	vf_fs.flags = IGN ? EXT2_FLAG_IGNORE_CSUM_ERRORS : 0;
	vf_fs.io = &vf_io;
	vf_fs.image_io = &vf_io;
	vf_h.magic = EXT2_ET_MAGIC_EXTENT_HANDLE;
	vf_h.fs = &vf_fs;
	vf_h.ino = IN.ino;
	vf_h.inode = &vf_h.inodebuf;
	vf_h.type = 0xF30A;
	vf_h.max_depth = 2;
	vf_h.max_paths = 3;
	vf_h.path = vf_path;
	root = (char *) vf_h.inodebuf.i_block;
	vf_put16(root + 0, 0xF30A);
	vf_put16(root + 2, 2);
	vf_put16(root + 4, 4);
	vf_put16(root + 6, 2);
	for (k = 0; k < 2; k++) {
		vf_put32(root + 12 + 12 * k, IN.rlblk[k]);
		vf_put32(root + 12 + 12 * k + 4, 10 + k);
	}
	vf_path[1].buf = vf_buf1;
	vf_path[2].buf = vf_buf2;
#if SCEN == 0
	vf_h.level = 0;
	vf_node(0, root, 0, 2, 0, 0);
#elif SCEN == 1
	vf_h.level = 2;
	vf_node(0, root, 0, 2, 0, 1);
	vf_fill(vf_buf1, 0);
	vf_node(1, vf_buf1, 10, 2, 1, 1);
	vf_fill(vf_buf2, 3);
	vf_node(2, vf_buf2, 21, NL, NL - 1, 0);
#else
	vf_h.level = 2;
	vf_node(0, root, 0, 2, 1, 0);
	vf_fill(vf_buf1, 1);
	vf_node(1, vf_buf1, 11, 2, 0, 0);
	vf_fill(vf_buf2, 4);
	vf_node(2, vf_buf2, 22, NL, 0, 0);
#endif

	ret = ext2fs_extent_get(&vf_h, OP, &ext);

	/* how many blocks the move has to read in this scenario (from the tree, not from the code) */
#if OP == EXT2_EXTENT_NEXT_LEAF || OP == EXT2_EXTENT_LAST_LEAF || OP == EXT2_EXTENT_PREV_LEAF
	want_reads = (SCEN == 1 && OP == EXT2_EXTENT_LAST_LEAF) ? -1 : 2;
#else
	want_reads = (SCEN == 0) ? 1 : 0;
#endif
	PROP(!vf_verify_mismatch && vf_nverify == (IGN ? 0 : vf_nreads),
	     "extent_get: every block read is verified (unless IGNORE_CSUM_ERRORS), with the handle's inode number");
	PROP(!(vf_any_bad && !IGN) || ret != 0, "extent_get: a block that failed its checksum never yields success");
	PROP(!(vf_any_bad && !IGN) || ret == EXT2_ET_EXTENT_CSUM_INVALID,
	     "extent_get: a failed block is reported as EXT2_ET_EXTENT_CSUM_INVALID");
	PROP((vf_any_bad && !IGN) || ret == 0, "extent_get: no checksum failure, the move succeeds");
	if (want_reads >= 0)
		PROP(vf_nreads == want_reads, "extent_get: number of blocks read");
#if OP == EXT2_EXTENT_NEXT_LEAF || OP == EXT2_EXTENT_LAST_LEAF || OP == EXT2_EXTENT_PREV_LEAF
	PROP(vf_h.level == 2, "extent_get: composite move ends on a leaf");
#endif
	VF_END();
	return 0;
}
