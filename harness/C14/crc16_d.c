/*
 * C14/crc16_d: lib/ext2fs/crc16.c against the mathematical definition of the
 * reflected CRC-16 with generator x^16 + x^15 + x^2 + 1 (0x8005, reflected
 * 0xA001) -- pattern D.
 *   MODE 1  every table entry (index symbolic) == 8 bitwise division steps
 *   MODE 2  ext2fs_crc16(crc, buf, LEN) == bitwise definition, for every 32-bit
 *           incoming value, every content, LEN concrete per query; for LEN >= 1
 *           only the low 16 bits of the incoming value matter (callers pass ~0)
 */
#include "lib/ext2fs/crc16.c"

#ifndef MODE
#define MODE 2
#endif
#ifndef LEN
#define LEN 2
#endif
/* BOUND: buffer length 0..3 bytes (one query per length) */
struct vf_in {
	unsigned int crc;
	unsigned char idx;
	unsigned char buf[4];
};
VF_DECLARE_INPUT(struct vf_in, IN)
#include "vf_input.inc"

/* one message bit at a time, LSB first; this is the definition, no table */
static unsigned int ref_crc16_byte(unsigned int crc, unsigned char b)
{
	int i;
	crc ^= b;
	for (i = 0; i < 8; i++)
		crc = (crc & 1) ? ((crc >> 1) ^ 0xA001u) : (crc >> 1);
	return crc & 0xFFFFu;
}

int main(void)
{
	VF_INPUT(IN);
#if MODE == 1
	PROP(crc16_table[IN.idx] == ref_crc16_byte(0, IN.idx), "crc16 table entry equals 8 bitwise steps");
#else
	{
		unsigned int want = IN.crc, got;
		int i;
		for (i = 0; i < LEN; i++)
			want = ref_crc16_byte(want & 0xFFFFu, IN.buf[i]);
		got = ext2fs_crc16(IN.crc, IN.buf, LEN);
		PROP(got == want, "crc16 equals bitwise definition");
#if LEN > 0
		PROP(got <= 0xFFFFu, "crc16 result fits 16 bits");
		PROP(got == ext2fs_crc16(IN.crc & 0xFFFFu, IN.buf, LEN), "crc16 ignores bits above 16 of the incoming value");
#endif
	}
#endif
	VF_END();
	return 0;
}
