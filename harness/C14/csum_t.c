/*
 * C14/csum_t: coverage, seed chain and storage of every per-object metadata
 * checksum of lib/ext2fs/csum.c (pattern T).
 *
 * The CRC primitives are logging stubs (tlog.h).  For one fully symbolic object
 * of the type selected by -DOBJ the harness runs the real *_csum_verify() and
 * then the real *_csum_set() and asserts, against an INDEPENDENT description of
 * the ext4 on-disk format (written from Documentation/filesystems/ext4
 * "Checksums" and the per-structure tables; numeric offsets, not the library's
 * struct members or helper macros):
 *   - the chain starts from the right seed and every call continues the
 *     previous one;
 *   - the byte stream fed to the CRC is exactly the covered range, with the
 *     checksum field(s) presented as zero / left out, prefixed by the le32/le64
 *     identity terms (inode number, generation, group, block number);
 *   - verify returns true iff the stored field equals the (truncated) result,
 *     and leaves the object unchanged;
 *   - set stores the result at the right offset, little-endian, split lo/hi as
 *     the format says, and changes no other byte.
 * This is the check that sees SYMMETRIC omissions (a term dropped from both
 * set and verify), which the test-suite cannot.
 */
#include "lib/ext2fs/csum.c"

#define O_INODE   1
#define O_GD_MC   2
#define O_GD_CRC16 3
#define O_BBITMAP 4
#define O_IBITMAP 5
#define O_XATTR   6
#define O_EXTENT  7
#define O_DIRENT  8
#define O_DX      9
#define O_SUPER   10
#define O_MMP     11
#define O_SEED    12

#ifndef OBJ
#define OBJ O_INODE
#endif
#ifndef CSUM
#define CSUM 1		/* 1: metadata_csum set; 0: neither metadata_csum nor gdt_csum */
#endif

/* BOUND: inode size 128 or 256 (-DISIZE), descriptor size 32, 64 or 128 (-DDESC), block size 64 for xattr/extent/dx blocks,
 * 1024 for directory leaf blocks (-DBS); two groups; bitmap size argument 0..8 bytes */
#ifndef ISIZE
#define ISIZE 256
#endif
#ifndef DESC
#define DESC 32
#endif
#ifndef NSTEP
#define NSTEP 4
#endif
#ifndef BS
#if OBJ == O_DIRENT || OBJ == O_SUPER || OBJ == O_MMP
#define BS 1024
#else
#define BS 64
#endif
#endif
#define NG 2
#define BMAX 8

#if OBJ == O_INODE
#define OSZ ISIZE
#elif OBJ == O_GD_MC || OBJ == O_GD_CRC16 || OBJ == O_BBITMAP || OBJ == O_IBITMAP
#define OSZ (NG * DESC)
#elif OBJ == O_SUPER || OBJ == O_MMP
#define OSZ 1024
#elif OBJ == O_SEED
#define OSZ 8
#else
#define OSZ BS
#endif

#define TL_MAXCALLS 6
#define TL_MAXBYTES (OSZ + 32)

struct vf_in {
	unsigned char obj[OSZ];		/* the metadata object, every byte symbolic */
	unsigned char bm[BMAX];		/* bitmap content */
	unsigned char uuid[16];
	__u32 tok[TL_MAXCALLS];		/* what the CRC stub returns, call by call */
	__u32 seed;			/* fs->csum_seed */
	__u32 inum, gen, group;
	__u64 blk;
	int bmsize;
	__u32 f_compat, f_incompat, f_ro_compat;	/* OBJ=SEED: the three feature words */
	__u32 sb_seed;
};
VF_DECLARE_INPUT(struct vf_in, IN)
#include "vf_input.inc"
static unsigned char E[TL_MAXBYTES];	/* expected stream, built from the format description BEFORE the real call */
static unsigned int en;
#define TL_EXPECT E
#include "tlog.h"

static struct struct_ext2_filsys vf_fs;
static struct ext2_super_block vf_sb;
#if OBJ == O_DIRENT
/* The leaf block the real code works on is laid out as a struct whose small members (the rec_len fields of the
 * chain) are separate from the large symbolic remainders, so that CBMC's field sensitivity propagates the concrete
 * rec_len values into the real chain walk (inside one 1024-byte array with symbolic content nothing is constant).
 * Memory layout is exactly a 1024-byte block. */
#ifndef R1
#define R1 1012
#endif
struct vf_blk {
	unsigned char h0[4], r0[2], b0[R1 - 6];
#ifdef R2
	unsigned char h1[4], r1[2], b1[R2 - 6];
#ifdef R3
	unsigned char h2[4], r2[2], b2[R3 - 6];
#define VF_CHAIN (R1 + R2 + R3)
#else
#define VF_CHAIN (R1 + R2)
#endif
#else
#define VF_CHAIN (R1)
#endif
	unsigned char rest[BS - VF_CHAIN];
};
static struct vf_blk vf_blkW __attribute__((aligned(8)));
#define W ((unsigned char *) &vf_blkW)
#else
static unsigned char W[OSZ + 8] __attribute__((aligned(8)));	/* the object the real code works on */
#endif
static ext2_ino_t vf_asked_ino;
static int vf_read_inode_calls;

/* STUB: ext2fs_read_inode() succeeds and returns an inode whose i_generation is the symbolic IN.gen
 * (the dirent/dx/extent checksums only use that field); the inode number asked for is recorded */
errcode_t ext2fs_read_inode(ext2_filsys fs, ext2_ino_t ino, struct ext2_inode *inode)
{
	static const struct ext2_inode zero;
	(void) fs;
	*inode = zero;
	inode->i_generation = IN.gen;
	vf_asked_ino = ino;
	vf_read_inode_calls++;
	return 0;
}

/* ---- reference helpers (format side) ---- */
static unsigned int ref_le16(const unsigned char *p) { return p[0] | (p[1] << 8); }
static __u32 ref_le32(const unsigned char *p)
{
	return (__u32) p[0] | ((__u32) p[1] << 8) | ((__u32) p[2] << 16) | ((__u32) p[3] << 24);
}
static void ref_e_le32(__u32 v)
{
	E[en] = v & 255; E[en + 1] = (v >> 8) & 255; E[en + 2] = (v >> 16) & 255; E[en + 3] = (v >> 24) & 255;
	en += 4;
}
static void ref_e_le64(__u64 v)
{
	ref_e_le32((__u32) v);
	ref_e_le32((__u32) (v >> 32));
}
/* obj[from,to) with the byte ranges [z1,z1+zl1) and [z2,z2+zl2) presented as zero */
static void ref_e_range_zeroed(const unsigned char *o, unsigned int from, unsigned int to,
			       unsigned int z1, unsigned int zl1, unsigned int z2, unsigned int zl2)
{
	unsigned int i;
	for (i = from; i < to; i++) {
		unsigned char b = o[i];
		if ((i >= z1 && i < z1 + zl1) || (i >= z2 && i < z2 + zl2))
			b = 0;
		E[en++] = b;
	}
}
static int vf_stream_equal(void)
{
	return !tl_overflow && !tl_mismatch && tl_nbytes == en;
}
/* W == IN.obj except inside [a,a+al) and [b,b+bl) */
static int vf_unchanged_except(unsigned int a, unsigned int al, unsigned int b, unsigned int bl)
{
	unsigned int i;
	for (i = 0; i < OSZ; i++) {
		if ((i >= a && i < a + al) || (i >= b && i < b + bl))
			continue;
		if (W[i] != IN.obj[i])
			return 0;
	}
	return 1;
}
static void vf_load(void)
{
	unsigned int i;
#if OBJ == O_DIRENT
	unsigned int o = 0;
#define VF_LD(m) for (i = 0; i < sizeof(vf_blkW.m); i++) vf_blkW.m[i] = IN.obj[o + i]; o += sizeof(vf_blkW.m);
	VF_LD(h0) VF_LD(r0) VF_LD(b0)
#ifdef R2
	VF_LD(h1) VF_LD(r1) VF_LD(b1)
#ifdef R3
	VF_LD(h2) VF_LD(r2) VF_LD(b2)
#endif
#endif
	VF_LD(rest)
#else
	for (i = 0; i < OSZ; i++)
		W[i] = IN.obj[i];
#endif
}

static void vf_setup_fs(void)
{
	unsigned int i;
	/* BOUND: the feature words are concrete per query (only the bits csum.c looks at are ever set: metadata_csum,
	 * gdt_csum, 64bit); a symbolic word with fixed bits does not constant-propagate and makes the solver
	 * explore both sides of every feature test.  OBJ=SEED runs with all three words fully symbolic. */
	__u32 ro = 0, inc = 0;
#if CSUM == 1 && OBJ != O_GD_CRC16
	ro |= 0x0400u;
#endif
#if OBJ == O_GD_CRC16
	ro |= 0x0010u;
#endif
#if DESC >= 64
	inc |= 0x0080u;
#endif
	vf_sb.s_feature_compat = 0;
	vf_sb.s_feature_incompat = inc;
	vf_sb.s_feature_ro_compat = ro;
	vf_sb.s_rev_level = 1;			/* EXT2_DYNAMIC_REV: s_inode_size is valid */
	vf_sb.s_inode_size = ISIZE;
	/* ASSUME: s_desc_size is 64 or 128 with the 64bit feature and 0 (ignored) without */
	vf_sb.s_desc_size = (DESC >= 64) ? DESC : 0;
	vf_sb.s_checksum_seed = IN.sb_seed;
	for (i = 0; i < 16; i++)
		vf_sb.s_uuid[i] = IN.uuid[i];
	vf_fs.super = &vf_sb;
	vf_fs.blocksize = BS;
	vf_fs.csum_seed = IN.seed;
	vf_fs.flags = 0;			/* little-endian host: no EXT2_FLAG_SWAP_BYTES */
	vf_fs.group_desc_count = NG;
	vf_fs.group_desc = (struct opaque_ext2_group_desc *) W;
}

int main(void)
{
	int r;
	errcode_t rc;
	__u32 tok, provided, calc;
	unsigned int i;

	VF_INPUT(IN);
	vf_setup_fs();
	vf_load();
	stub_tl_reset();

/* ======================================================================== */
#if OBJ == O_INODE
	/* format: crc32c(seed, le32 inum | i_generation (0x64, as on disk) | whole inode of s_inode_size bytes with
	 * i_checksum_lo (0x7C) zero and, iff the inode is larger than 128 bytes and i_extra_isize (0x80) >= 4,
	 * i_checksum_hi (0x82) zero).  Stored lo 16 bits at 0x7C, hi 16 bits at 0x82 iff has_hi; otherwise only
	 * the low 16 bits are compared. */
	{
		int has_hi = ISIZE > 128 && ref_le16(IN.obj + 0x80) >= 4;
		int allzero = 1;
		for (i = 0; i < 128; i++)
			if (IN.obj[i])
				allzero = 0;
		en = 0;
		ref_e_le32(IN.inum);
		ref_e_range_zeroed(IN.obj, 0x64, 0x68, 0, 0, 0, 0);
		ref_e_range_zeroed(IN.obj, 0, ISIZE, 0x7C, 2, 0x82, has_hi ? 2 : 0);

		r = ext2fs_inode_csum_verify(&vf_fs, IN.inum, (struct ext2_inode_large *) W);
#if CSUM == 0
		PROP(r == 1 && tl_ncalls == 0, "inode verify without metadata_csum accepts, no crc");
#else
		PROP(vf_tl_chain_ok(32, IN.seed, 1), "inode verify: seed chain");
		PROP(vf_stream_equal(), "inode verify: covered bytes");
		tok = vf_tl_result();
		provided = ref_le16(IN.obj + 0x7C) | (has_hi ? (__u32) ref_le16(IN.obj + 0x82) << 16 : 0);
		calc = has_hi ? tok : (tok & 0xFFFF);
		/* the all-zero exemption (an all-zero base inode is accepted) is e2fsprogs' documented behaviour */
		PROP((r != 0) == (provided == calc || allzero), "inode verify: result");
#endif
		PROP(vf_unchanged_except(0, 0, 0, 0), "inode verify: object unchanged");

		stub_tl_reset();
		rc = ext2fs_inode_csum_set(&vf_fs, IN.inum, (struct ext2_inode_large *) W);
		PROP(rc == 0, "inode set: success");
#if CSUM == 0
		PROP(tl_ncalls == 0 && vf_unchanged_except(0, 0, 0, 0), "inode set without metadata_csum is a no-op");
#else
		PROP(vf_tl_chain_ok(32, IN.seed, 1), "inode set: seed chain");
		PROP(vf_stream_equal(), "inode set: covered bytes");
		tok = vf_tl_result();
		PROP(ref_le16(W + 0x7C) == (tok & 0xFFFF), "inode set: lo stored");
		PROP(!has_hi || ref_le16(W + 0x82) == (tok >> 16), "inode set: hi stored");
		PROP(vf_unchanged_except(0x7C, 2, 0x82, has_hi ? 2 : 0), "inode set: nothing else changed");
#endif
	}
/* ======================================================================== */
#elif OBJ == O_GD_MC || OBJ == O_GD_CRC16
	/* (kernel ext4_group_desc_csum / Documentation/filesystems/ext4/group_descr.rst)
	 * metadata_csum: crc32c(seed, le32 group | desc[0,0x1E) | 00 00 | desc[0x20, s_desc_size)) & 0xFFFF -- ALL s_desc_size
	 *                bytes (32 without the 64bit feature), also when s_desc_size exceeds the 64-byte structure.
	 * gdt_csum:      crc16(~0, uuid | le32 group | desc[0,0x1E) | desc[0x20, s_desc_size)) (the field is skipped).
	 * Stored le16 at 0x1E. */
	{
		unsigned int g, base = 0, j;
		unsigned char D[DESC];
		/* ASSUME: the group exists (callers iterate group < group_desc_count) */
		ASSUME(IN.group < NG);
		g = IN.group;
		for (i = 0; i < NG; i++)
			if (i == g)
				base = i * DESC;
		en = 0;
		for (j = 0; j < DESC; j++)		/* the descriptor of group g, selected without symbolic indices */
			for (i = 0; i < NG; i++)
				if (i == g)
					D[j] = IN.obj[i * DESC + j];
#if OBJ == O_GD_MC
		ref_e_le32(g);
		ref_e_range_zeroed(D, 0, DESC, 0x1E, 2, 0, 0);
#else
		for (i = 0; i < 16; i++)
			E[en++] = IN.uuid[i];
		ref_e_le32(g);
		ref_e_range_zeroed(D, 0, 0x1E, 0, 0, 0, 0);
		ref_e_range_zeroed(D, 0x20, DESC, 0, 0, 0, 0);
#endif
		r = ext2fs_group_desc_csum_verify(&vf_fs, g);
#if CSUM == 0 && OBJ == O_GD_MC
		PROP(r == 1 && tl_ncalls == 0, "gd verify without csum features accepts, no crc");
#else
#if OBJ == O_GD_MC
		PROP(vf_tl_chain_ok(32, IN.seed, 1), "gd verify: seed chain");
#else
		PROP(vf_tl_chain_ok(16, 0xFFFF, 1), "gd verify: seed chain");
#endif
		PROP(vf_stream_equal(), "gd verify: covered bytes");
		tok = vf_tl_result();
		provided = 0;
		for (i = 0; i < NG; i++)
			if (i == g)
				provided = ref_le16(IN.obj + i * DESC + 0x1E);
		PROP((r != 0) == (provided == (tok & 0xFFFF)), "gd verify: result");
#endif
		PROP(vf_unchanged_except(0, 0, 0, 0), "gd verify: object unchanged");

		stub_tl_reset();
		ext2fs_group_desc_csum_set(&vf_fs, g);
#if CSUM == 0 && OBJ == O_GD_MC
		PROP(tl_ncalls == 0 && vf_unchanged_except(0, 0, 0, 0), "gd set without csum features is a no-op");
#else
#if OBJ == O_GD_MC
		PROP(vf_tl_chain_ok(32, IN.seed, 1), "gd set: seed chain");
#else
		PROP(vf_tl_chain_ok(16, 0xFFFF, 1), "gd set: seed chain");
#endif
		PROP(vf_stream_equal(), "gd set: covered bytes");
		tok = vf_tl_result();
		provided = 0;
		for (i = 0; i < NG; i++)
			if (i == g)
				provided = ref_le16(W + i * DESC + 0x1E);
		PROP(provided == (tok & 0xFFFF), "gd set: stored");
		PROP(vf_unchanged_except(base + 0x1E, 2, 0, 0), "gd set: nothing else changed");
#endif
	}
/* ======================================================================== */
#elif OBJ == O_BBITMAP || OBJ == O_IBITMAP
	/* format: crc32c(seed, bitmap[0,size)); low 16 bits at 0x18 (block) / 0x1A (inode); high 16 bits at
	 * 0x38 (block) / 0x3A (inode) iff the descriptor is 64 bytes; with 32-byte descriptors only the low
	 * 16 bits are compared */
	{
		unsigned int g, base = 0;
		unsigned int lo_off = (OBJ == O_BBITMAP) ? 0x18 : 0x1A;
		unsigned int hi_off = (OBJ == O_BBITMAP) ? 0x38 : 0x3A;
		int has_hi = DESC >= 64;
		ASSUME(IN.group < NG);
		/* ASSUME: size argument within the bitmap buffer (callers pass clusters_per_group/8, inodes_per_group/8) */
		ASSUME(IN.bmsize >= 0 && IN.bmsize <= BMAX);
		g = IN.group;
		for (i = 0; i < NG; i++)
			if (i == g)
				base = i * DESC;
		en = 0;
		for (i = 0; i < BMAX; i++)
			E[i] = IN.bm[i];
		en = IN.bmsize;
#if OBJ == O_BBITMAP
		r = ext2fs_block_bitmap_csum_verify(&vf_fs, g, (char *) IN.bm, IN.bmsize);
#else
		r = ext2fs_inode_bitmap_csum_verify(&vf_fs, g, (char *) IN.bm, IN.bmsize);
#endif
#if CSUM == 0
		PROP(r == 1 && tl_ncalls == 0, "bitmap verify without metadata_csum accepts, no crc");
#else
		PROP(vf_tl_chain_ok(32, IN.seed, 1), "bitmap verify: seed chain");
		PROP(vf_stream_equal(), "bitmap verify: covered bytes");
		tok = vf_tl_result();
		provided = 0;
		for (i = 0; i < NG; i++)
			if (i == g) {
				provided = ref_le16(IN.obj + i * DESC + lo_off);
				if (has_hi)
					provided |= (__u32) ref_le16(IN.obj + i * DESC + (DESC >= 64 ? hi_off : 0)) << 16;
			}
		calc = has_hi ? tok : (tok & 0xFFFF);
		PROP((r != 0) == (provided == calc), "bitmap verify: result");
#endif
		PROP(vf_unchanged_except(0, 0, 0, 0), "bitmap verify: descriptor unchanged");

		stub_tl_reset();
#if OBJ == O_BBITMAP
		rc = ext2fs_block_bitmap_csum_set(&vf_fs, g, (char *) IN.bm, IN.bmsize);
#else
		rc = ext2fs_inode_bitmap_csum_set(&vf_fs, g, (char *) IN.bm, IN.bmsize);
#endif
		PROP(rc == 0, "bitmap set: success");
#if CSUM == 0
		PROP(tl_ncalls == 0 && vf_unchanged_except(0, 0, 0, 0), "bitmap set without metadata_csum is a no-op");
#else
		PROP(vf_tl_chain_ok(32, IN.seed, 1), "bitmap set: seed chain");
		PROP(vf_stream_equal(), "bitmap set: covered bytes");
		tok = vf_tl_result();
		for (i = 0; i < NG; i++)
			if (i == g) {
				PROP(ref_le16(W + i * DESC + lo_off) == (tok & 0xFFFF), "bitmap set: lo stored");
				if (has_hi)
					PROP(ref_le16(W + i * DESC + (DESC >= 64 ? hi_off : 0)) == (tok >> 16),
					     "bitmap set: hi stored");
			}
		PROP(vf_unchanged_except(base + lo_off, 2, base + hi_off, has_hi ? 2 : 0),
		     "bitmap set: nothing else changed");
#endif
	}
/* ======================================================================== */
#elif OBJ == O_XATTR
	/* format: crc32c(seed, le64 block number | whole block with h_checksum (0x10) zero); stored le32 at 0x10 */
	{
		en = 0;
		ref_e_le64(IN.blk);
		ref_e_range_zeroed(IN.obj, 0, BS, 0x10, 4, 0, 0);
		r = ext2fs_ext_attr_block_csum_verify(&vf_fs, IN.inum, IN.blk, (struct ext2_ext_attr_header *) W);
#if CSUM == 0
		PROP(r == 1 && tl_ncalls == 0, "xattr verify without metadata_csum accepts, no crc");
#else
		PROP(vf_tl_chain_ok(32, IN.seed, 1), "xattr verify: seed chain");
		PROP(vf_stream_equal(), "xattr verify: covered bytes");
		tok = vf_tl_result();
		PROP((r != 0) == (ref_le32(IN.obj + 0x10) == tok), "xattr verify: result");
#endif
		PROP(vf_unchanged_except(0, 0, 0, 0), "xattr verify: object unchanged");
		stub_tl_reset();
		rc = ext2fs_ext_attr_block_csum_set(&vf_fs, IN.inum, IN.blk, (struct ext2_ext_attr_header *) W);
		PROP(rc == 0, "xattr set: success");
#if CSUM == 0
		PROP(tl_ncalls == 0 && vf_unchanged_except(0, 0, 0, 0), "xattr set without metadata_csum is a no-op");
#else
		PROP(vf_tl_chain_ok(32, IN.seed, 1), "xattr set: seed chain");
		PROP(vf_stream_equal(), "xattr set: covered bytes");
		tok = vf_tl_result();
		PROP(ref_le32(W + 0x10) == tok, "xattr set: stored");
		PROP(vf_unchanged_except(0x10, 4, 0, 0), "xattr set: nothing else changed");
#endif
	}
/* ======================================================================== */
#elif OBJ == O_EXTENT
	/* format: crc32c(seed, le32 inum | le32 generation | extent block[0, 12 + 12*eh_max)); stored le32 right
	 * behind the eh_max entries */
	{
		unsigned int eh_max = ref_le16(IN.obj + 4), size, j;
		/* ASSUME: the tail lies inside the block: 12 + 12*eh_max + 4 <= blocksize (ext2fs_extent_header_verify
		 * is run by every caller before the checksum is looked at) */
		ASSUME(12 + 12 * eh_max + 4 <= BS);
		size = 12 + 12 * eh_max;
		en = 0;
		ref_e_le32(IN.inum);
		ref_e_le32(IN.gen);
		for (i = 0; i < BS; i++)
			if (i < size)
				E[8 + i] = IN.obj[i];
		en = 8 + size;
		r = ext2fs_extent_block_csum_verify(&vf_fs, IN.inum, (struct ext3_extent_header *) W);
#if CSUM == 0
		PROP(r == 1 && tl_ncalls == 0, "extent verify without metadata_csum accepts, no crc");
#else
		PROP(vf_asked_ino == IN.inum, "extent verify: generation of the owning inode");
		PROP(vf_tl_chain_ok(32, IN.seed, 1), "extent verify: seed chain");
		PROP(vf_stream_equal(), "extent verify: covered bytes");
		tok = vf_tl_result();
		provided = 0;
		for (j = 0; j + 4 <= BS; j += 4)
			if (j == size)
				provided = ref_le32(IN.obj + j);
		PROP((r != 0) == (provided == tok), "extent verify: result");
#endif
		PROP(vf_unchanged_except(0, 0, 0, 0), "extent verify: object unchanged");
		stub_tl_reset();
		vf_asked_ino = 0;
		rc = ext2fs_extent_block_csum_set(&vf_fs, IN.inum, (struct ext3_extent_header *) W);
		PROP(rc == 0, "extent set: success");
#if CSUM == 0
		PROP(tl_ncalls == 0 && vf_unchanged_except(0, 0, 0, 0), "extent set without metadata_csum is a no-op");
#else
		PROP(vf_asked_ino == IN.inum, "extent set: generation of the owning inode");
		PROP(vf_tl_chain_ok(32, IN.seed, 1), "extent set: seed chain");
		PROP(vf_stream_equal(), "extent set: covered bytes");
		tok = vf_tl_result();
		provided = ~tok;
		for (j = 0; j + 4 <= BS; j += 4)
			if (j == size)
				provided = ref_le32(W + j);
		PROP(provided == tok, "extent set: stored");
		PROP(vf_unchanged_except(size, 4, 0, 0), "extent set: nothing else changed");
#endif
	}
/* ======================================================================== */
#elif OBJ == O_DIRENT || OBJ == O_DX
	/* Directory blocks through the public entry points ext2fs_dir_block_csum_verify/_set.
	 * leaf:  the rec_len chain ends exactly at blocksize-12 and the 12 bytes there are the tail
	 *        {inode 0, rec_len 12, name_len 0, file_type 0xDE};
	 *        crc32c(seed, le32 inum | le32 gen | block[0, blocksize-12)), stored le32 at blocksize-4.
	 * htree: dx node = fake dirent {rec_len == blocksize, name_len/type 0}, count/limit at 8;
	 *        dx root = "." rec_len 12, ".." rec_len blocksize-12, root info at 0x18 with reserved_zero 0 and
	 *        info_length 8, count/limit at 0x20;  limit, count <= (blocksize - count_offset)/8 and
	 *        count_offset + 8*limit + 8 <= blocksize;
	 *        crc32c(seed, le32 inum | le32 gen | block[0, count_offset + 8*count) | dt_reserved (4 bytes at
	 *        count_offset + 8*limit) | 00 00 00 00), stored le32 at count_offset + 8*limit + 4.
	 * anything else: verify fails, set returns EXT2_ET_DIR_NO_SPACE_FOR_CSUM. */
	{
		int kind = 0;		/* 0 none, 1 leaf, 2 htree */
		unsigned int co = 0, limit = 0, count = 0, size = 0, toff = 0, coff = 0, j;
#if OBJ == O_DIRENT
		{
			/* BOUND: the rec_len chain of the 1024-byte leaf block has a concrete shape per query (-DR1/-DR2/-DR3 =
			 * rec_len of the first three entries: valid chains of 1..3 entries, an overshooting one, a corrupt
			 * one); every other byte of the block, including the tail, is symbolic.  A fully symbolic chain
			 * (symbolic entry positions in a 1024-byte block) exceeded 8 GB. */
			unsigned int off = 0, steps, bad = 0;
			IN.obj[4] = R1 & 255; IN.obj[5] = R1 >> 8;
			vf_blkW.r0[0] = R1 & 255; vf_blkW.r0[1] = R1 >> 8;
#ifdef R2
			IN.obj[R1 + 4] = R2 & 255; IN.obj[R1 + 5] = R2 >> 8;
			vf_blkW.r1[0] = R2 & 255; vf_blkW.r1[1] = R2 >> 8;
#ifdef R3
			IN.obj[R1 + R2 + 4] = R3 & 255; IN.obj[R1 + R2 + 5] = R3 >> 8;
			vf_blkW.r2[0] = R3 & 255; vf_blkW.r2[1] = R3 >> 8;
#endif
#endif
			for (steps = 0; steps < NSTEP; steps++) {
				unsigned int rl;
				if (off >= BS - 12 || bad)
					break;
				rl = ref_le16(IN.obj + off + 4);
				if (rl < 8 || (rl & 3))
					bad = 1;
				else
					off += rl;
			}
			/* ASSUME: the chain is decided (ends, overshoots or is corrupt) within NSTEP entries */
			ASSUME(bad || off >= BS - 12);
			if (!bad && off == BS - 12 && ref_le32(IN.obj + BS - 12) == 0 &&
			    ref_le16(IN.obj + BS - 8) == 12 && IN.obj[BS - 6] == 0 && IN.obj[BS - 5] == 0xDE)
				kind = 1;
			/* ASSUME: leaf harness: blocks without a leaf tail that have the shape of an htree node or root (fake dirent
			 * spanning the block; or "." of 12 bytes followed by ".." spanning the rest) are the subject of OBJ=DX */
			ASSUME(kind == 1 || !((ref_le16(IN.obj + 4) == BS && IN.obj[6] == 0 && IN.obj[7] == 0) ||
					      (ref_le16(IN.obj + 4) == 12 && ref_le16(IN.obj + 12 + 4) == BS - 12)));
		}
		size = BS - 12;
		coff = BS - 4;
#else
		if (ref_le16(IN.obj + 4) == BS && IN.obj[6] == 0 && IN.obj[7] == 0) {
			kind = 2;
			co = 8;
		} else if (ref_le16(IN.obj + 4) == 12 && ref_le16(IN.obj + 12 + 4) == BS - 12 &&
			   ref_le32(IN.obj + 0x18) == 0 && IN.obj[0x1D] == 8) {
			kind = 2;
			co = 0x20;
		}
		if (kind == 2) {
			limit = ref_le16(IN.obj + co);
			count = ref_le16(IN.obj + co + 2);
			if (limit > (BS - co) / 8 || count > (BS - co) / 8 || co + 8 * limit + 8 > BS)
				kind = 0;
		}
		if (kind != 2)
			co = limit = count = 0;
		size = co + 8 * count;
		toff = co + 8 * limit;
		coff = toff + 4;
#endif
		en = 0;
		ref_e_le32(IN.inum);
		ref_e_le32(IN.gen);
		for (i = 0; i < BS; i++)
			if (i < size)
				E[8 + i] = IN.obj[i];
		en = 8 + size;
#if OBJ == O_DX
		for (j = 0; j + 4 <= BS; j += 4)	/* the tail is 4-aligned: co and 8*limit are */
			if (j == toff && kind == 2) {
				unsigned int q;
				for (q = 0; q < 4; q++)
					E[en + q] = IN.obj[j + q];
			}
		en += 4;
		for (j = 0; j < 4; j++)
			E[en + j] = 0;
		en += 4;
#endif
		r = ext2fs_dir_block_csum_verify(&vf_fs, IN.inum, (struct ext2_dir_entry *) W);
#if CSUM == 0
		PROP(r == 1 && tl_ncalls == 0, "dir verify without metadata_csum accepts, no crc");
#else
		if (kind) {
			PROP(vf_asked_ino == IN.inum, "dir verify: generation of the owning inode");
			PROP(vf_tl_chain_ok(32, IN.seed, 1), "dir verify: seed chain");
			PROP(vf_stream_equal(), "dir verify: covered bytes");
			tok = vf_tl_result();
			provided = ~tok;
			for (j = 0; j + 4 <= BS; j += 4)
				if (j == coff)
					provided = ref_le32(IN.obj + j);
			PROP((r != 0) == (provided == tok), "dir verify: result");
		} else
			PROP(r == 0, "dir verify: block without room for a checksum is rejected");
#endif
		PROP(vf_unchanged_except(0, 0, 0, 0), "dir verify: object unchanged");
		stub_tl_reset();
		vf_asked_ino = 0;
		rc = ext2fs_dir_block_csum_set(&vf_fs, IN.inum, (struct ext2_dir_entry *) W);
#if CSUM == 0
		PROP(rc == 0 && tl_ncalls == 0 && vf_unchanged_except(0, 0, 0, 0),
		     "dir set without metadata_csum is a no-op");
#else
		if (kind) {
			PROP(rc == 0, "dir set: success");
			PROP(vf_asked_ino == IN.inum, "dir set: generation of the owning inode");
			PROP(vf_tl_chain_ok(32, IN.seed, 1), "dir set: seed chain");
			PROP(vf_stream_equal(), "dir set: covered bytes");
			tok = vf_tl_result();
			provided = ~tok;
			for (j = 0; j + 4 <= BS; j += 4)
				if (j == coff)
					provided = ref_le32(W + j);
			PROP(provided == tok, "dir set: stored");
			PROP(vf_unchanged_except(coff, 4, 0, 0), "dir set: nothing else changed");
		} else {
			PROP(rc == EXT2_ET_DIR_NO_SPACE_FOR_CSUM, "dir set: no room for a checksum is reported");
			PROP(vf_unchanged_except(0, 0, 0, 0), "dir set: rejected block unchanged");
		}
#endif
	}
/* ======================================================================== */
#elif OBJ == O_SUPER || OBJ == O_MMP
	/* superblock: crc32c(~0, superblock[0, 0x3FC)) stored le32 at 0x3FC (seed is ~0, NOT the fs seed: the
	 * superblock contains the uuid).   MMP block: crc32c(seed, mmp[0, 0x3FC)) stored le32 at 0x3FC. */
	{
		en = 0;
		ref_e_range_zeroed(IN.obj, 0, 0x3FC, 0, 0, 0, 0);
#if OBJ == O_SUPER
		r = ext2fs_superblock_csum_verify(&vf_fs, (struct ext2_super_block *) W);
#else
		r = ext2fs_mmp_csum_verify(&vf_fs, (struct mmp_struct *) W);
#endif
#if CSUM == 0
		PROP(r == 1 && tl_ncalls == 0, "sb/mmp verify without metadata_csum accepts, no crc");
#else
		PROP(vf_tl_chain_ok(32, OBJ == O_SUPER ? 0xFFFFFFFFu : IN.seed, 1), "sb/mmp verify: seed chain");
		PROP(vf_stream_equal(), "sb/mmp verify: covered bytes");
		tok = vf_tl_result();
		PROP((r != 0) == (ref_le32(IN.obj + 0x3FC) == tok), "sb/mmp verify: result");
#endif
		PROP(vf_unchanged_except(0, 0, 0, 0), "sb/mmp verify: object unchanged");
		stub_tl_reset();
#if OBJ == O_SUPER
		rc = ext2fs_superblock_csum_set(&vf_fs, (struct ext2_super_block *) W);
#else
		rc = ext2fs_mmp_csum_set(&vf_fs, (struct mmp_struct *) W);
#endif
		PROP(rc == 0, "sb/mmp set: success");
#if CSUM == 0
		PROP(tl_ncalls == 0 && vf_unchanged_except(0, 0, 0, 0), "sb/mmp set without metadata_csum is a no-op");
#else
		PROP(vf_tl_chain_ok(32, OBJ == O_SUPER ? 0xFFFFFFFFu : IN.seed, 1), "sb/mmp set: seed chain");
		PROP(vf_stream_equal(), "sb/mmp set: covered bytes");
		tok = vf_tl_result();
		PROP(ref_le32(W + 0x3FC) == tok, "sb/mmp set: stored");
		PROP(vf_unchanged_except(0x3FC, 4, 0, 0), "sb/mmp set: nothing else changed");
#endif
	}
/* ======================================================================== */
#elif OBJ == O_SEED
	/* format: the filesystem seed is s_checksum_seed iff INCOMPAT_CSUM_SEED (0x2000), else crc32c(~0, s_uuid)
	 * when metadata_csum (ro_compat 0x0400) or ea_inode (incompat 0x0400) is set.  All feature words symbolic. */
	{
		vf_sb.s_feature_compat = IN.f_compat;
		vf_sb.s_feature_incompat = IN.f_incompat;
		vf_sb.s_feature_ro_compat = IN.f_ro_compat;
		en = 0;
		for (i = 0; i < 16; i++)
			E[en++] = IN.uuid[i];
		ext2fs_init_csum_seed(&vf_fs);
		if (IN.f_incompat & 0x2000u) {
			PROP(tl_ncalls == 0 && vf_fs.csum_seed == IN.sb_seed, "seed: s_checksum_seed with csum_seed");
		} else if ((IN.f_ro_compat & 0x0400u) || (IN.f_incompat & 0x0400u)) {
			PROP(vf_tl_chain_ok(32, 0xFFFFFFFFu, 1), "seed: chain starts at ~0");
			PROP(vf_stream_equal(), "seed: covers the 16 uuid bytes");
			PROP(vf_fs.csum_seed == vf_tl_result(), "seed: stored");
		} else
			PROP(tl_ncalls == 0 && vf_fs.csum_seed == IN.seed, "seed: untouched without checksum features");
	}
#else
#error "unknown OBJ"
#endif
	VF_END();
	return 0;
}
