/*
 * C14/mmp_p: "verification on every read path, set on every write path" for the
 * MMP block -- the real ext2fs_mmp_read() / ext2fs_mmp_write() of
 * lib/ext2fs/mmp.c, pattern P (protocol).
 *
 * The MMP block on the device is 1024 symbolic bytes, delivered through MMP's
 * private descriptor (open/stat/llseek/read are an environment model).
 * ext2fs_mmp_csum_verify() is a stub with a SYMBOLIC verdict recording the bytes
 * shown; ext2fs_mmp_csum_set() records the bytes shown, stores a symbolic token in
 * mmp_checksum (last 4 bytes of the 1024-byte structure) and may fail
 * (arithmetic of both: csum_t OBJ=11).
 *
 * Read: a block number outside (first data block, blocks count) is refused and
 * nothing is read; otherwise one block is read at byte offset block * blocksize,
 * the verifier is called once (unless IGNORE_CSUM_ERRORS) on exactly the bytes
 * read; a block that is not an MMP block (le32 magic 0x004D4D50 at offset 0) gives
 * EXT2_ET_MMP_MAGIC_INVALID, otherwise a bad verdict gives EXT2_ET_MMP_CSUM_INVALID
 * -- never 0; the caller's buffer receives the device bytes.
 * Write: the time stamp (le64 at offset 8) is refreshed first, the checksum is set
 * on the caller's bytes with that time stamp before the device write, the bytes
 * written (the 1024-byte structure, to the requested block of fs->io) are exactly
 * what the setter left, the channel is flushed afterwards; a failing setter is
 * propagated and nothing is written.
 */
#include <unistd.h>
#include <sys/time.h>
#include <sys/types.h>
#include <sys/stat.h>
#include <fcntl.h>
#include <stdlib.h>
#include <string.h>
#include "config.h"
#include "ext2fs/ext2_fs.h"
#include "ext2fs/ext2fs.h"

#define open(p, f, ...) vf_open2(p, f)
#define stat(p, b) vf_stat(p, b)
#define read(f, b, n) vf_read(f, b, n)
#define gettimeofday(t, z) vf_gettimeofday(t, z)
#define ext2fs_llseek(f, o, w) vf_llseek(f, o, w)
int vf_open2(const char *path, int oflags);
int vf_stat(const char *path, struct stat *st);
ssize_t vf_read(int fd, void *buf, size_t n);
int vf_gettimeofday(struct timeval *tv, void *tz);
ext2_loff_t vf_llseek(int fd, ext2_loff_t off, int whence);
#include "lib/ext2fs/mmp.c"

#ifndef OP
#define OP 1		/* 1 ext2fs_mmp_read, 2 ext2fs_mmp_write */
#endif
#ifndef IGN
#define IGN 0
#endif
/* BOUND: block size 1024 (= sizeof(struct mmp_struct)), one MMP block of 1024 symbolic bytes; block number, first data
 * block, blocks count (32 bit), time of day, descriptor already open or not, regular file or device, checksum verdict,
 * seek / read / setter / write failures symbolic; IGNORE_CSUM_ERRORS concrete per query */
#define BS 1024

struct vf_in {
	unsigned char dev[BS];		/* MMP block on the device (read) */
	unsigned char in[BS];		/* caller's MMP structure (write) */
	unsigned long long blk;
	__u32 first_data_block, blocks_count;
	unsigned int fsflags, now;
	unsigned char fd_open, isreg, bad, seekfail, shortread, setfail, wfail;
	unsigned char tok[4];
};
VF_DECLARE_INPUT(struct vf_in, IN)
#include "vf_input.inc"

static struct struct_ext2_filsys vf_fs;
static struct ext2_super_block vf_sb;
static struct struct_io_channel vf_io;
static struct struct_io_manager vf_mgr;
static char vf_devname[2] = "d";
static unsigned char vf_cmp[BS] __attribute__((aligned(8)));
static unsigned char vf_buf[BS] __attribute__((aligned(8)));
static unsigned char vf_seen[BS], vf_written[BS];
static int vf_nopen, vf_nseek, vf_nsysread, vf_nverify, vf_nset, vf_nwrites, vf_nflush, vf_bad_call;
static int vf_set_after_write, vf_flush_before_write;
static long long vf_seek_off;
static unsigned long long vf_wblk;
static int vf_wcount;

/* STUB: open() of the device returns descriptor 7; stat() reports a regular file or a block device (symbolic) */
int vf_open2(const char *path, int oflags)
{
	(void) path; (void) oflags;
	vf_nopen++;
	return 7;
}
int vf_stat(const char *path, struct stat *st)
{
	(void) path;
	st->st_mode = IN.isreg ? (S_IFREG | 0600) : (S_IFBLK | 0600);
	return 0;
}
/* STUB: lseek records the offset (IN.seekfail: returns -1); read() delivers the symbolic block IN.dev (IN.shortread: one byte short) */
ext2_loff_t vf_llseek(int fd, ext2_loff_t off, int whence)
{
	if (fd != 7 || whence != SEEK_SET)
		vf_bad_call = 1;
	vf_nseek++;
	vf_seek_off = off;
	return IN.seekfail ? -1 : off;
}
ssize_t vf_read(int fd, void *buf, size_t n)
{
	unsigned char *p = buf;
	int k;
	if (fd != 7 || n != BS || vf_nseek != 1)
		vf_bad_call = 1;
	vf_nsysread++;
	if (IN.shortread)
		return (ssize_t) n - 1;
	for (k = 0; k < BS; k++)
		p[k] = IN.dev[k];
	return (ssize_t) n;
}
/* STUB: gettimeofday() reports the symbolic second IN.now */
int vf_gettimeofday(struct timeval *tv, void *tz)
{
	(void) tz;
	tv->tv_sec = IN.now; tv->tv_usec = 0;
	return 0;
}
int ext2fs_get_dio_alignment(int fd) { (void) fd; return 0; }
/* STUB: ext2fs_mmp_csum_verify() answers with the symbolic verdict IN.bad and records the bytes shown */
int ext2fs_mmp_csum_verify(ext2_filsys fs, struct mmp_struct *mmp)
{
	const unsigned char *p = (const unsigned char *) mmp;
	int k;
	if (fs != &vf_fs)
		vf_bad_call = 1;
	vf_nverify++;
	for (k = 0; k < BS; k++)
		vf_seen[k] = p[k];
	return IN.bad == 0;
}
/* STUB: ext2fs_mmp_csum_set() records the bytes shown and stores the token IN.tok in mmp_checksum (bytes 1020..1023); IN.setfail: error, block untouched */
errcode_t ext2fs_mmp_csum_set(ext2_filsys fs, struct mmp_struct *mmp)
{
	unsigned char *p = (unsigned char *) mmp;
	int k;
	if (fs != &vf_fs)
		vf_bad_call = 1;
	vf_nset++;
	if (vf_nwrites)
		vf_set_after_write = 1;
	for (k = 0; k < BS; k++)
		vf_seen[k] = p[k];
	if (IN.setfail)
		return EXT2_ET_MMP_CSUM_INVALID;
	for (k = 0; k < 4; k++)
		p[BS - 4 + k] = IN.tok[k];
	return 0;
}
/* STUB: io_channel_write_blk64() records block number, count and the bytes; IN.wfail: EXT2_ET_SHORT_WRITE; flush is counted */
errcode_t io_channel_write_blk64(io_channel ch, unsigned long long blk, int count, const void *data)
{
	const unsigned char *p = data;
	int k;
	if (ch != &vf_io)
		vf_bad_call = 1;
	vf_nwrites++;
	vf_wblk = blk;
	vf_wcount = count;
	for (k = 0; k < BS; k++)
		vf_written[k] = p[k];
	return IN.wfail ? EXT2_ET_SHORT_WRITE : 0;
}
static errcode_t stub_flush(io_channel ch)
{
	if (ch != &vf_io)
		vf_bad_call = 1;
	if (!vf_nwrites)
		vf_flush_before_write = 1;
	vf_nflush++;
	return 0;
}

int main(void)
{
	errcode_t ret;
	int k, same;

	VF_INPUT(IN);
	vf_mgr.magic = EXT2_ET_MAGIC_IO_MANAGER;
	vf_mgr.flush = stub_flush;
	vf_io.magic = EXT2_ET_MAGIC_IO_CHANNEL;
	vf_io.manager = &vf_mgr;
	vf_io.block_size = BS;
	vf_sb.s_first_data_block = IN.first_data_block;
	vf_sb.s_blocks_count = IN.blocks_count;
	vf_sb.s_feature_incompat = EXT4_FEATURE_INCOMPAT_MMP;
	vf_fs.magic = EXT2_ET_MAGIC_EXT2FS_FILSYS;
	vf_fs.super = &vf_sb;
	vf_fs.io = &vf_io;
	vf_fs.device_name = vf_devname;
	vf_fs.blocksize = BS;
	vf_fs.flags = (IN.fsflags & ~EXT2_FLAG_IGNORE_CSUM_ERRORS) | (IGN ? EXT2_FLAG_IGNORE_CSUM_ERRORS : 0);
	vf_fs.mmp_cmp = vf_cmp;
	vf_fs.mmp_fd = IN.fd_open ? 7 : 0;

#if OP == 1
	ret = ext2fs_mmp_read(&vf_fs, IN.blk, vf_buf);
	if (IN.blk <= IN.first_data_block || IN.blk >= IN.blocks_count) {
		PROP(ret == EXT2_ET_MMP_BAD_BLOCK && vf_nsysread == 0 && vf_nseek == 0,
		     "mmp_read: a block number outside the filesystem is refused, nothing is read");
	} else {
		PROP(vf_nseek == 1 && vf_seek_off == (long long) (IN.blk * BS) && vf_nopen == (IN.fd_open ? 0 : 1) && vf_fs.mmp_fd == 7,
		     "mmp_read: seeks once to block * blocksize on MMP's private descriptor");
		if (IN.seekfail) {
			PROP(ret == EXT2_ET_LLSEEK_FAILED && vf_nsysread == 0, "mmp_read: a failed seek is reported, nothing is read");
		} else if (IN.shortread) {
			PROP(ret == EXT2_ET_SHORT_READ && vf_nsysread == 1, "mmp_read: a short read is reported");
		} else {
			__u32 magic = IN.dev[0] | (IN.dev[1] << 8) | (IN.dev[2] << 16) | ((__u32) IN.dev[3] << 24);
			PROP(vf_nsysread == 1 && vf_nverify == (IGN ? 0 : 1),
			     "mmp_read: one block is read and verified exactly once (not at all under IGNORE_CSUM_ERRORS)");
			same = 1;
			for (k = 0; k < BS; k++)
				if ((!IGN && vf_seen[k] != IN.dev[k]) || vf_buf[k] != IN.dev[k])
					same = 0;
			PROP(same, "mmp_read: the verifier sees, and the caller gets, exactly the device bytes");
			PROP(!(IN.bad && !IGN) || ret != 0, "mmp_read: an MMP block that failed verification is never returned as good");
			PROP(ret == (magic != 0x004D4D50u ? EXT2_ET_MMP_MAGIC_INVALID : (IN.bad && !IGN) ? EXT2_ET_MMP_CSUM_INVALID : 0),
			     "mmp_read: MMP_MAGIC_INVALID for a non-MMP block, else MMP_CSUM_INVALID iff checked and the verdict is bad, else 0");
		}
	}
	PROP(vf_nwrites == 0 && vf_nset == 0 && !vf_bad_call, "mmp_read: nothing is written; every stub called with the expected arguments");
#else
	for (k = 0; k < BS; k++)
		vf_buf[k] = IN.in[k];
	/* ASSUME: the block number argument is the superblock's s_mmp_block (every caller in mmp.c passes fs->super->s_mmp_block) */
	ASSUME(IN.blk <= 0xFFFFFFFFu);
	vf_sb.s_mmp_block = IN.blk;
	ret = ext2fs_mmp_write(&vf_fs, IN.blk, vf_buf);
	if (IN.blk < IN.first_data_block || IN.blk > IN.blocks_count) {
		PROP(ret == EXT2_ET_MMP_BAD_BLOCK && vf_nwrites == 0, "mmp_write: a block number outside the filesystem is refused, nothing is written");
	} else if ((IN.blk == IN.first_data_block || IN.blk == IN.blocks_count) && ret == EXT2_ET_MMP_BAD_BLOCK) {
		/* OUTSIDE: whether the two edge values (first data block, blocks count) are refused by mmp_write is a range
		 * question, not a checksum one: either answer is accepted here (mmp_read refuses both, mmp_write neither) */
		PROP(vf_nwrites == 0, "mmp_write: a refused block number writes nothing");
	} else {
		PROP(vf_nset == 1 && !vf_set_after_write, "mmp_write: the checksum is set exactly once, before the device write");
		same = 1;
		for (k = 0; k < BS; k++) {
			/* mmp_time: le64 at offset 8 */
			unsigned char e = (k >= 8 && k < 12) ? (unsigned char) (IN.now >> (8 * (k - 8))) :
					  (k >= 12 && k < 16) ? 0 : IN.in[k];
			if (vf_seen[k] != e)
				same = 0;
		}
		PROP(same, "mmp_write: the setter is shown the caller's bytes with the refreshed time stamp");
		if (IN.setfail) {
			PROP(ret == EXT2_ET_MMP_CSUM_INVALID && vf_nwrites == 0, "mmp_write: a failing checksum setter is propagated and nothing is written");
		} else {
			PROP(vf_nwrites == 1 && vf_wblk == IN.blk && vf_wcount == -BS, "mmp_write: one write of the 1024-byte structure to the requested block");
			same = 1;
			for (k = 0; k < BS; k++)
				if (vf_written[k] != (k >= BS - 4 ? IN.tok[k - (BS - 4)] : vf_seen[k]))
					same = 0;
			PROP(same, "mmp_write: the bytes that reach the device are the bytes the setter saw plus the checksum it stored");
			PROP(vf_nflush == 1 && !vf_flush_before_write, "mmp_write: the channel is flushed after the write");
			PROP(ret == (IN.wfail ? EXT2_ET_SHORT_WRITE : 0), "mmp_write: result is the device write's result");
		}
		PROP(vf_fs.mmp_last_written == (long) IN.now, "mmp_write: the time of the last MMP write is remembered");
	}
	PROP(vf_nsysread == 0 && vf_nverify == 0 && !vf_bad_call, "mmp_write: nothing is read; every stub called with the expected arguments");
#endif
	VF_END();
	return 0;
}
