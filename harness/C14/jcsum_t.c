/*
 * C14/jcsum_t: jbd2 journal checksums v2/v3 as implemented in e2fsck
 * (recovery.c, journal.c, jfs_user.h) -- pattern T (CRC = logging stub, see
 * tlog.h), compared with the jbd2 on-disk format (Documentation/filesystems/
 * ext4/journal.rst; numeric offsets):
 *   JOBJ 1  descriptor / revoke block tail: last 4 bytes, big-endian, crc32c(j_csum_seed, whole block with the
 *           tail checksum zero): jbd2_descriptor_block_csum_verify (recovery.c) and
 *           jbd2_descriptor_block_csum_set (jfs_user.h)
 *   JOBJ 2  commit block: h_chksum[0] at 0x10, big-endian, crc32c(seed, whole block with that word zero)
 *   JOBJ 3  block tag, csum v2: be16 at tag+4 = low 16 bits of crc32c(seed, be32 sequence | data block)
 *   JOBJ 4  block tag, csum v3: be32 at tag+12 = crc32c(seed, be32 sequence | data block)
 *   JOBJ 5  journal superblock: be32 at 0xFC = crc32c(~0, 1024-byte superblock with s_checksum zero)
 *           e2fsck_journal_sb_csum_verify/_set (journal.c)
 *   -DJCSUM=0: neither csum v2 nor v3: everything is accepted / nothing is written, no crc computed
 */
#ifndef JOBJ
#define JOBJ 1
#endif
#ifndef JCSUM
#define JCSUM 3		/* 2: INCOMPAT_CSUM_V2 (0x8), 3: INCOMPAT_CSUM_V3 (0x10), 0: none */
#endif

#if JOBJ == 5
#include "e2fsck/journal.c"
#define OSZ 1024
#else
#define E2FSCK_INCLUDE_INLINE_FUNCS
#include "e2fsck/recovery.c"
/* BOUND: journal block size 64 bytes (the code is parametric in j_blocksize) */
#define OSZ 64
#endif

#define TL_MAXCALLS 4
#define TL_MAXBYTES (OSZ + 16)
#define TL_NO_CRC16

struct vf_in {
	unsigned char obj[OSZ];		/* descriptor/commit/data block or journal superblock */
	unsigned char tag[16];		/* block tag (v2 layout or v3 layout) */
	__u32 tok[TL_MAXCALLS];
	__u32 seed, sequence;
};
VF_DECLARE_INPUT(struct vf_in, IN)
#include "vf_input.inc"
static unsigned char E[TL_MAXBYTES];
static unsigned int en;
#define TL_EXPECT E
#include "tlog.h"

static unsigned char W[OSZ + 8] __attribute__((aligned(8)));
static unsigned char T[16] __attribute__((aligned(8)));
static journal_t vf_j;
static journal_superblock_t vf_jsb;
static struct buffer_head vf_bh;

static __u32 ref_be32(const unsigned char *p)
{
	return ((__u32) p[0] << 24) | ((__u32) p[1] << 16) | ((__u32) p[2] << 8) | p[3];
}
static void ref_e_block_zeroed(unsigned int z, unsigned int zl)
{
	unsigned int i;
	for (i = 0; i < OSZ; i++)
		E[en++] = (i >= z && i < z + zl) ? 0 : IN.obj[i];
}
static int vf_stream_equal(void)
{
	return !tl_overflow && !tl_mismatch && tl_nbytes == en;
}
static int vf_unchanged_except(unsigned int a, unsigned int al)
{
	unsigned int i;
	for (i = 0; i < OSZ; i++)
		if (!(i >= a && i < a + al) && W[i] != IN.obj[i])
			return 0;
	return 1;
}

int main(void)
{
	int r;
	unsigned int i;
	__u32 tok;

	VF_INPUT(IN);
	for (i = 0; i < OSZ; i++)
		W[i] = IN.obj[i];
	for (i = 0; i < 16; i++)
		T[i] = IN.tag[i];
	/* the feature word is big-endian on disk: CSUM_V2 = 0x00000008, CSUM_V3 = 0x00000010 */
#if JCSUM == 2
	((unsigned char *) &vf_jsb.s_feature_incompat)[3] = 0x08;
#elif JCSUM == 3
	((unsigned char *) &vf_jsb.s_feature_incompat)[3] = 0x10;
#endif
	vf_j.j_superblock = &vf_jsb;
	vf_j.j_format_version = 2;
	vf_j.j_blocksize = OSZ;
	vf_j.j_csum_seed = IN.seed;
	stub_tl_reset();
	en = 0;

#if JOBJ == 1
	ref_e_block_zeroed(OSZ - 4, 4);
	r = jbd2_descriptor_block_csum_verify(&vf_j, W);
#if JCSUM == 0
	PROP(r == 1 && tl_ncalls == 0, "descriptor verify without csum v2/v3 accepts, no crc");
#else
	PROP(vf_tl_chain_ok(32, IN.seed, 1), "descriptor verify: seed chain");
	PROP(vf_stream_equal(), "descriptor verify: covered bytes");
	tok = vf_tl_result();
	PROP((r != 0) == (ref_be32(IN.obj + OSZ - 4) == tok), "descriptor verify: result");
#endif
	PROP(vf_unchanged_except(0, 0), "descriptor verify: block unchanged");
	stub_tl_reset();
	for (i = 0; i < OSZ; i++)	/* the set routine takes a buffer_head: the block lives in its b_data[] */
		vf_bh.b_data[i] = IN.obj[i];
	jbd2_descriptor_block_csum_set(&vf_j, &vf_bh);
	for (i = 0; i < OSZ; i++)
		W[i] = vf_bh.b_data[i];
#if JCSUM == 0
	PROP(tl_ncalls == 0 && vf_unchanged_except(0, 0), "descriptor set without csum v2/v3 is a no-op");
#else
	PROP(vf_tl_chain_ok(32, IN.seed, 1), "descriptor set: seed chain");
	PROP(vf_stream_equal(), "descriptor set: covered bytes");
	tok = vf_tl_result();
	PROP(ref_be32(W + OSZ - 4) == tok, "descriptor set: stored big-endian in the tail");
	PROP(vf_unchanged_except(OSZ - 4, 4), "descriptor set: nothing else changed");
#endif

#elif JOBJ == 2
	ref_e_block_zeroed(0x10, 4);
	r = jbd2_commit_block_csum_verify(&vf_j, W);
#if JCSUM == 0
	PROP(r == 1 && tl_ncalls == 0, "commit verify without csum v2/v3 accepts, no crc");
#else
	PROP(vf_tl_chain_ok(32, IN.seed, 1), "commit verify: seed chain");
	PROP(vf_stream_equal(), "commit verify: covered bytes");
	tok = vf_tl_result();
	PROP((r != 0) == (ref_be32(IN.obj + 0x10) == tok), "commit verify: result");
#endif
	PROP(vf_unchanged_except(0, 0), "commit verify: block unchanged");

#elif JOBJ == 3 || JOBJ == 4
	E[0] = IN.sequence >> 24; E[1] = (IN.sequence >> 16) & 255; E[2] = (IN.sequence >> 8) & 255; E[3] = IN.sequence & 255;
	en = 4;
	ref_e_block_zeroed(0, 0);
	r = jbd2_block_tag_csum_verify(&vf_j, (journal_block_tag_t *) T, (journal_block_tag3_t *) T, W, IN.sequence);
#if JCSUM == 0
	PROP(r == 1 && tl_ncalls == 0, "tag verify without csum v2/v3 accepts, no crc");
#else
	PROP(vf_tl_chain_ok(32, IN.seed, 1), "tag verify: seed chain");
	PROP(vf_stream_equal(), "tag verify: covered bytes");
	tok = vf_tl_result();
#if JCSUM == 3
	PROP((r != 0) == (ref_be32(IN.tag + 12) == tok), "tag v3 verify: result");
#else
	PROP((r != 0) == ((((unsigned int) IN.tag[4] << 8) | IN.tag[5]) == (tok & 0xFFFF)), "tag v2 verify: result");
#endif
#endif
	PROP(vf_unchanged_except(0, 0), "tag verify: data block unchanged");

#elif JOBJ == 5
	ref_e_block_zeroed(0xFC, 4);
	r = e2fsck_journal_sb_csum_verify(&vf_j, (journal_superblock_t *) W);
#if JCSUM == 0
	PROP(r == 1 && tl_ncalls == 0, "journal sb verify without csum v2/v3 accepts, no crc");
#else
	PROP(vf_tl_chain_ok(32, 0xFFFFFFFFu, 1), "journal sb verify: seed chain");
	PROP(vf_stream_equal(), "journal sb verify: covered bytes");
	tok = vf_tl_result();
	PROP((r != 0) == (ref_be32(IN.obj + 0xFC) == tok), "journal sb verify: result");
#endif
	PROP(vf_unchanged_except(0, 0), "journal sb verify: block unchanged");
	stub_tl_reset();
	PROP(e2fsck_journal_sb_csum_set(&vf_j, (journal_superblock_t *) W) == 0, "journal sb set: success");
#if JCSUM == 0
	PROP(tl_ncalls == 0 && vf_unchanged_except(0, 0), "journal sb set without csum v2/v3 is a no-op");
#else
	PROP(vf_tl_chain_ok(32, 0xFFFFFFFFu, 1), "journal sb set: seed chain");
	PROP(vf_stream_equal(), "journal sb set: covered bytes");
	tok = vf_tl_result();
	PROP(ref_be32(W + 0xFC) == tok, "journal sb set: stored big-endian at 0xFC");
	PROP(vf_unchanged_except(0xFC, 4), "journal sb set: nothing else changed");
#endif
#endif
	VF_END();
	return 0;
}
