/*
 * C14/crc32c_d: lib/ext2fs/crc32c.c (slice-by-8 crc32c little-endian and
 * crc32 big-endian) and the generated crc32c_table.h against the bitwise CRC
 * definitions -- pattern D, decomposed because the equivalence is XOR-linear
 * and does not scale in the solver:
 *   MODE 1  all 8x256 entries of crc32ctable_le (index symbolic): t0[i] = 8 bitwise
 *           steps of i; tk[i] = (t(k-1)[i] >> 8) ^ t0[t(k-1)[i] & 255]
 *   MODE 2  the same for crc32table_be (entries are stored byte-swapped on a
 *           little-endian host: tobe())
 *   MODE 3  ext2fs_crc32c_le(seed, buf+OFF, LEN) == bitwise definition, symbolic
 *           seed and data, LEN and OFF concrete per query (prologue / epilogue
 *           byte steps at every alignment)
 *   MODE 4  ext2fs_crc32_be likewise
 *   MODE 5  whole function over LEN bytes at offset OFF (default: one aligned slice-by-8
 *           step, LEN 8, OFF 0; other queries mix prologue, several slice steps and
 *           epilogue, LEN <= 19): for each of the 4 + LEN input byte lanes (4 seed bytes,
 *           LEN data bytes) separately, that byte symbolic and all others zero: result ==
 *           bitwise definition.  This pins WHICH table is applied to WHICH byte lane of the
 *           two words, and that every byte is consumed exactly once, in order.
 *   MODE 7  the same for crc32_be
 * OUTSIDE: the step with several non-zero bytes at once.  The code computes the XOR of eight table look-ups, one
 * per byte lane, and every table has entry 0 == 0 (MODE 1/2), so the step is the XOR of its single-lane values;
 * the CRC definition is GF(2)-linear in (seed, data) for a fixed length.  Equality on every single-lane input
 * (MODE 5/7) therefore extends to all inputs -- an algebraic argument, not decided by the solver: the monolithic
 * 96-bit query and even the 32-bit half-step queries finished on no back end (default, kissat, z3; 150 s).
 */
#include "lib/ext2fs/crc32c.c"

#ifndef MODE
#define MODE 3
#endif
#ifndef LEN
#if MODE == 5 || MODE == 7
#define LEN 8
#else
#define LEN 1
#endif
#endif
#ifndef OFF
#define OFF 0
#endif

/* BOUND: whole-function queries: LEN 0..3 bytes at OFF 0..7; slice queries: exactly one aligned 8-byte step */
struct vf_in {
	__u32 seed;
	unsigned char idx;
	unsigned char data[8];
};
VF_DECLARE_INPUT(struct vf_in, IN)
#include "vf_input.inc"

static unsigned char vf_buf[40] __attribute__((aligned(8)));

/* definitions: one message bit at a time */
static __u32 ref_le_byte(__u32 crc, unsigned char b, __u32 poly)
{
	int i;
	crc ^= b;
	for (i = 0; i < 8; i++)
		crc = (crc & 1) ? ((crc >> 1) ^ poly) : (crc >> 1);
	return crc;
}
static __u32 ref_be_byte(__u32 crc, unsigned char b, __u32 poly)
{
	int i;
	crc ^= (__u32) b << 24;
	for (i = 0; i < 8; i++)
		crc = (crc & 0x80000000u) ? ((crc << 1) ^ poly) : (crc << 1);
	return crc;
}
static __u32 ref_swab32(__u32 x)
{
	return (x << 24) | ((x & 0xFF00u) << 8) | ((x >> 8) & 0xFF00u) | (x >> 24);
}

int main(void)
{
	int i, k;
	__u32 want, got;

	VF_INPUT(IN);
#if MODE == 1
	want = ref_le_byte(0, IN.idx, 0x82F63B78u);
	PROP(crc32ctable_le[0][IN.idx] == want, "crc32c table 0 entry equals 8 bitwise steps");
	for (k = 1; k < 8; k++) {
		/* one more zero byte pushed through the definition */
		want = ref_le_byte(want, 0, 0x82F63B78u);
		PROP(crc32ctable_le[k][IN.idx] == want, "crc32c table k entry equals table k-1 entry advanced by one zero byte");
	}
#elif MODE == 2
	want = ref_be_byte(0, IN.idx, 0x04C11DB7u);
	PROP(crc32table_be[0][IN.idx] == ref_swab32(want), "crc32_be table 0 entry equals 8 bitwise steps");
	for (k = 1; k < 8; k++) {
		want = ref_be_byte(want, 0, 0x04C11DB7u);
		PROP(crc32table_be[k][IN.idx] == ref_swab32(want), "crc32_be table k entry equals table k-1 entry advanced by one zero byte");
	}
#elif MODE == 3 || MODE == 4
	want = IN.seed;
	for (i = 0; i < LEN; i++) {
		vf_buf[OFF + i] = IN.data[i];
#if MODE == 3
		want = ref_le_byte(want, IN.data[i], 0x82F63B78u);
#else
		want = ref_be_byte(want, IN.data[i], 0x04C11DB7u);
#endif
	}
#if MODE == 3
	got = ext2fs_crc32c_le(IN.seed, vf_buf + OFF, LEN);
	PROP(got == want, "crc32c_le equals bitwise definition");
#else
	got = ext2fs_crc32_be(IN.seed, vf_buf + OFF, LEN);
	PROP(got == want, "crc32_be equals bitwise definition");
#endif
#elif MODE == 5 || MODE == 7
	{
		int pos;
		for (pos = 0; pos < 4 + LEN; pos++) {
			__u32 seed = pos < 4 ? (__u32) IN.idx << (8 * pos) : 0;
			want = seed;
			for (i = 0; i < LEN; i++) {
				unsigned char b = (pos >= 4 && i == pos - 4) ? IN.idx : 0;
				vf_buf[OFF + i] = b;
#if MODE == 5
				want = ref_le_byte(want, b, 0x82F63B78u);
#else
				want = ref_be_byte(want, b, 0x04C11DB7u);
#endif
			}
#if MODE == 5
			got = ext2fs_crc32c_le(seed, vf_buf + OFF, LEN);
			PROP(got == want, "crc32c_le slice-by-8 step, one non-zero byte lane, equals bitwise definition");
#else
			got = ext2fs_crc32_be(seed, vf_buf + OFF, LEN);
			PROP(got == want, "crc32_be slice-by-8 step, one non-zero byte lane, equals bitwise definition");
#endif
		}
	}
#endif
	VF_END();
	return 0;
}
