/*
 * C14/xattr_p: "verification on every read path, set on every write path" for
 * extended attribute blocks -- the real ext2fs_read_ext_attr3() /
 * ext2fs_write_ext_attr3() of lib/ext2fs/ext_attr.c (and the wrappers
 * ext2fs_read_ext_attr2() / ext2fs_write_ext_attr2(), inode unknown), pattern P.
 *
 * The device is a small array of blocks with fully symbolic content (so the header
 * magic and h_blocks are symbolic too).  ext2fs_ext_attr_block_csum_verify() is a
 * stub with a SYMBOLIC verdict that records what it is shown;
 * ext2fs_ext_attr_block_csum_set() records what it is shown, stores a symbolic
 * token in h_checksum (bytes 16..19 of the header, ext4 on-disk format) and may fail.
 *
 * Read: exactly the requested block is read; unless EXT2_FLAG_IGNORE_CSUM_ERRORS the
 * verifier is called once with the caller's inode number AND the block number read
 * (the xattr checksum covers the block number) on exactly the device bytes; the
 * result is never 0 for a block whose verdict is bad: a header that is not an
 * xattr header (magic 0xEA020000 / 0xEA010000, h_blocks 1) gives
 * EXT2_ET_BAD_EA_HEADER first, otherwise EXT2_ET_EXT_ATTR_CSUM_INVALID.
 * Write: checksum set with (inode, block number) on the caller's bytes before the
 * device write; the bytes written are exactly what the setter left; failing setter
 * propagated, nothing written; success marks the handle changed.
 */
#include "lib/ext2fs/ext_attr.c"

#ifndef OP
#define OP 1		/* 1 read3, 2 write3, 3 read2 (inode 0), 4 write2 (inode 0) */
#endif
#ifndef IGN
#define IGN 0
#endif
/* BOUND: block size 32 bytes (one xattr header), device of 3 blocks, every byte symbolic; block number (64 bit, < 3), inode
 * number and all other bits of fs->flags symbolic; EXT2_FLAG_IGNORE_CSUM_ERRORS concrete per query */
#define BS 32
#define NB 3

struct vf_in {
	unsigned char dev[NB][BS];
	unsigned char in[BS];
	unsigned long long block;
	__u32 ino;
	unsigned int fsflags;
	unsigned char bad, rfail, wfail, setfail;
	unsigned char tok[4];
};
VF_DECLARE_INPUT(struct vf_in, IN)
#include "vf_input.inc"

static struct struct_ext2_filsys vf_fs;
static struct struct_io_channel vf_io;
static unsigned char vf_buf[BS] __attribute__((aligned(8)));
static unsigned char vf_seen[BS], vf_written[BS];
static int vf_nreads, vf_nverify, vf_nset, vf_nwrites, vf_bad_io, vf_set_after_write;
static ext2_ino_t vf_inum;
static unsigned long long vf_wblk, vf_cblk;

/* STUB: io_channel_read_blk64() copies one block of the device array; IN.rfail: EXT2_ET_SHORT_READ */
errcode_t io_channel_read_blk64(io_channel channel, unsigned long long block, int count, void *data)
{
	unsigned char *d = data;
	int b, k;
	vf_nreads++;
	if (channel != &vf_io || count != 1 || block != IN.block)
		vf_bad_io = 1;
	if (IN.rfail)
		return EXT2_ET_SHORT_READ;
	for (b = 0; b < NB; b++)
		if ((unsigned long long) b == block)
			for (k = 0; k < BS; k++)
				d[k] = IN.dev[b][k];
	return 0;
}
/* STUB: io_channel_write_blk64() records block number and bytes; IN.wfail: EXT2_ET_SHORT_WRITE */
errcode_t io_channel_write_blk64(io_channel channel, unsigned long long block, int count, const void *data)
{
	const unsigned char *d = data;
	int k;
	vf_nwrites++;
	if (channel != &vf_io || count != 1)
		vf_bad_io = 1;
	vf_wblk = block;
	for (k = 0; k < BS; k++)
		vf_written[k] = d[k];
	return IN.wfail ? EXT2_ET_SHORT_WRITE : 0;
}
/* STUB: ext2fs_ext_attr_block_csum_verify() answers with the symbolic verdict IN.bad and records inode number, block number and the bytes shown (its arithmetic: csum_t OBJ=6) */
int ext2fs_ext_attr_block_csum_verify(ext2_filsys fs, ext2_ino_t inum, blk64_t block, struct ext2_ext_attr_header *hdr)
{
	const unsigned char *d = (const unsigned char *) hdr;
	int k;
	vf_nverify++;
	if (fs != &vf_fs)
		vf_bad_io = 1;
	vf_inum = inum;
	vf_cblk = block;
	for (k = 0; k < BS; k++)
		vf_seen[k] = d[k];
	return IN.bad == 0;
}
/* STUB: ext2fs_ext_attr_block_csum_set() records inode number, block number and the bytes shown, then stores the token IN.tok in h_checksum (bytes 16..19); IN.setfail: error, block untouched */
errcode_t ext2fs_ext_attr_block_csum_set(ext2_filsys fs, ext2_ino_t inum, blk64_t block, struct ext2_ext_attr_header *hdr)
{
	unsigned char *d = (unsigned char *) hdr;
	int k;
	vf_nset++;
	if (fs != &vf_fs)
		vf_bad_io = 1;
	if (vf_nwrites)
		vf_set_after_write = 1;
	vf_inum = inum;
	vf_cblk = block;
	for (k = 0; k < BS; k++)
		vf_seen[k] = d[k];
	if (IN.setfail)
		return EXT2_ET_EXT_ATTR_CSUM_INVALID;
	for (k = 0; k < 4; k++)
		d[16 + k] = IN.tok[k];
	return 0;
}

/* the ext4 on-disk xattr block header: h_magic le32 at 0 (0xEA020000; 0xEA010000 for the old v1 layout), h_blocks le32 at 8 (must be 1) */
static int ref_is_ea_header(const unsigned char *p)
{
	__u32 magic = p[0] | (p[1] << 8) | (p[2] << 16) | ((__u32) p[3] << 24);
	__u32 blocks = p[8] | (p[9] << 8) | (p[10] << 16) | ((__u32) p[11] << 24);
	return (magic == 0xEA020000u || magic == 0xEA010000u) && blocks == 1;
}

int main(void)
{
	errcode_t ret;
	int b, k, same, hdr_ok = 0;
	unsigned int before;

	VF_INPUT(IN);
	ASSUME(IN.block < NB);
	vf_fs.magic = EXT2_ET_MAGIC_EXT2FS_FILSYS;
	vf_fs.io = &vf_io;
	vf_fs.blocksize = BS;
	vf_fs.flags = (IN.fsflags & ~EXT2_FLAG_IGNORE_CSUM_ERRORS) | (IGN ? EXT2_FLAG_IGNORE_CSUM_ERRORS : 0);
	before = vf_fs.flags;

#if OP == 1 || OP == 3
#if OP == 1
	ret = ext2fs_read_ext_attr3(&vf_fs, IN.block, vf_buf, IN.ino);
#else
	ret = ext2fs_read_ext_attr2(&vf_fs, IN.block, vf_buf);
#endif
	PROP(vf_nreads == 1 && !vf_bad_io && vf_nwrites == 0, "read_ext_attr: exactly the requested block is read, once, from fs->io");
	if (IN.rfail) {
		PROP(ret == EXT2_ET_SHORT_READ, "read_ext_attr: a device error is returned");
	} else {
		PROP(vf_nverify == (IGN ? 0 : 1), "read_ext_attr: the block is verified exactly once (not at all under IGNORE_CSUM_ERRORS)");
		same = 1;
		for (b = 0; b < NB; b++)
			if ((unsigned long long) b == IN.block) {
				for (k = 0; k < BS; k++) {
					if (!IGN && vf_seen[k] != IN.dev[b][k])
						same = 0;
					if (vf_buf[k] != IN.dev[b][k])
						same = 0;
				}
				hdr_ok = ref_is_ea_header(IN.dev[b]);
			}
		PROP(same, "read_ext_attr: the verifier sees, and the caller gets, exactly the device bytes of that block");
		if (!IGN)
			PROP(vf_inum == (OP == 1 ? IN.ino : 0) && vf_cblk == IN.block,
			     "read_ext_attr: the verifier gets the caller's inode number and the block number that was read");
		PROP(!(IN.bad && !IGN) || ret != 0, "read_ext_attr: a block that failed verification is never returned as good");
		PROP(ret == (!hdr_ok ? EXT2_ET_BAD_EA_HEADER : (IN.bad && !IGN) ? EXT2_ET_EXT_ATTR_CSUM_INVALID : 0),
		     "read_ext_attr: BAD_EA_HEADER for a non-xattr header, else EXT_ATTR_CSUM_INVALID iff checked and the verdict is bad, else 0");
	}
	PROP(vf_fs.flags == before, "read_ext_attr: fs->flags untouched");
#else
	for (k = 0; k < BS; k++)
		vf_buf[k] = IN.in[k];
#if OP == 2
	ret = ext2fs_write_ext_attr3(&vf_fs, IN.block, vf_buf, IN.ino);
#else
	ret = ext2fs_write_ext_attr2(&vf_fs, IN.block, vf_buf);
#endif
	PROP(vf_nset == 1 && !vf_set_after_write && vf_nreads == 0 && vf_nverify == 0,
	     "write_ext_attr: the checksum is set exactly once, before the device write");
	PROP(vf_inum == (OP == 2 ? IN.ino : 0) && vf_cblk == IN.block,
	     "write_ext_attr: the setter gets the caller's inode number and the block number written to");
	same = 1;
	for (k = 0; k < BS; k++)
		if (vf_seen[k] != IN.in[k])
			same = 0;
	PROP(same, "write_ext_attr: the setter is shown the caller's bytes");
	if (IN.setfail) {
		PROP(ret == EXT2_ET_EXT_ATTR_CSUM_INVALID && vf_nwrites == 0,
		     "write_ext_attr: a failing checksum setter is propagated and nothing is written");
	} else {
		PROP(vf_nwrites == 1 && !vf_bad_io && vf_wblk == IN.block, "write_ext_attr: one write of one block to the requested block number");
		same = 1;
		for (k = 0; k < BS; k++)
			if (vf_written[k] != ((k >= 16 && k < 20) ? IN.tok[k - 16] : IN.in[k]))
				same = 0;
		PROP(same, "write_ext_attr: the bytes that reach the device are the caller's bytes with the checksum the setter stored");
		PROP(ret == (IN.wfail ? EXT2_ET_SHORT_WRITE : 0), "write_ext_attr: result is the device write's result");
		PROP(vf_fs.flags == (before | (IN.wfail ? 0 : EXT2_FLAG_CHANGED)),
		     "write_ext_attr: a successful write marks the handle changed, nothing else");
	}
#endif
	VF_END();
	return 0;
}
