META = {
    "assumptions": [
        "allocation failure out of scope (--no-malloc-may-fail)",
        "little-endian host (the WORDS_BIGENDIAN branches of csum.c / crc32c.c are not compiled)",
        "pattern T: the CRC primitive is a logging stub returning fresh symbolic tokens; that the real primitive "
        "equals the CRC definition is the subject of crc16_d / crc32c_d",
        "pattern P (extget_p, iscan_p, readinode_p, dirblk_p[w], xattr_p[w], bitmaps_p[w], mmp_p[w]): the per-object set/verify "
        "routine of csum.c is a recording stub with a symbolic verdict / token; that the real routine covers the "
        "format-defined bytes is the subject of csum_t; the device is a small symbolic array",
    ],
    "outside": [
        "e2fsck -fn exit status after a byte flip, and checksums in images written by whole tools (whole-tool runs)",
        "byte-flip detection as a numeric fact: it follows from coverage (csum_t/jcsum_t) plus the burst-error "
        "property of a CRC, which is not decided here",
        "crc32c/crc32_be: the monolithic equivalence of one full 8-byte slice step with the bitwise definition "
        "(XOR-linear, no back end finishes); decided instead: all tables, the byte step, one slice step for every "
        "single non-zero byte lane, whole function for short lengths at all alignments; extension to all inputs is "
        "the GF(2)-linearity argument",
        "read/write paths that call the set/verify routines: encoded are ext2fs_extent_get (extget_p), the inode scan "
        "ext2fs_get_next_inode_full (iscan_p), write_backup_super and the primary-superblock tail of ext2fs_flush2 "
        "(sbwrite_t, incl. the incremental orig_super route as concrete scenarios), ext2fs_read_inode2 with its inode cache "
        "(readinode_p), ext2fs_read_dir_block4 / ext2fs_write_dir_block4 (dirblk_p, dirblk_pw), ext2fs_read_ext_attr3 / "
        "ext2fs_write_ext_attr3 (xattr_p, xattr_pw), read_bitmaps_range_start / write_bitmaps (bitmaps_p, bitmaps_pw), ext2fs_mmp_read / "
        "ext2fs_mmp_write (mmp_p, mmp_pw); NOT encoded: ext2fs_write_inode2, extent.c:update_path, group descriptor writes of "
        "ext2fs_flush2, the image-file branch and the thread fan-out of ext2fs_rw_bitmaps (C17 rw_partition), the "
        "WORDS_BIGENDIAN byte-swap steps of dirblock.c / ext_attr.c / mmp.c (order of swab and verification)",
        "bitmaps_p: inodes per group not a multiple of 8 (write_bitmaps rounds the byte count up, the reader down); the "
        "bitmap tail-padding flags (C17 rw_locks); mmp_p: whether ext2fs_mmp_write refuses the two edge block numbers "
        "(first data block, blocks count) -- it accepts both while ext2fs_mmp_read refuses both",
        "inode sizes other than 128/256, descriptor sizes other than 32/64/128, block sizes other than the small ones "
        "listed per harness (the code is parametric in them)",
        "big-endian hosts",
    ],
}

O = {"INODE": 1, "GD_MC": 2, "GD_CRC16": 3, "BBITMAP": 4, "IBITMAP": 5, "XATTR": 6, "EXTENT": 7, "DIRENT": 8,
     "DX": 9, "SUPER": 10, "MMP": 11, "SEED": 12}

BIG = 1200   # harness loops have concrete bounds (<= object size + 40): any larger number is exact


def t_uw(osz, extra=()):
    """osz = object size of the query; the stub's copy loop runs at most TL_MAXBYTES = osz + 32 times (its
    length may be symbolic, so this bound must be exact, not generous)"""
    l = ["main.%d:%d" % (i, BIG) for i in range(12)]
    for f, n in (("vf_tl_chain_ok", 1), ("vf_tl_result", 1), ("vf_unchanged_except", 1), ("vf_setup_fs", 1),
                 ("ref_e_range_zeroed", 1), ("vf_stream_equal", 1), ("stub_tl_reset", 1),
                 ("vf_load", 10)):
        l += ["%s.%d:%d" % (f, i, BIG) for i in range(n)]
    l += ["stub_tl_call.0:8", "stub_tl_call.1:%d" % (osz + 34)]
    return l + list(extra)


def csum_t_cfgs():
    c = []
    def base(osz, extra=()):
        d = {"_unwindset": t_uw(osz, extra)}
        if osz >= 1024:
            d["_backends"] = ["kissat", "default"]     # measured: kissat 10-45 s, minisat 130 s on the 1024-byte objects
        return d
    for isz in (128, 256):
        c.append(dict(base(isz, ["ext2fs_inode_csum_verify.0:130"]), OBJ=O["INODE"], ISIZE=isz))
    c.append(dict(base(256, ["ext2fs_inode_csum_verify.0:130"]), OBJ=O["INODE"], ISIZE=256, CSUM=0))
    for desc in (32, 64, 128):
        for o in ("GD_MC", "GD_CRC16", "BBITMAP", "IBITMAP"):
            if desc == 128 and o == "IBITMAP":
                continue
            d = dict(base(2 * desc), OBJ=O[o], DESC=desc)
            if desc == 128 and o == "BBITMAP":
                d["_tier"] = "thorough"
            c.append(d)
    c.append(dict(base(64), OBJ=O["GD_MC"], DESC=32, CSUM=0))
    c.append(dict(base(128), OBJ=O["BBITMAP"], DESC=64, CSUM=0))
    for o in ("XATTR", "EXTENT", "DX"):
        c.append(dict(base(64), OBJ=O[o]))
        c.append(dict(base(64), OBJ=O[o], CSUM=0))
    for o in ("SUPER", "MMP"):
        c.append(dict(base(1024), OBJ=O[o]))
        c.append(dict(base(1024), OBJ=O[o], CSUM=0, _tier="thorough"))
    c.append(dict(base(8), OBJ=O["SEED"]))
    c.append(dict(base(128), OBJ=O["DX"], BS=128, _tier="thorough"))
    c.append(dict(base(128), OBJ=O["EXTENT"], BS=128, _tier="thorough"))
    db = base(1024, ["__get_dirent_tail.0:5"])
    for lay in ({"R1": 1012}, {"R1": 12, "R2": 1000}, {"R1": 12, "R2": 12, "R3": 988},
                {"R1": 1016}, {"R1": 500, "R2": 10}):
        quick = lay in ({"R1": 12, "R2": 1000}, {"R1": 1016})
        c.append(dict(db, OBJ=O["DIRENT"], NSTEP=3, _tier="quick" if quick else "thorough", **lay))
    c.append(dict(db, OBJ=O["DIRENT"], NSTEP=3, CSUM=0, R1=1012, _tier="thorough"))
    return c


def crc32_cfgs():
    c = [{"MODE": 3, "LEN": 1, "OFF": 0}, {"MODE": 1}, {"MODE": 2}]
    # LEN 3 with fully symbolic data does not finish (> 10 min on default/kissat/z3): 24 symbolic data bits + 32
    # seed bits through the XOR network; it is covered lane-wise by the MODE 5 queries instead
    for ln in (0, 1, 2):
        for al in range(8):
            quick = (ln == 1 and al in (0, 1, 3)) or (ln == 2 and al in (0, 3)) or (ln == 0 and al == 1)
            if (ln, al) == (1, 0):
                continue
            c.append({"MODE": 3, "LEN": ln, "OFF": al, "_tier": "quick" if quick else "thorough"})
    for ln, al in ((1, 0), (1, 1), (2, 2)):
        c.append({"MODE": 4, "LEN": ln, "OFF": al})
    for ln in (1, 2):
        for al in range(8):
            if (ln, al) not in ((1, 0), (1, 1), (2, 2)):
                c.append({"MODE": 4, "LEN": ln, "OFF": al, "_tier": "thorough"})
    for m in (5, 7):
        c.append({"MODE": m, "_backends": ["kissat", "default"]})
    # single-lane queries through prologue / slice steps / epilogue: (LEN, OFF)
    for ln, al, quick in ((5, 0, True), (19, 2, True), (7, 3, False), (12, 1, False), (16, 0, False), (17, 7, False)):
        c.append({"MODE": 5, "LEN": ln, "OFF": al, "_backends": ["kissat", "default"],
                  "_tier": "quick" if quick else "thorough"})
    c.append({"MODE": 7, "LEN": 13, "OFF": 1, "_backends": ["kissat", "default"]})
    c.append({"MODE": 7, "LEN": 19, "OFF": 2, "_backends": ["kissat", "default"], "_tier": "thorough"})
    return c


_DIRBLK_UW = ["main.%d:18" % i for i in range(6)] + [
    "io_channel_read_blk64.0:18", "io_channel_read_blk64.1:6", "io_channel_write_blk64.0:18",
    "ext2fs_dir_block_csum_verify.0:18", "ext2fs_dir_block_csum_set.0:18", "ext2fs_dir_block_csum_set.1:6"]
_DIRBLK_BOUND = ("directory block of 16 bytes on a device of 4 blocks, every byte symbolic; block number, inode number, "
                 "DIRENT flags argument, other fs->flags bits, checksum verdict, setter/device failures symbolic; "
                 "IGNORE_CSUM_ERRORS on/off; read4/write4 and the oldest wrappers (inode number 0)")
_XATTR_UW = ["main.%d:34" % i for i in range(6)] + [
    "io_channel_read_blk64.0:34", "io_channel_read_blk64.1:5", "io_channel_write_blk64.0:34",
    "ext2fs_ext_attr_block_csum_verify.0:34", "ext2fs_ext_attr_block_csum_set.0:34", "ext2fs_ext_attr_block_csum_set.1:6"]
_XATTR_BOUND = ("xattr block of 32 bytes (one header) on a device of 3 blocks, every byte symbolic (magic and h_blocks "
                "included); block number, inode number, other fs->flags bits, checksum verdict, setter/device failures "
                "symbolic; IGNORE_CSUM_ERRORS on/off; read3/write3 and the read2/write2 wrappers (inode number 0)")
_BITMAPS_UW = ["main.%d:66" % i for i in range(24)] + [
    "io_channel_read_blk64.0:18", "io_channel_read_blk64.1:10", "io_channel_write_blk64.0:18",
    "io_channel_write_blk64.1:4", "io_channel_write_blk64.2:4", "stub_verify.0:10", "stub_set.0:10",
    "stub_load.0:10", "stub_load.1:4", "stub_get.0:10", "stub_get.1:4", "ref_devbyte.0:10",
    "bitmap_tail_verify.0:14", "write_bitmaps.0:130", "write_bitmaps.1:4", "read_bitmaps_range_start.2:4"]
_BITMAPS_BOUND = ("2 groups, block size 16 bytes, 64 clusters / 32 inodes per group (8 / 4 bitmap bytes), descriptors of 32 or 64 "
                  "bytes fully symbolic (locations, bg_flags), 8 symbolic device blocks addressed by block number mod 8, blocks "
                  "count 66..129 (last-group padding), in-core bitmap bytes, per-(group,kind) checksum verdicts, descriptor "
                  "checksum verdicts, setter and device failures symbolic; which bitmaps, checksum feature (none / uninit_bg / "
                  "metadata_csum), IGNORE_CSUM_ERRORS concrete per query")
_MMP_UW = ["main.%d:1030" % i for i in range(6)] + [
    "vf_read.0:1030", "ext2fs_mmp_csum_verify.0:1030", "ext2fs_mmp_csum_set.0:1030", "ext2fs_mmp_csum_set.1:6",
    "io_channel_write_blk64.0:1030"]
_MMP_BOUND = ("one MMP block of 1024 symbolic bytes (block size 1024 = sizeof(struct mmp_struct)); block number, first data "
              "block, blocks count, time of day, descriptor open or not, regular file or device, checksum verdict, seek / "
              "read / setter / write failures symbolic; IGNORE_CSUM_ERRORS on/off")


HARNESSES = [
    dict(name="csum_t", src="csum_t.c", extra_src=["lib/ext2fs/blknum.c"],
         funcs=["ext2fs_inode_csum_verify", "ext2fs_inode_csum_set", "ext2fs_inode_csum"],
         configs=csum_t_cfgs(), unwind=6, backends=["default", "kissat"],
         bound="one fully symbolic object per query: inode 128/256 bytes; group descriptor 32/64/128 bytes (2 groups); "
               "bitmap size argument 0..8; xattr/extent/htree block of 64 (thorough: 128) bytes; directory leaf "
               "block of 1024 bytes with a concrete rec_len chain shape per query (3 valid, 2 invalid), all other bytes symbolic; superblock and MMP block "
               "1024 bytes; all identity terms (inum, generation, group, block number, seed, uuid) and all "
               "other feature bits symbolic"),
    dict(name="jcsum_t", src="jcsum_t.c",
         funcs=["jbd2_descriptor_block_csum_verify", "jbd2_descriptor_block_csum_set"],
         configs=[{"JOBJ": 1, "JCSUM": 3}, {"JOBJ": 1, "JCSUM": 2}, {"JOBJ": 1, "JCSUM": 0},
                  {"JOBJ": 2, "JCSUM": 3}, {"JOBJ": 2, "JCSUM": 2}, {"JOBJ": 2, "JCSUM": 0},
                  {"JOBJ": 3, "JCSUM": 2}, {"JOBJ": 4, "JCSUM": 3}, {"JOBJ": 3, "JCSUM": 0},
                  {"JOBJ": 5, "JCSUM": 3, "_backends": ["kissat", "default"]},
                  {"JOBJ": 5, "JCSUM": 2, "_backends": ["kissat", "default"]},
                  {"JOBJ": 5, "JCSUM": 0, "_tier": "thorough"}],
         unwindset=["main.%d:1100" % i for i in range(8)] + [ "ref_e_block_zeroed.0:1100", "vf_unchanged_except.0:1100",
                    "vf_tl_chain_ok.0:8", "vf_tl_result.0:8", "stub_tl_call.0:8", "stub_tl_call.1:1045"],
         unwind=4, backends=["default", "kissat"],
         bound="journal block size 64 bytes (descriptor/revoke tail, commit block, tagged data block); journal "
               "superblock 1024 bytes; every byte, the seed and the sequence number symbolic; csum v2 / v3 / none"),
    dict(name="extget_p", src="extget_p.c",
         funcs=["ext2fs_extent_get", "ext2fs_extent_header_verify"],
         configs=[{"SCEN": 0, "OP": 7}, {"SCEN": 0, "OP": 2}, {"SCEN": 1, "OP": 7}, {"SCEN": 2, "OP": 8},
                  {"SCEN": 0, "OP": 12}, {"SCEN": 0, "OP": 9}, {"SCEN": 1, "OP": 9},
                  {"SCEN": 0, "OP": 7, "NL": 1}, {"SCEN": 0, "OP": 2, "NL": 1}, {"SCEN": 2, "OP": 8, "NL": 1},
                  {"SCEN": 0, "OP": 7, "IGN": 1}, {"SCEN": 2, "OP": 8, "IGN": 1}],
         unwind=9, unwindset=["vf_fill.0:40", "vf_fill.1:4", "vf_fill.2:4", "main.0:4", "main.1:4", "main.2:4",
                              "ext2fs_extent_block_csum_verify.0:8"],
         backends=["default", "kissat"],
         bound="extent tree of depth 2 (root in i_block, 2 index blocks, 4 leaves), 2 index entries per node, 1 or 2 "
               "extents per leaf, block size 36 bytes; start position concrete per query (after ROOT; last extent of "
               "a leaf; first extent of a leaf); moves NEXT_LEAF, LAST_LEAF, PREV_LEAF, DOWN, NEXT; per-block checksum "
               "verdicts, logical block numbers and extent payload symbolic"),
    dict(name="sbwrite_t", src="sbwrite_t.c",
         funcs=["write_backup_super", "ext2fs_superblock_csum_set"],
         configs=[{"MODE": 1, "CSUM": 1}, {"MODE": 1, "CSUM": 0}, {"MODE": 2, "CSUM": 1}, {"MODE": 2, "CSUM": 0},
                  {"MODE": 3},
                  {"MODE": 3, "LO_O": 1, "LO_A": 1, "LO_B": 2, "UP_O": 3, "UP_A": 3, "UP_B": 3, "CS_O": 5, "CS_A": 6, "CS_B": 7},
                  {"MODE": 3, "LO_O": 1, "LO_A": 2, "LO_B": 3, "UP_O": 1, "UP_A": 2, "UP_B": 1, "CS_O": 9, "CS_A": 9, "CS_B": 9,
                   "_tier": "thorough"}],
         unwind=4, unwindset=["main.%d:1030" % i for i in range(6)] +
                   ["ext2fs_crc32c_le.0:1030", "io_channel_write_blk64.0:1030", "io_channel_write_byte.0:1030",
                    "vf_dev_equals.0:1030", "write_primary_superblock.0:516", "write_primary_superblock.1:516", "write_primary_superblock.2:516", "write_primary_superblock.3:516"],
         backends=["kissat", "default"],
         bound="one 1024-byte superblock copy per query, all bytes symbolic except the feature words; group (2^32) and "
               "block number (2^64) symbolic; backup path (write_backup_super) and primary path (tail of ext2fs_flush2 "
               "+ write_primary_superblock fallback), metadata_csum on/off; incremental route (orig_super + write_byte): two "
               "consecutive updates A, B over a byte-array device with a concrete difference pattern per query in one lower-half "
               "word, one upper-half word and s_checksum (concrete scenario, not for-all)"),
    dict(name="iscan_p", src="iscan_p.c", extra_src=["lib/ext2fs/blknum.c", "lib/ext2fs/extent.c"],
         funcs=["ext2fs_get_next_inode_full", "get_next_blockgroup", "get_next_blocks", "check_inode_block_sanity"],
         # check_inode_block_sanity's loop (a `continue` inside a while) is not bounded concretely by symex: its bound
         # must be exact (inodes per buffer + 1), a generous one makes it walk symbolic pointers far past the buffer
         configs=[dict(c, _unwindset=["io_channel_read_blk64.%d:1030" % i for i in range(5)] +
                       ["check_inode_block_sanity.0:%d" % (2 * c["BUF"] + 1)])
                  for c in ({"BUF": 2}, {"BUF": 2, "UNUSED": 1}, {"BUF": 1, "_tier": "thorough"},
                            {"BUF": 3, "_tier": "thorough"}, {"BUF": 2, "IGN": 1, "_tier": "thorough"},
                            {"BUF": 2, "INSANE": 1, "_tier": "thorough"})],
         unwind=17,
         # all buffer indices are concrete: per-element SSA keeps the 2-3 KiB scan buffers out of the array theory
         #cbmc_flags=["--max-field-sensitivity-array-size", "3100"],
         backends=["default", "kissat"],
         bound="2 groups x 3 inode-table blocks x 2 inodes per block (inode size 512, block size 1024), scan buffer of "
               "1, 2 or 3 blocks, bg_itable_unused 0 or 1; complete scan (13 calls); per-inode checksum verdict and "
               "insane bit symbolic"),
    dict(name="readinode_p", src="readinode_p.c", extra_src=["lib/ext2fs/blknum.c"],
         funcs=["ext2fs_read_inode2"],
         configs=[{"F1": 1, "F2": 0}, {"F1": 0, "F2": 0},
                  {"F1": 1, "F2": 1, "_tier": "thorough"}, {"F1": 0, "F2": 1, "_tier": "thorough"},
                  {"F1": 1, "F2": 0, "PRE": 1, "_tier": "thorough"}, {"F1": 0, "F2": 0, "PRE": 1, "_tier": "thorough"},
                  {"F1": 1, "F2": 0, "IGN": 1, "_tier": "thorough"}],
         unwind=6, backends=["default", "kissat"],
         bound="one group of 16 inodes of 256 bytes, block size 1024; two consecutive reads of inode 3 with concrete "
               "flags (0 / READ_INODE_NOCSUM) per query, cache empty or full of other inodes, IGNORE_CSUM_ERRORS on/off; "
               "checksum verdict and inode payload symbolic"),
    # protocol harnesses of the remaining read/write paths; one entry per direction because funcs= is checked
    # against the first config of an entry only
    dict(name="dirblk_p", src="dirblk_p.c",
         funcs=["ext2fs_read_dir_block4", "ext2fs_read_dir_block"],
         configs=[{"OP": 3}, {"OP": 1}, {"OP": 1, "IGN": 1}],
         unwind=6, unwindset=_DIRBLK_UW, backends=["default", "kissat"], bound=_DIRBLK_BOUND),
    dict(name="dirblk_pw", src="dirblk_p.c",
         funcs=["ext2fs_write_dir_block4", "ext2fs_write_dir_block"],
         configs=[{"OP": 4}, {"OP": 2}],
         unwind=6, unwindset=_DIRBLK_UW, backends=["default", "kissat"], bound=_DIRBLK_BOUND),
    dict(name="xattr_p", src="xattr_p.c",
         funcs=["ext2fs_read_ext_attr3", "ext2fs_read_ext_attr2", "check_ext_attr_header"],
         configs=[{"OP": 3}, {"OP": 1}, {"OP": 1, "IGN": 1}],
         unwind=6, unwindset=_XATTR_UW, backends=["default", "kissat"], bound=_XATTR_BOUND),
    dict(name="xattr_pw", src="xattr_p.c",
         funcs=["ext2fs_write_ext_attr3", "ext2fs_write_ext_attr2"],
         configs=[{"OP": 4}, {"OP": 2}],
         unwind=6, unwindset=_XATTR_UW, backends=["default", "kissat"], bound=_XATTR_BOUND),
    dict(name="bitmaps_p", src="bitmaps_p.c", extra_src=["lib/ext2fs/blknum.c", "lib/ext2fs/bitops.c"],
         funcs=["read_bitmaps_range_start", "ext2fs_block_bitmap_loc", "ext2fs_inode_bitmap_loc", "ext2fs_bg_flags_test"],
         configs=[{"OP": 1, "FL": 3, "FEAT": 2}, {"OP": 1, "FL": 3, "FEAT": 2, "DESC": 64},
                  {"OP": 1, "FL": 3, "FEAT": 2, "IGN": 1}, {"OP": 1, "FL": 3, "FEAT": 1},
                  {"OP": 1, "FL": 1, "FEAT": 2}, {"OP": 1, "FL": 2, "FEAT": 2},
                  {"OP": 1, "FL": 3, "FEAT": 0, "_tier": "thorough"}],
         unwind=6, unwindset=_BITMAPS_UW, backends=["default", "kissat"], bound=_BITMAPS_BOUND),
    dict(name="bitmaps_pw", src="bitmaps_p.c", extra_src=["lib/ext2fs/blknum.c", "lib/ext2fs/bitops.c"],
         funcs=["write_bitmaps", "ext2fs_block_bitmap_loc", "ext2fs_inode_bitmap_loc", "ext2fs_bg_flags_test"],
         configs=[{"OP": 2, "FL": 3, "FEAT": 2}, {"OP": 2, "FL": 3, "FEAT": 2, "DESC": 64}, {"OP": 2, "FL": 3, "FEAT": 1},
                  {"OP": 2, "FL": 1, "FEAT": 2}, {"OP": 2, "FL": 2, "FEAT": 2},
                  {"OP": 2, "FL": 3, "FEAT": 0, "_tier": "thorough"}],
         unwind=6, unwindset=_BITMAPS_UW, backends=["default", "kissat"], bound=_BITMAPS_BOUND),
    dict(name="mmp_p", src="mmp_p.c", extra_src=["lib/ext2fs/blknum.c"],
         funcs=["ext2fs_mmp_read"],
         configs=[{"OP": 1}, {"OP": 1, "IGN": 1}],
         unwind=6, unwindset=_MMP_UW, backends=["default", "kissat"], bound=_MMP_BOUND),
    dict(name="mmp_pw", src="mmp_p.c", extra_src=["lib/ext2fs/blknum.c"],
         funcs=["ext2fs_mmp_write"],
         configs=[{"OP": 2}],
         unwind=6, unwindset=_MMP_UW, backends=["default", "kissat"], bound=_MMP_BOUND),
    dict(name="crc16_d", src="crc16_d.c", funcs=["ext2fs_crc16"],
         configs=[{"MODE": 2, "LEN": n} for n in (2, 0, 1, 3)] + [{"MODE": 1}],
         unwindset=["ref_crc16_byte.0:9", "main.0:5", "ext2fs_crc16.0:5"], backends=["default", "kissat", "z3"],
         bound="all 256 table entries; whole function for lengths 0..3, every 32-bit incoming value and content"),
    dict(name="crc32c_d", src="crc32c_d.c", funcs=["ext2fs_crc32c_le", "crc32_body"],
         configs=crc32_cfgs(),
         unwindset=["ref_le_byte.0:9", "ref_be_byte.0:9", "main.0:24", "main.1:24", "crc32_body.0:5", "crc32_body.1:3",
                    "crc32_body.2:9", "main.2:24", "main.3:24"],
         backends=["default", "kissat", "z3"], cap_thorough=400,
         bound="all 8x256 entries of both tables; whole function lengths 0..2 at alignments 0..7 (quick: a "
               "subset), symbolic seed and data; whole function with one non-zero byte lane (every lane, 256 values) "
               "for lengths 5..19 at mixed offsets (prologue, up to two slice-by-8 steps, epilogue)"),
]

import importlib.util as _ilu, os as _os
def _jscan():
    """journal recovery's use of the block checksums (source harness/C03/scan.c, v2 checksums): a descriptor / revoke block whose
    checksum does not verify is a checksum FAILURE unless it is stale by the commit-time rule (older, not equal)"""
    p = _os.path.join(_os.path.dirname(_os.path.abspath(__file__)), "..", "C03", "spec.py")
    sp = _ilu.spec_from_file_location("spec_C03_for_C14", p)
    m = _ilu.module_from_spec(sp)
    sp.loader.exec_module(m)
    for h in m.HARNESSES:
        if h["name"] == "scan":
            d = dict(h)
            d["name"] = "jscan"
            d["src"] = "../C03/scan.c"
            d["configs"] = [c for c in h["configs"] if c.get("FEAT_CSUM") == 2 and "FEAT_ASYNC" not in c and c.get("_tier") != "thorough"][:1]
            if not d["configs"]:
                raise RuntimeError("no v2 scan config in C03")
            return [d]
    raise RuntimeError("C03 scan harness missing")
HARNESSES += _jscan()

MANIFEST = {
    "text": "Bounded-exhaustive checksum trace: for every metadata object type of csum.c, with the object, its "
            "identity terms and the seed fully symbolic, the real set/verify routines feed the CRC exactly the "
            "byte range and seed chain the ext4 on-disk format defines (checksum fields zeroed or skipped), store "
            "the result at the defined offset/width, and verify accepts iff the stored field equals the result. "
            "The CRC primitives are decided separately against their bitwise definitions within width limits. "
            "Protocol harnesses decide, for the read/write paths of extents, inode scan, single inode read, directory "
            "blocks (dirblk_p), xattr blocks (xattr_p), allocation bitmaps (bitmaps_p) and the MMP block (mmp_p), that "
            "the verify routine is shown exactly the bytes read with the right identity terms and a bad verdict is "
            "never turned into success, and that the set routine runs on exactly the bytes that are then written.",
    "note": "Trusted: CBMC's C semantics; the harness's restatement of the ext4 checksum format (numeric offsets); "
            "little-endian host. Not decided: full-width slice-by-8 equivalence (decomposed), whole-tool behaviour.",
}
