/*
 * C04/e2fsck_front: e2fsck's journal front-end as a protocol (pattern P): the real
 * e2fsck_check_ext3_journal() followed -- exactly as unix.c:main() does -- by the
 * real e2fsck_run_ext3_journal() when the superblock then requests recovery, with
 * the real recover_ext3_journal(), e2fsck_journal_release(), e2fsck_clear_recover(),
 * brelse()/ll_rw_block() of e2fsck/journal.c.
 *
 * Below the front-end everything is an event log: ext2fs_flush/ext2fs_flush2 snapshot
 * the superblock image they write (needs_recovery bit) and their flags; the journal
 * superblock writes go through the io stub; jbd2_journal_recover() is replaced by its
 * SPECIFICATION (C03 order/recover: replay writes, then a device sync, then return);
 * e2fsck_get_journal()/e2fsck_journal_load() are cut (journal superblock state symbolic:
 * empty or with data); fix_problem() answers from a symbolic answer word.
 *
 * THE BARRIER decided here: whenever recovery is entered, the needs_recovery flag is
 * DURABLE: either the handle was clean with the flag already set in the superblock it
 * was opened from, or the LAST ext2fs_flush before jbd2_journal_recover() wrote a
 * superblock image with needs_recovery SET and was a syncing flush (flush_sync decides
 * that such a flush of the real ext2fs_flush2 ends with a device sync).  So "flag set
 * in memory" => "superblock marked dirty" => "flushed before the first replayed block".
 * Also: the journal is marked empty only after the synced replay (as C04/protocol), the
 * stale handle is freed without a flush and the filesystem re-opened, needs_recovery is
 * cleared only in the re-opened superblock, answers "no" never start a replay.
 */
#include "config.h"
#include <stdio.h>
#include <stdlib.h>
#include <string.h>
#include "ext2fs/ext2_fs.h"
#include "ext2fs/ext2fs.h"
#define E2FSCK_INCLUDE_INLINE_FUNCS
#include "e2fsck.h"
#include "jfs_user.h"
static errcode_t e2fsck_get_journal(e2fsck_t ctx, journal_t **ret_journal);
static errcode_t e2fsck_journal_load(journal_t *journal);
#include "e2fsck/journal.c"

struct vf_in {
	long load2_rc, recover_rc;
	unsigned char nreplay, fail_after;
	unsigned char recover, dirty, separate_io, from_backup;	/* superblock as opened: needs_recovery; handle dirty; external journal; e2fsck -b */
	int options;
	__u32 seq, jstart, failed_commit;
	__s32 jerrno;
	__u16 state;
	unsigned int answers;		/* fix_problem(): bit (code & 31) of this word */
};
VF_DECLARE_INPUT(struct vf_in, IN)
#include "vf_input.inc"

#define EV_REPLAY 1
#define EV_SYNC 2
#define EV_JSB 3
#define EV_FLUSH_OLD 4
#define EV_RECOVER_ENTER 5
#define EV_RECOVER_EXIT 6
#define EV_FREE_OLD 7
#define EV_OPEN 8
#define EV_CLOSE 9
#define EV_FLUSH_NEW 11
#define MAXEV 20
static int vf_ev[MAXEV], vf_nev, vf_jsb_start[MAXEV];
static __u32 vf_jsb_seq[MAXEV];

static void vf_log(int e, __u32 start, __u32 seq)
{
	int k;
	for (k = 0; k < MAXEV; k++)
		if (k == vf_nev) {
			vf_ev[k] = e;
			vf_jsb_start[k] = start;
			vf_jsb_seq[k] = seq;
		}
	vf_nev++;
}

static struct e2fsck_struct vf_ctx;
static struct struct_ext2_filsys vf_fs_old, vf_fs_new;
static struct ext2_super_block vf_sb_old, vf_sb_new;
static struct struct_io_channel vf_fsio, vf_jio, vf_fsio_new;
static struct struct_io_manager vf_mgr;
static __u32 vf_disk_start, vf_disk_seq;
static __s32 vf_disk_errno;
static int vf_get_journal_calls, vf_load_calls;
/* is the needs_recovery flag on stable storage? */
static int vf_durable_recover;
static int vf_enter_mem_recover = -1, vf_enter_durable = -1, vf_fatal;

/* STUB: a write through a journal buffer's channel is a journal-superblock write: logged and remembered as the on-disk state */
errcode_t io_channel_write_blk64(io_channel ch, unsigned long long blk, int cnt, const void *data)
{
	const journal_superblock_t *jsb = data;
	(void) ch; (void) blk; (void) cnt;
	vf_log(EV_JSB, jsb->s_start, ntohl(jsb->s_sequence));
	vf_disk_start = ntohl(jsb->s_start);
	vf_disk_seq = ntohl(jsb->s_sequence);
	vf_disk_errno = jsb->s_errno;
	return 0;
}
errcode_t io_channel_read_blk64(io_channel ch, unsigned long long blk, int cnt, void *data)
{ (void) ch; (void) blk; (void) cnt; (void) data; return 0; }
static errcode_t stub_close(io_channel ch) { (void) ch; return 0; }

/* STUB: e2fsck_get_journal builds the journal handle with its superblock buffer holding the current on-disk journal superblock (s_start symbolic: empty or with data) */
static errcode_t e2fsck_get_journal(e2fsck_t ctx, journal_t **ret)
{
	journal_t *j = calloc(1, sizeof(*j));
	struct buffer_head *bh = calloc(1, sizeof(*bh));
	journal_superblock_t *jsb;
	ASSUME(j && bh);
	vf_get_journal_calls++;
	bh->b_ctx = ctx;
	bh->b_io = (ctx->fs == &vf_fs_old && IN.separate_io) ? &vf_jio : ctx->fs->io;
	bh->b_uptodate = 1;
	jsb = (journal_superblock_t *) bh->b_data;
	jsb->s_header.h_magic = htonl(JBD2_MAGIC_NUMBER);
	jsb->s_header.h_blocktype = htonl(JBD2_SUPERBLOCK_V2);
	jsb->s_start = htonl(vf_disk_start);
	jsb->s_sequence = htonl(vf_disk_seq);
	jsb->s_errno = vf_disk_errno;
	j->j_sb_buffer = bh;
	j->j_superblock = jsb;
	j->j_format_version = 2;
	j->j_tail_sequence = vf_disk_seq;
	ctx->journal_io = bh->b_io;
	*ret = j;
	return 0;
}
/* STUB: e2fsck_journal_load succeeds in the two consistency checks; in recover_ext3_journal its outcome is symbolic */
static errcode_t e2fsck_journal_load(journal_t *journal)
{
	(void) journal;
	vf_load_calls++;
	return vf_load_calls == 2 ? IN.load2_rc : 0;
}

/* STUB: revoke caches/tables succeed */
int jbd2_journal_init_revoke_record_cache(void) { return 0; }
int jbd2_journal_init_revoke_table_cache(void) { return 0; }
void jbd2_journal_destroy_revoke_record_cache(void) { }
void jbd2_journal_destroy_revoke_table_cache(void) { }
int jbd2_journal_init_revoke(journal_t *j, int n) { (void) j; (void) n; return 0; }
void jbd2_journal_destroy_revoke(journal_t *j) { (void) j; }

/* STUB (specification proved for the real function by C03 order/recover): replay writes, then sync, then return 0; on failure some writes may have been issued and no sync is guaranteed.  On entry it records whether the needs_recovery flag is set in memory and durable */
int jbd2_journal_recover(journal_t *journal)
{
	int i, n = IN.recover_rc ? IN.fail_after : IN.nreplay;
	vf_log(EV_RECOVER_ENTER, 0, 0);
	vf_enter_mem_recover = (vf_sb_old.s_feature_incompat & EXT3_FEATURE_INCOMPAT_RECOVER) != 0;
	vf_enter_durable = vf_durable_recover;
	for (i = 0; i < 3; i++)
		if (i < n)
			vf_log(EV_REPLAY, 0, 0);
	if (!IN.recover_rc) {
		vf_log(EV_SYNC, 0, 0);
		journal->j_transaction_sequence = IN.seq + IN.nreplay + 1;
		journal->j_failed_commit = IN.failed_commit;
	}
	vf_log(EV_RECOVER_EXIT, 0, 0);
	return IN.recover_rc ? -(int) IN.recover_rc : 0;
}
/* STUB: fix_problem answers from the symbolic answer word (one bit per problem code), deterministically */
int fix_problem(e2fsck_t ctx, problem_t code, struct problem_context *pctx)
{
	(void) ctx; (void) pctx;
	return (IN.answers >> (code & 31)) & 1;
}
void clear_problem_context(struct problem_context *pctx) { memset(pctx, 0, sizeof(*pctx)); }

/* STUB: ext2fs_flush2 (ext2fs_flush = flags 0) snapshots the needs_recovery bit of the superblock image it writes and its flags; a syncing flush makes that image durable (flush_sync decides this for the real function), a non-syncing one leaves durability unknown */
errcode_t ext2fs_flush2(ext2_filsys fs, int flags)
{
	vf_log(fs == &vf_fs_old ? EV_FLUSH_OLD : EV_FLUSH_NEW, (__u32) flags, 0);
	if (fs == &vf_fs_old) {
		if (flags & EXT2_FLAG_FLUSH_NO_SYNC)
			vf_durable_recover = 0;
		else
			vf_durable_recover = (fs->super->s_feature_incompat & EXT3_FEATURE_INCOMPAT_RECOVER) != 0;
	}
	fs->flags &= ~EXT2_FLAG_DIRTY;
	return 0;
}
errcode_t ext2fs_flush(ext2_filsys fs) { return ext2fs_flush2(fs, 0); }
errcode_t ext2fs_close(ext2_filsys fs) { (void) fs; vf_log(EV_CLOSE, 0, 0); return 0; }
errcode_t ext2fs_close2(ext2_filsys fs, int flags) { (void) fs; (void) flags; vf_log(EV_CLOSE, 0, 0); return 0; }
void ext2fs_free(ext2_filsys fs)
{
	PROP(fs == &vf_fs_old, "only the stale handle is freed");
	vf_log(EV_FREE_OLD, 0, 0);
}
errcode_t ext2fs_mmp_stop(ext2_filsys fs) { (void) fs; return 0; }
errcode_t ext2fs_open(const char *name, int flags, int superblock, unsigned int block_size,
		      io_manager manager, ext2_filsys *ret_fs)
{
	(void) name; (void) superblock; (void) block_size; (void) manager;
	vf_log(EV_OPEN, 0, 0);
	vf_fs_new.flags = flags & ~EXT2_FLAG_DIRTY;
	*ret_fs = &vf_fs_new;
	return 0;
}
#ifndef VF_REPLAY
/* STUB: gettext returns its argument (messages only) */
char *gettext(const char *m) { return (char *) m; }
#endif
int uuid_is_null(const uuid_t uu) { (void) uu; return 0; }
/* STUB: fatal_error is not reached (re-open succeeds) */
void fatal_error(e2fsck_t ctx, const char *msg) { (void) ctx; (void) msg; vf_fatal++; }

int main(void)
{
	errcode_t rc, rc2 = 0;
	int k, replay_unsynced = 0, recover_entered = 0, recover_exited = 0, freed = 0, opened = 0, ran = 0;
	int ask_run, run_yes, reset_yes;

	VF_INPUT(IN);
	ASSUME(IN.nreplay <= 3 && IN.fail_after <= 3);
	ASSUME(IN.load2_rc >= 0 && IN.load2_rc < 1000 && IN.recover_rc >= 0 && IN.recover_rc < 1000);
	ASSUME(IN.recover <= 1 && IN.dirty <= 1 && IN.separate_io <= 1 && IN.from_backup <= 1);
	vf_disk_start = IN.jstart;
	vf_disk_seq = IN.seq;
	vf_disk_errno = IN.jerrno;
	vf_mgr.close = stub_close;
	vf_fsio.manager = &vf_mgr;
	vf_jio.manager = &vf_mgr;
	vf_fsio_new.manager = &vf_mgr;
	/* ASSUME: the superblock has the has_journal feature (the "journal fields set without has_journal" dialogue is outside) */
	vf_sb_old.s_feature_compat = EXT3_FEATURE_COMPAT_HAS_JOURNAL;
	vf_sb_old.s_feature_incompat = IN.recover ? EXT3_FEATURE_INCOMPAT_RECOVER : 0;
	vf_sb_old.s_journal_inum = 8;
	vf_sb_old.s_state = IN.state;
	vf_fs_old.super = &vf_sb_old;
	vf_fs_old.io = &vf_fsio;
	vf_fs_old.blocksize = 1024;
	vf_fs_old.flags = EXT2_FLAG_RW | (IN.dirty ? EXT2_FLAG_DIRTY | EXT2_FLAG_CHANGED : 0);
	vf_sb_new.s_feature_compat = EXT3_FEATURE_COMPAT_HAS_JOURNAL;
	vf_sb_new.s_feature_incompat = EXT3_FEATURE_INCOMPAT_RECOVER;
	vf_sb_new.s_journal_inum = 8;
	vf_sb_new.s_state = IN.state;
	vf_fs_new.super = &vf_sb_new;
	vf_fs_new.io = &vf_fsio_new;
	vf_fs_new.blocksize = 1024;
	vf_ctx.fs = &vf_fs_old;
	vf_ctx.options = IN.options;
	vf_ctx.superblock = IN.from_backup ? 8193 : 0;
	vf_ctx.openfs_flags = EXT2_FLAG_RW;
	/* the flag is on stable storage iff the superblock this clean handle was opened from has it (a dirty handle proves nothing; e2fsck -b reads a backup, which never carries the flag) */
	vf_durable_recover = IN.recover && !IN.dirty;

	/* ---- unix.c:main(): check the journal fields, then run the journal if the superblock asks for it */
	rc = e2fsck_check_ext3_journal(&vf_ctx);
	if (rc == 0 && ext2fs_has_feature_journal_needs_recovery(&vf_sb_old) && !(vf_ctx.options & E2F_OPT_READONLY)) {
		ran = 1;
		rc2 = e2fsck_run_ext3_journal(&vf_ctx);
	}

	PROP(vf_nev <= MAXEV, "event log large enough");
	PROP(rc == 0, "the journal consistency check succeeds (journal loads)");
	PROP(!vf_fatal, "no fatal error");
	for (k = 0; k < MAXEV; k++) {
		if (k >= vf_nev) continue;
		switch (vf_ev[k]) {
		case EV_RECOVER_ENTER: recover_entered++; break;
		case EV_RECOVER_EXIT: recover_exited++; break;
		case EV_REPLAY: replay_unsynced = 1; break;
		case EV_SYNC: replay_unsynced = 0; break;
		case EV_FLUSH_OLD:
			PROP(!recover_entered, "the stale handle is never flushed once the replay has started");
			break;
		case EV_CLOSE:
			PROP(0, "the stale handle is not closed (close flushes)");
			break;
		case EV_FREE_OLD:
			PROP(ran, "the handle is only dropped by the journal run");
			freed++;
			break;
		case EV_OPEN:
			PROP(freed == 1, "the filesystem is re-opened after the stale handle was released");
			opened++;
			break;
		case EV_JSB:
			if (recover_entered && !IN.recover_rc && vf_jsb_start[k] == 0)
				PROP(recover_exited && !replay_unsynced, "journal marked empty only after every replay write has been followed by a sync");
			if (recover_entered)
				PROP(recover_exited, "the journal superblock is not written while recovery runs");
			break;
		default:
			break;
		}
	}
	/* the dialogue of e2fsck_check_ext3_journal for "flag clear but the journal has data" */
	ask_run = !IN.recover && IN.jstart != 0;
	run_yes = (IN.answers >> ((IN.from_backup ? PR_0_JOURNAL_RUN_DEFAULT : PR_0_JOURNAL_RUN) & 31)) & 1;
	reset_yes = (IN.answers >> (PR_0_JOURNAL_RESET_JOURNAL & 31)) & 1;

	if (recover_entered) {
		/* THE BARRIER */
		PROP(vf_enter_mem_recover == 1, "recovery runs only with needs_recovery set in the superblock");
		PROP(vf_enter_durable == 1, "needs_recovery is on stable storage before the first replayed block is written (flag set in memory => superblock dirty => syncing flush before the replay)");
		PROP(recover_entered == 1 && recover_exited == 1, "recovery runs once");
	}
	if (ran) {
		PROP(freed == 1 && opened == 1 && vf_ctx.fs == &vf_fs_new, "after the journal run the stale handle is dropped and the filesystem re-opened");
		PROP(!(vf_sb_new.s_feature_incompat & EXT3_FEATURE_INCOMPAT_RECOVER) && (vf_fs_new.flags & EXT2_FLAG_DIRTY),
		     "needs_recovery is cleared in the re-opened superblock, which is marked dirty");
		PROP(vf_fs_new.flags & EXT2_FLAG_MASTER_SB_ONLY, "only the master superblock is rewritten");
		if (IN.load2_rc || IN.recover_rc) {
			PROP(rc2 != 0, "a failed load or recovery is reported");
			PROP(!(vf_sb_new.s_state & EXT2_VALID_FS), "after a failed recovery the filesystem is marked not valid");
		} else {
			PROP(rc2 == 0, "successful recovery is reported as success");
			PROP(recover_entered == 1, "the journal run enters recovery");
			PROP(vf_disk_start == 0 && vf_disk_seq == IN.seq + IN.nreplay + 1, "the journal is left empty, restarting at the sequence recovery computed");
		}
	} else {
		PROP(!recover_entered && freed == 0 && opened == 0, "without a recovery request (or read-only) nothing is replayed and the handle is kept");
	}
	if (ask_run && !(IN.options & E2F_OPT_READONLY)) {
		if (run_yes)
			PROP(ran && (vf_ctx.options & E2F_OPT_FORCE), "\"run journal anyway\" = yes: the journal is run and a full check forced");
		else {
			PROP(!ran, "\"run journal anyway\" = no: no replay");
			if (reset_yes)
				PROP(vf_disk_start == 0 && !(vf_sb_old.s_state & EXT2_VALID_FS) && (vf_fs_old.flags & EXT2_FLAG_DIRTY),
				     "\"clear journal\" = yes: journal marked empty, filesystem marked not valid, superblock dirty");
			else
				PROP(vf_disk_start == IN.jstart, "both answers no: the journal is left alone");
		}
	}
	if (!ask_run && !IN.recover)
		PROP(!ran, "an empty journal without a recovery request is not run");
	VF_END();
	return 0;
}
