/*
 * C04/protocol: the write ordering of e2fsck's journal recovery front-end
 * (pattern P).  Real code: recover_ext3_journal(), e2fsck_journal_release(),
 * brelse(), ll_rw_block(), mark_buffer_dirty() of e2fsck/journal.c.
 *
 * jbd2_journal_recover() is replaced by its SPECIFICATION, which the C03 `order`
 * harness establishes for the real function (harness/C03/order.c, registered under
 * C04 as well): it issues its replay writes, syncs the device, and only then
 * returns 0 -- or fails (symbolic) after some of the writes, without a sync.
 * The io channel is an event log.  Decided, for every outcome of loading and
 * recovering and every e2fsck option word:
 *   - the journal superblock is NEVER written before recovery has returned;
 *   - when it is written with s_start == 0 ("journal empty") after a successful
 *     recovery, every replay write is already followed by a sync: the journal cannot
 *     be marked empty on stable storage before the replayed blocks are durable;
 *   - on success the superblock IS written with s_start == 0 and the sequence number
 *     recovery computed, exactly once, through the journal's channel.
 * On the failure path upstream still resets the journal (a full check follows); that
 * is recorded, not asserted.
 */
#include "config.h"
#include <stdio.h>
#include <stdlib.h>
#include <string.h>
#include "ext2fs/ext2_fs.h"
#include "ext2fs/ext2fs.h"
struct e2fsck_struct;
typedef struct e2fsck_struct *vf_e2fsck_t;
#define E2FSCK_INCLUDE_INLINE_FUNCS
#include "e2fsck.h"
#include "jfs_user.h"
static errcode_t e2fsck_get_journal(e2fsck_t ctx, journal_t **ret_journal);
static errcode_t e2fsck_journal_load(journal_t *journal);
#include "e2fsck/journal.c"

struct vf_in {
	long load_rc, recover_rc;
	unsigned char nreplay;		/* replay writes issued by recovery (0..3) */
	unsigned char fail_after;	/* on failure: writes issued before giving up */
	int options;
	__u32 seq, jstart, failed_commit;
	unsigned char separate_io;
};
VF_DECLARE_INPUT(struct vf_in, IN)
#include "vf_input.inc"

#define EV_REPLAY 1
#define EV_SYNC 2
#define EV_JSB 3
#define MAXEV 12
static int vf_ev[MAXEV], vf_nev, vf_jsb_start[MAXEV], vf_recover_returned, vf_recover_called;
static __u32 vf_jsb_seq[MAXEV];

static void vf_log(int e, __u32 start, __u32 seq)
{
	int k;
	for (k = 0; k < MAXEV; k++)
		if (k == vf_nev) {
			vf_ev[k] = e;
			vf_jsb_start[k] = start;
			vf_jsb_seq[k] = seq;
		}
	vf_nev++;
}

static struct e2fsck_struct vf_ctx;
static struct struct_ext2_filsys vf_fs;
static struct ext2_super_block vf_sb;
static struct struct_io_channel vf_fsio, vf_jio;
static struct struct_io_manager vf_mgr;
static journal_t *vf_journal;

/* STUB: writes through the journal's channel are journal-superblock writes (the only buffer this front-end owns) */
errcode_t io_channel_write_blk64(io_channel ch, unsigned long long blk, int cnt, const void *data)
{
	const journal_superblock_t *jsb = data;
	(void) ch; (void) blk; (void) cnt;
	vf_log(EV_JSB, jsb->s_start, ntohl(jsb->s_sequence));
	return 0;
}
errcode_t io_channel_read_blk64(io_channel ch, unsigned long long blk, int cnt, void *data)
{ (void) ch; (void) blk; (void) cnt; (void) data; return 0; }
static errcode_t stub_close(io_channel ch) { (void) ch; return 0; }

/* STUB: e2fsck_get_journal builds the journal handle with its superblock buffer (symbolic s_start / sequence) */
static errcode_t e2fsck_get_journal(e2fsck_t ctx, journal_t **ret)
{
	journal_t *j = calloc(1, sizeof(*j));
	struct buffer_head *bh = calloc(1, sizeof(*bh));
	journal_superblock_t *jsb;
	ASSUME(j && bh);
	bh->b_ctx = ctx;
	bh->b_io = IN.separate_io ? &vf_jio : &vf_fsio;
	bh->b_uptodate = 1;
	jsb = (journal_superblock_t *) bh->b_data;
	jsb->s_header.h_magic = htonl(JBD2_MAGIC_NUMBER);
	jsb->s_header.h_blocktype = htonl(JBD2_SUPERBLOCK_V2);
	jsb->s_start = htonl(IN.jstart);
	jsb->s_sequence = htonl(IN.seq);
	j->j_sb_buffer = bh;
	j->j_superblock = jsb;
	j->j_tail_sequence = IN.seq;
	ctx->journal_io = IN.separate_io ? &vf_jio : &vf_fsio;
	vf_journal = j;
	*ret = j;
	return 0;
}
static errcode_t e2fsck_journal_load(journal_t *journal) { (void) journal; return IN.load_rc; }

/* STUB: revoke caches/tables succeed */
int jbd2_journal_init_revoke_record_cache(void) { return 0; }
int jbd2_journal_init_revoke_table_cache(void) { return 0; }
void jbd2_journal_destroy_revoke_record_cache(void) { }
void jbd2_journal_destroy_revoke_table_cache(void) { }
int jbd2_journal_init_revoke(journal_t *j, int n) { (void) j; (void) n; return 0; }
void jbd2_journal_destroy_revoke(journal_t *j) { (void) j; }

/* STUB (specification proved for the real function by C03/order.c): replay writes, then sync, then return 0;
 * on failure some writes may have been issued and no sync is guaranteed */
int jbd2_journal_recover(journal_t *journal)
{
	int i, n = IN.recover_rc ? IN.fail_after : IN.nreplay;
	vf_recover_called++;
	for (i = 0; i < 3; i++)
		if (i < n)
			vf_log(EV_REPLAY, 0, 0);
	if (!IN.recover_rc) {
		vf_log(EV_SYNC, 0, 0);
		journal->j_transaction_sequence = IN.seq + IN.nreplay + 1;
		journal->j_failed_commit = IN.failed_commit;
	}
	vf_recover_returned = 1;
	return IN.recover_rc ? -(int) IN.recover_rc : 0;
}
int fix_problem(e2fsck_t ctx, problem_t code, struct problem_context *pctx) { (void) ctx; (void) code; (void) pctx; return 1; }
void clear_problem_context(struct problem_context *pctx) { memset(pctx, 0, sizeof(*pctx)); }

int main(void)
{
	errcode_t rc;
	int k, seen_replay_unsynced = 0, jsb_writes = 0, last_start = -1;
	__u32 last_seq = 0;

	VF_INPUT(IN);
	ASSUME(IN.nreplay <= 3 && IN.fail_after <= 3);
	ASSUME(IN.load_rc >= 0 && IN.load_rc < 1000 && IN.recover_rc >= 0 && IN.recover_rc < 1000);
	/* ASSUME: journal recovery is only entered by a repairing run (e2fsck skips it with -n: unix.c) */
	ASSUME(!(IN.options & E2F_OPT_READONLY));
	ASSUME(IN.jstart != 0);
	vf_mgr.close = stub_close;
	vf_fsio.manager = &vf_mgr;
	vf_jio.manager = &vf_mgr;
	vf_fs.super = &vf_sb;
	vf_fs.io = &vf_fsio;
	vf_fs.blocksize = 1024;
	vf_ctx.fs = &vf_fs;
	vf_ctx.options = IN.options;

	rc = recover_ext3_journal(&vf_ctx);

	for (k = 0; k < MAXEV; k++) {
		if (k >= vf_nev) continue;
		if (vf_ev[k] == EV_REPLAY) seen_replay_unsynced = 1;
		if (vf_ev[k] == EV_SYNC) seen_replay_unsynced = 0;
		if (vf_ev[k] == EV_JSB) {
			jsb_writes++;
			last_start = vf_jsb_start[k];
			last_seq = vf_jsb_seq[k];
			if (!IN.load_rc)
				PROP(vf_recover_called && vf_recover_returned, "the journal superblock is not written before recovery has run");
			if (!IN.load_rc && !IN.recover_rc && vf_jsb_start[k] == 0)
				PROP(!seen_replay_unsynced,
				     "journal marked empty only after every replay write has been followed by a sync");
		}
	}
	PROP(vf_nev <= MAXEV, "event log large enough");
	if (!IN.load_rc && !IN.recover_rc) {
		PROP(rc == 0, "successful recovery is reported as success");
		PROP(jsb_writes == 1 && last_start == 0, "after a successful recovery the journal superblock is written once, marked empty");
		PROP(last_seq == IN.seq + IN.nreplay + 1, "the journal restarts at the sequence number recovery computed");
	} else
		PROP(rc != 0, "a failed load or recovery is reported");
	VF_END();
	return 0;
}
