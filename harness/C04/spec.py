"""C04 -- journal recovery can be interrupted anywhere and re-run.

Decided part:
  order     (source harness/C03/order.c = the full real jbd2_journal_recover over a device split into a
            volatile and a durable store): when recovery returns, the durable store equals the reference
            replay and no write is left unflushed; the journal itself is never written by recovery, so a
            re-run after ANY interruption starts from the same journal and -- because the replayed blocks'
            final content is a function of the journal only (C03 recover/replay_pass: the initial filesystem
            bytes are symbolic) -- produces the same blocks.
  e2fsck_front  the real e2fsck_check_ext3_journal + e2fsck_run_ext3_journal (as main() sequences them): whenever recovery is
            entered the needs_recovery flag is durable -- the handle was clean with the flag on disk, or the last flush before the
            replay wrote a superblock image with the flag set and was a syncing flush; re-open afterwards, flag cleared only then.
  flush_sync    the real ext2fs_flush2: a flush without EXT2_FLAG_FLUSH_NO_SYNC ends with a device sync whatever fs->flags holds,
            everything else is synced before the primary superblock, the primary image carries needs_recovery, backups never do.
  protocol  the real recover_ext3_journal / e2fsck_journal_release / brelse / ll_rw_block: the journal
            superblock is written with s_start == 0 only after recovery (write* ; sync) has returned.
"""
import importlib.util, os
_p = os.path.join(os.path.dirname(os.path.abspath(__file__)), "..", "C03", "spec.py")
_s = importlib.util.spec_from_file_location("spec_C03_for_C04", _p)
_m = importlib.util.module_from_spec(_s)
_s.loader.exec_module(_m)

META = {
    "assumptions": ["allocation failure out of scope (--no-malloc-may-fail)",
                    "device writes succeed (I/O errors during replay are not modelled)",
                    "the unix_io write-back cache between ll_rw_block and the device is represented by its C17 "
                    "specification: a write becomes durable no later than the next flush"],
    "outside": ["crash points INSIDE the device (torn / reordered sectors)", "the restart logic of unix.c:main (E2F_FLAG_RESTARTED; the "
                "check-then-run sequence of main() is restated in e2fsck_front), journal loading/validation (e2fsck_get_journal, "
                "e2fsck_journal_load are cut), the 'journal fields without has_journal' dialogue",
                "debugfs front-end: decided in C03/dbg_protocol (same barrier: syncing flush before the replay)",
                "checksummed journals, fast commit, external journal plumbing (as C03)",
                "the failure path: recover_ext3_journal resets the journal even when recovery failed (upstream behaviour: a full check follows)"],
}

_p17 = os.path.join(os.path.dirname(os.path.abspath(__file__)), "..", "C17", "spec.py")
_s17 = importlib.util.spec_from_file_location("spec_C17_for_C04", _p17)
_m17 = importlib.util.module_from_spec(_s17)
_s17.loader.exec_module(_m17)

def _flush():
    """sync_blockdev -> io_channel_flush -> unix_flush: the C17 cache FLUSH step (from an arbitrary cache state the
    device holds the model AND an fsync is issued, even when this flush has nothing left to write)"""
    for h in _m17.HARNESSES:
        if h["name"] == "cache":
            d = dict(h)
            d["name"] = "flush_durable"
            d["src"] = "../C17/cache.c"
            d["configs"] = [c for c in h["configs"] if c.get("OP") == _m17.OPS["FLUSH"] and "FAULT" not in c
                            and "E2FSPROGS_VERIF_CACHE_SIZE" not in c]
            d["funcs"] = ["unix_flush", "flush_cached_blocks"]
            return d
    raise RuntimeError("C17 cache harness missing")

def _dbg_protocol():
    """the debugfs front-end (source harness/C03/dbg_protocol.c): pre-replay flush is a syncing one and precedes the replay"""
    for h in _m.HARNESSES:
        if h["name"] == "dbg_protocol":
            d = dict(h)
            d["src"] = "../C03/dbg_protocol.c"
            return d
    raise RuntimeError("C03 dbg_protocol harness missing")

def _order():
    for h in _m.HARNESSES:
        if h["name"] == "order":
            d = dict(h)
            d["src"] = "../C03/order.c"
            return d
    raise RuntimeError("C03 order harness missing")

HARNESSES = [
    _order(),
    _dbg_protocol(),
    _flush(),
    dict(name="syncdev", src="syncdev.c", funcs=["sync_blockdev", "getblk", "ll_rw_block"],
         unwind=4, backends=["default"],
         bound="internal and external journal, both devices, any block number, flush outcome symbolic"),
    dict(name="flush_sync", src="flush_sync.c", extra_src=["lib/ext2fs/blknum.c"],
         funcs=["ext2fs_flush2", "write_primary_superblock", "write_backup_super", "ext2fs_super_and_bgd_loc2"],
         configs=[{"ORIG": 0}, {"ORIG": 1}],
         unwind=4, unwindset=["main.%d:14" % i for i in range(6)] + ["vf_log.0:14", "ext2fs_flush2.0:4", "test_root.0:6",
                             "write_primary_superblock.0:514", "write_primary_superblock.1:514", "write_primary_superblock.2:514"],
         backends=["default", "kissat"],
         bound="2 groups, 1 KiB blocks; fs->flags RW/DIRTY/MASTER_SB_ONLY/SUPER_ONLY, the flags argument (any int), journal_dev, "
               "needs_recovery, sparse_super, s_state symbolic; primary superblock written whole, or (ORIG=1) by changed byte ranges "
               "through write_byte (three concrete changed ranges)"),
    dict(name="e2fsck_front", src="e2fsck_front.c",
         cut_statics={"e2fsck/journal.c": ["e2fsck_get_journal", "e2fsck_journal_load"]},
         funcs=["e2fsck_check_ext3_journal", "e2fsck_run_ext3_journal", "recover_ext3_journal", "e2fsck_journal_release",
                "e2fsck_clear_recover", "brelse", "ll_rw_block"],
         unwind=4, unwindset=["main.%d:22" % i for i in range(6)] + ["vf_log.0:22", "jbd2_journal_recover.0:5", "ll_rw_block.0:3"],
         backends=["default", "kissat"],
         bound="superblock as opened: needs_recovery set/clear, s_state symbolic, has_journal set; handle clean/dirty; journal superblock "
               "s_start (0 = empty) / s_sequence / s_errno symbolic; every fix_problem answer word; every e2fsck option word; -b or "
               "not; 0..3 replay writes; outcome of the journal load inside recovery and of recovery symbolic"),
    dict(name="protocol", src="protocol.c",
         cut_statics={"e2fsck/journal.c": ["e2fsck_get_journal", "e2fsck_journal_load"]},
         funcs=["recover_ext3_journal", "e2fsck_journal_release", "brelse", "ll_rw_block"],
         unwind=4, unwindset=["main.%d:14" % i for i in range(6)] + ["vf_log.0:14", "jbd2_journal_recover.0:5", "ll_rw_block.0:3"],
         backends=["default", "kissat"],
         bound="0..3 replay writes, load / recovery outcome symbolic, every e2fsck option word without READONLY, "
               "journal on the filesystem channel or on its own channel"),
]
MANIFEST = {
    "text": "Bounded-exhaustive ordering check of journal recovery: the real jbd2_journal_recover over a volatile/durable "
            "device model leaves every replayed block durable when it returns (for every journal content within the C03 "
            "bounds), never writes the journal, and the real e2fsck front-end marks the journal empty only afterwards. "
            "Re-run equivalence after an interruption follows from these facts plus C03 (replayed content is a function "
            "of the journal only); it is argued, not explored crash point by crash point.",
    "note": "Trusted: CBMC's C semantics, the array-backed buffer layer and device model, the C03 reference model. "
            "Bounds as C03 recover (journal 6 x 32 bytes, 3 fs blocks).",
}
