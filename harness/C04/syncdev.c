/*
 * C04/syncdev: the device-selection of e2fsck's buffer layer (e2fsck/journal.c):
 * sync_blockdev(), getblk() and ll_rw_block() must act on the channel of the device
 * they are given -- K_DEV_FS -> ctx->fs->io, K_DEV_JOURNAL -> ctx->journal_io -- for
 * an internal journal (both the same channel) and an EXTERNAL one (two channels).
 * jbd2_journal_recover() syncs journal->j_fs_dev after replay (checked in
 * C03/order.c with a restated buffer layer); this harness ties that call to the
 * real sync_blockdev: the flush that makes the replayed blocks durable goes to the
 * FILESYSTEM device even when the journal lives on another one.
 */
#include "config.h"
#include <stdio.h>
#include <stdlib.h>
#include <string.h>
#include "ext2fs/ext2_fs.h"
#include "ext2fs/ext2fs.h"
#define E2FSCK_INCLUDE_INLINE_FUNCS
#include "e2fsck.h"
#include "jfs_user.h"
#include "e2fsck/journal.c"

struct vf_in {
	unsigned char external;		/* journal on its own channel */
	unsigned char dev;		/* 1: K_DEV_FS, 2: K_DEV_JOURNAL */
	unsigned long long blk;
	long flush_rc;
};
VF_DECLARE_INPUT(struct vf_in, IN)
#include "vf_input.inc"

static struct e2fsck_struct vf_ctx;
static struct struct_ext2_filsys vf_fs;
static struct struct_io_channel vf_fsio, vf_jio;
static struct struct_io_manager vf_mgr;
static int vf_flush_fs, vf_flush_j, vf_wr_fs, vf_wr_j;

static errcode_t stub_flush(io_channel ch)
{
	if (ch == &vf_fsio) vf_flush_fs++;
	if (ch == &vf_jio) vf_flush_j++;
	return IN.flush_rc;
}
errcode_t io_channel_write_blk64(io_channel ch, unsigned long long blk, int cnt, const void *data)
{
	(void) blk; (void) cnt; (void) data;
	if (ch == &vf_fsio) vf_wr_fs++;
	if (ch == &vf_jio) vf_wr_j++;
	return 0;
}
/* STUB: e2fsck_allocate_memory = zeroed allocation that succeeds (util.c) */
void *e2fsck_allocate_memory(e2fsck_t ctx, unsigned long size, const char *description)
{
	void *p = calloc(1, size);
	(void) ctx; (void) description;
	ASSUME(p != 0);
	return p;
}
errcode_t io_channel_read_blk64(io_channel ch, unsigned long long blk, int cnt, void *data)
{ (void) ch; (void) blk; (void) cnt; (void) data; return 0; }

int main(void)
{
	struct kdev_s kd;
	struct buffer_head *bh;
	io_channel want;
	int rc;

	VF_INPUT(IN);
	ASSUME(IN.dev == K_DEV_FS || IN.dev == K_DEV_JOURNAL);
	ASSUME(IN.external <= 1 && IN.flush_rc >= 0 && IN.flush_rc < 1000);
	vf_mgr.flush = stub_flush;
	vf_fsio.manager = &vf_mgr;
	vf_jio.manager = &vf_mgr;
	vf_fs.io = &vf_fsio;
	vf_fs.blocksize = 1024;
	vf_ctx.fs = &vf_fs;
	vf_ctx.journal_io = IN.external ? &vf_jio : &vf_fsio;
	kd.k_ctx = &vf_ctx;
	kd.k_dev = IN.dev;
	want = (IN.dev == K_DEV_FS) ? &vf_fsio : vf_ctx.journal_io;

	rc = sync_blockdev(&kd);
	PROP((want == &vf_fsio ? vf_flush_fs : vf_flush_j) == 1 && vf_flush_fs + vf_flush_j == 1,
	     "sync_blockdev flushes exactly the channel of the device it is given (fs device -> fs->io)");
	PROP((rc != 0) == (IN.flush_rc != 0), "a failed flush is reported by sync_blockdev");

	bh = getblk(&kd, IN.blk, 1024);
	PROP(bh && bh->b_io == want && bh->b_blocknr == IN.blk, "getblk binds the buffer to the channel of its device");
	mark_buffer_dirty(bh);
	ll_rw_block(REQ_OP_WRITE, 0, 1, &bh);
	PROP((want == &vf_fsio ? vf_wr_fs : vf_wr_j) == 1 && vf_wr_fs + vf_wr_j == 1 && !bh->b_dirty,
	     "a replayed block is written through the channel of ITS device");
	VF_END();
	return 0;
}
