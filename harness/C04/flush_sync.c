/*
 * C04/flush_sync: the durability contract of ext2fs_flush2() (lib/ext2fs/closefs.c),
 * the call both recovery front-ends rely on to put the pending in-memory state
 * (above all the needs_recovery flag of the primary superblock) on STABLE storage
 * before the first replayed block is written (pattern P, io channel = event log).
 *
 * Real code: ext2fs_flush2(), write_primary_superblock(), write_backup_super(),
 * ext2fs_super_and_bgd_loc2() on a 2-group filesystem.  For every combination of
 * fs->flags {RW, DIRTY, MASTER_SB_ONLY, SUPER_ONLY}, every `flags` argument, with
 * and without journal_dev / needs_recovery, primary superblock written whole
 * (no orig_super) or by changed byte ranges (ORIG=1):
 *   - after a successful flush WITHOUT EXT2_FLAG_FLUSH_NO_SYNC the last thing the
 *     channel saw is io_channel_flush(): every superblock / descriptor byte written
 *     by this call is followed by a device sync -- whatever fs->flags says (the
 *     argument decides, not the filesystem's RW bit, which has the same value);
 *   - everything else is synced BEFORE the primary superblock is written (two syncs);
 *   - with EXT2_FLAG_FLUSH_NO_SYNC the same bytes are written and the call ends
 *     without a sync;
 *   - the primary superblock image carries the in-memory needs_recovery flag and
 *     state, backup images never carry needs_recovery; EXT2_FLAG_DIRTY is cleared.
 */
#include "lib/ext2fs/closefs.c"

#ifndef ORIG
#define ORIG 0
#endif
#define BPG 256
#define MAXEV 12

struct vf_in {
	unsigned char rw, dirty, master_only, super_only, journal_dev, recover, sparse;
	int flags;			/* the argument of ext2fs_flush2 */
	__u16 state;
};
VF_DECLARE_INPUT(struct vf_in, IN)
#include "vf_input.inc"

static struct struct_ext2_filsys vf_fs;
static struct ext2_super_block vf_sb, vf_orig;
static struct struct_io_channel vf_io;
static struct struct_io_manager vf_mgr;
static char vf_gd[1024];

#define EV_SYNC 1
#define EV_BACKUP_SB 2
#define EV_DESC 3
#define EV_PRIMARY 4		/* whole primary superblock */
#define EV_PRIMARY_BYTES 5	/* a changed byte range of the primary superblock */
static int vf_ev[MAXEV], vf_nev, vf_ev_recover[MAXEV], vf_blksize_now = 1024;
static __u16 vf_primary_state;

static void vf_log(int e, int rec)
{
	int k;
	for (k = 0; k < MAXEV; k++)
		if (k == vf_nev) {
			vf_ev[k] = e;
			vf_ev_recover[k] = rec;
		}
	vf_nev++;
}

/* STUB: the io channel is an event log: block writes (classified primary superblock / backup superblock / descriptors), byte writes (primary superblock ranges), flush = device sync; all succeed */
errcode_t io_channel_write_blk64(io_channel ch, unsigned long long blk, int count, const void *data)
{
	const struct ext2_super_block *sb = data;
	(void) ch;
	if (count == -SUPERBLOCK_SIZE) {
		int rec = (sb->s_feature_incompat & EXT3_FEATURE_INCOMPAT_RECOVER) != 0;
		if (vf_blksize_now == SUPERBLOCK_OFFSET && blk == 1) {
			vf_primary_state = sb->s_state;
			vf_log(EV_PRIMARY, rec);
		} else
			vf_log(EV_BACKUP_SB, rec);
	} else
		vf_log(EV_DESC, 0);
	return 0;
}
static errcode_t stub_write_byte(io_channel ch, unsigned long off, int cnt, const void *d)
{
	(void) ch; (void) cnt; (void) d;
	vf_log(EV_PRIMARY_BYTES, (int) off);
	return 0;
}
errcode_t io_channel_write_byte(io_channel ch, unsigned long off, int cnt, const void *d)
{
	if (!ch->manager->write_byte)
		return EXT2_ET_UNIMPLEMENTED;
	return ch->manager->write_byte(ch, off, cnt, d);
}
static errcode_t stub_flush(io_channel ch) { (void) ch; vf_log(EV_SYNC, 0); return 0; }
static errcode_t stub_set_blksize(io_channel ch, int bs) { (void) ch; vf_blksize_now = bs; return 0; }
/* STUB: checksum setter succeeds (C14 covers it) */
errcode_t ext2fs_superblock_csum_set(ext2_filsys fs, struct ext2_super_block *sb) { (void) fs; (void) sb; return 0; }

int main(void)
{
	errcode_t rc;
	int k, nsync = 0, last = 0, other_unsynced = 0, primary_unsynced = 0, nprimary = 0;

	VF_INPUT(IN);
#if ORIG
	/* BOUND (ORIG=1): the superblock content is concrete (needs_recovery set, no journal_dev, sparse_super, state 1) so that the word-compare loops of write_primary_superblock stay concrete; fs->flags and the flags argument stay symbolic */
	IN.journal_dev = 0; IN.recover = 1; IN.sparse = 1; IN.state = 1;
#endif
	ASSUME(IN.rw <= 1 && IN.dirty <= 1 && IN.master_only <= 1 && IN.super_only <= 1);
	ASSUME(IN.journal_dev <= 1 && IN.recover <= 1 && IN.sparse <= 1);

	/* BOUND: 2 groups of 256 one-KiB blocks, 32-byte descriptors (one descriptor block), no meta_bg */
	vf_sb.s_magic = EXT2_SUPER_MAGIC;
	vf_sb.s_first_data_block = 1;
	vf_sb.s_blocks_per_group = BPG;
	vf_sb.s_clusters_per_group = BPG;
	vf_sb.s_blocks_count = 1 + 2 * BPG;
	vf_sb.s_rev_level = EXT2_DYNAMIC_REV;
	vf_sb.s_feature_incompat = (IN.journal_dev ? EXT3_FEATURE_INCOMPAT_JOURNAL_DEV : 0) |
		(IN.recover ? EXT3_FEATURE_INCOMPAT_RECOVER : 0);
	vf_sb.s_feature_ro_compat = IN.sparse ? EXT2_FEATURE_RO_COMPAT_SPARSE_SUPER : 0;
	vf_sb.s_state = IN.state;
	vf_mgr.magic = EXT2_ET_MAGIC_IO_MANAGER;
	vf_mgr.set_blksize = stub_set_blksize;
	vf_mgr.flush = stub_flush;
	vf_io.magic = EXT2_ET_MAGIC_IO_CHANNEL;
	vf_io.manager = &vf_mgr;
	vf_io.block_size = 1024;
	vf_fs.magic = EXT2_ET_MAGIC_EXT2FS_FILSYS;
	vf_fs.super = &vf_sb;
	vf_fs.io = &vf_io;
	vf_fs.blocksize = 1024;
	vf_fs.group_desc_count = 2;
	vf_fs.desc_blocks = 1;
	vf_fs.group_desc = (struct opaque_ext2_group_desc *) vf_gd;
	vf_fs.now = 1;
	vf_fs.flags = (IN.rw ? EXT2_FLAG_RW : 0) | (IN.dirty ? EXT2_FLAG_DIRTY : 0) |
		(IN.master_only ? EXT2_FLAG_MASTER_SB_ONLY : 0) | (IN.super_only ? EXT2_FLAG_SUPER_ONLY : 0);
#if ORIG
	/* the handle remembers the superblock as last written (ext2fs_open2 does that): only changed 16-bit words are written, through write_byte */
	vf_mgr.write_byte = stub_write_byte;
	/* BOUND: which words differ is concrete (s_state, s_wtime, s_mnt_count: three separate ranges), so the word-compare loops stay concrete */
	vf_sb.s_mnt_count = 7;
	vf_orig = vf_sb;
	vf_orig.s_state = 0;
	vf_orig.s_wtime = 0x55;
	vf_orig.s_mnt_count = 6;
	vf_fs.orig_super = &vf_orig;
#endif

	rc = ext2fs_flush2(&vf_fs, IN.flags);

	PROP(rc == 0, "flush succeeds");
	PROP(vf_nev <= MAXEV, "event log large enough");
	for (k = 0; k < MAXEV; k++) {
		if (k >= vf_nev) continue;
		last = vf_ev[k];
		switch (vf_ev[k]) {
		case EV_SYNC:
			nsync++;
			other_unsynced = 0;
			primary_unsynced = 0;
			break;
		case EV_BACKUP_SB:
			PROP(!vf_ev_recover[k], "backup superblocks never carry needs_recovery");
			PROP(nprimary == 0, "backups and descriptors are written before the primary superblock");
			other_unsynced = 1;
			break;
		case EV_DESC:
			PROP(nprimary == 0, "backups and descriptors are written before the primary superblock");
			other_unsynced = 1;
			break;
		case EV_PRIMARY:
			PROP(vf_ev_recover[k] == IN.recover, "the primary superblock image carries the in-memory needs_recovery flag");
			PROP(vf_primary_state == IN.state, "the primary superblock image carries the in-memory state");
			/* fall through */
		case EV_PRIMARY_BYTES:
			nprimary++;
			primary_unsynced = 1;
			if (!(IN.flags & EXT2_FLAG_FLUSH_NO_SYNC))
				PROP(!other_unsynced, "everything else is synced before the primary superblock is written");
			break;
		default:
			break;
		}
	}
	if (!(IN.flags & EXT2_FLAG_FLUSH_NO_SYNC)) {
		PROP(vf_nev >= 1 && last == EV_SYNC, "a syncing flush ends with a device sync, whatever fs->flags holds");
		PROP(!other_unsynced && !primary_unsynced, "every byte written by a syncing flush is followed by a device sync");
	} else
		PROP(last != EV_SYNC, "EXT2_FLAG_FLUSH_NO_SYNC: the flush does not end with a sync (the caller syncs)");
#if !ORIG
	PROP(nprimary == 1, "the primary superblock is written exactly once");
#else
	PROP(vf_orig.s_state == vf_sb.s_state && vf_orig.s_feature_incompat == vf_sb.s_feature_incompat,
	     "the remembered superblock is brought up to date");
	PROP(nprimary == 3, "every changed range of the superblock is written");
#endif
	PROP(!(vf_fs.flags & EXT2_FLAG_DIRTY), "the handle is clean afterwards");
	PROP(vf_sb.s_state == IN.state && ((vf_sb.s_feature_incompat & EXT3_FEATURE_INCOMPAT_RECOVER) != 0) == IN.recover,
	     "the in-memory superblock keeps its state and needs_recovery flag");
	VF_END();
	return 0;
}
