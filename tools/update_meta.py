#!/usr/bin/env python3
"""update_meta.py <seeded-name> <try-log> [note]  -- sets detection=caught (harness + first label) from a try_mutant log"""
import json, re, sys
name, log = sys.argv[1:3]
note = sys.argv[3] if len(sys.argv) > 3 else ""
txt = open(log).read()
viol = re.findall(r"harness=(\S+) failed=\[([^\]]*)\]", txt)
m = "/verif/seeded/%s/meta.json" % name
j = json.load(open(m))
if viol:
    h, l = viol[0]
    j["detection"].update(status="caught", by="%s quick%s: %s '%s'" % (j["property"], (" (" + note + ")") if note else "", h, l.split(";")[0][:140]))
    json.dump(j, open(m, "w"), indent=1)
    print(name, "caught", h)
else:
    print(name, "NOT caught in", log)
