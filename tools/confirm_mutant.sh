#!/bin/sh
# usage: confirm_mutant.sh <ID> <n>     (worktree /tmp/mut/<ID>, outputs /tmp/mut/<ID>_out/m<n>.*)
# Confirms independently: patch applies+builds, demo FAILS with it, suite unchanged, demo PASSES without it.
ID=$1; N=$2; WT=/tmp/mut/$ID; O=/tmp/mut/${ID}_out; L=$O/confirm_m$N.log
exec >$L 2>&1
cd $WT || exit 9
git checkout -- . ; git apply $O/m$N.diff || { echo "CONFIRM apply=FAIL"; exit 1; }
make -j4 >/dev/null 2>&1 || { echo "CONFIRM build=FAIL"; git checkout -- .; exit 1; }
rundemo() {
	if [ -f $O/m${N}_demo.sh ]; then WT=$WT bash $O/m${N}_demo.sh; return $?; fi
	cc -O0 -g -w -I$WT/lib -I$WT -o /tmp/mut/${ID}_m${N}_demo $O/m${N}_demo.c $WT/lib/libext2fs.a $WT/lib/libsupport.a $WT/lib/libe2p.a $WT/lib/libext2fs.a $WT/lib/libcom_err.a -lpthread || return 99
	WT=$WT /tmp/mut/${ID}_m${N}_demo
}
rundemo; d1=$?
echo "CONFIRM demo_with_patch rc=$d1"
make -j4 -k check > $O/confirm_m${N}_suite.log 2>&1
grep -h "tests succeeded\|Tests failed" $O/confirm_m${N}_suite.log | sed 's/^/CONFIRM suite: /'
git checkout -- . ; make -j4 >/dev/null 2>&1
rundemo; d0=$?
echo "CONFIRM demo_without_patch rc=$d0"
if [ $d1 != 0 ] && [ $d1 != 99 ] && [ $d0 = 0 ]; then echo "CONFIRM RESULT=OK"; else echo "CONFIRM RESULT=BAD"; fi
