#!/bin/sh
# usage: run_all.sh <tier> [jobs] [props...]   -- runs the registered checks one after another, prints one line each
TIER=${1:-quick}; JOBS=${2:-8}; shift 2 2>/dev/null
PROPS=${*:-$(python3 -c "import json;print(' '.join(c['property_id'] for c in json.load(open('/verif/MANIFEST.json'))['checks']))")}
for p in $PROPS; do
	python3 run.py $p --tier $TIER --jobs $JOBS --no-evidence > /tmp/runall.$p.$TIER.log 2>&1
	echo "rc=$? $(tail -1 /tmp/runall.$p.$TIER.log)"
	grep -h "^VIOLATION\|^BROKEN\|^ENCODING\|^INCONCLUSIVE\|^BUILD-ERROR" /tmp/runall.$p.$TIER.log | cut -c1-220 | head -20
done
