#!/usr/bin/env python3
"""prints the markdown table of seeded changes from seeded/*/meta.json"""
import json, os
V = os.path.dirname(os.path.dirname(os.path.abspath(__file__)))
rows = []
for d in sorted(os.listdir(os.path.join(V, "seeded"))):
    m = os.path.join(V, "seeded", d, "meta.json")
    if not os.path.exists(m):
        continue
    j = json.load(open(m))
    det = j.get("detection", {})
    rows.append("| %s | %s | %s | %s |" % (d, j["needs_to_manifest"].replace("|", "/")[:150],
                                         det.get("status", "?"), det.get("by", "").replace("|", "/")[:170]))
print("| change | needs, to manifest | status | caught by / why missed |")
print("|---|---|---|---|")
print("\n".join(rows))
c = {}
for r in rows:
    st = r.split("|")[3].strip()
    c[st] = c.get(st, 0) + 1
print("\nTotals: " + ", ".join("%s %d" % kv for kv in sorted(c.items())))
fr = {}
for d in sorted(os.listdir(os.path.join(V, "seeded"))):
    m = os.path.join(V, "seeded", d, "meta.json")
    if os.path.exists(m):
        f = json.load(open(m)).get("first_run")
        if f:
            k = f.split(" (")[0]
            fr[k] = fr.get(k, 0) + 1
if fr:
    print("\nLater rounds, first run against the checks as they stood BEFORE the change had been looked at: "
          + ", ".join("%s %d" % kv for kv in sorted(fr.items())))
