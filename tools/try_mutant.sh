#!/bin/sh
# usage: try_mutant.sh <patch.diff> <PROP> [run.py args...]
# Applies the patch in a scratch worktree of /repo's HEAD (so /repo itself is never touched while
# other runs read it) and runs the property's check against that tree (VF_REPO).
P=$1; PROP=$2; shift 2
WT=${VF_MUTWT:-/tmp/vf_mutwt.$$}
git -C /repo worktree add --detach "$WT" HEAD >/dev/null 2>&1 || { echo "cannot create worktree"; exit 9; }
trap 'git -C /repo worktree remove --force "$WT" >/dev/null 2>&1' EXIT
(cd "$WT" && git apply "$P") || { echo "patch does not apply"; exit 9; }
cd /verif && VF_REPO="$WT" python3 run.py $PROP --no-evidence "$@"
rc=$?
echo "try_mutant rc=$rc"
exit $rc
