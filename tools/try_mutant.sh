#!/bin/sh
# usage: try_mutant.sh <patch.diff> <PROP> [run.py args...]
# applies the patch to /repo, runs the property's check, always restores /repo.
P=$1; PROP=$2; shift 2
cd /repo || exit 9
git diff --quiet || { echo "/repo has uncommitted changes"; exit 9; }
git apply "$P" || { echo "patch does not apply"; exit 9; }
cd /verif && python3 run.py $PROP --no-evidence "$@"
rc=$?
git -C /repo checkout -- .
echo "try_mutant rc=$rc"
exit $rc
