#!/usr/bin/env python3
"""DESIGN.md = header + Part B (kept verbatim in design_partB.md) + Part A (design_partA.md) + seeded table"""
import os, subprocess
V = os.path.dirname(os.path.dirname(os.path.abspath(__file__)))
b = open(os.path.join(V, "design_partB.md")).read()
a = open(os.path.join(V, "design_partA.md")).read()
t = subprocess.check_output(["python3", os.path.join(V, "tools", "seeded_table.py")]).decode()
open(os.path.join(V, "DESIGN.md"), "w").write(b.rstrip() + "\n\n" + "-" * 87 + "\n\n" + a.rstrip() +
    "\n\n### Seeded changes: detection table (generated from seeded/*/meta.json)\n\n" + t)
