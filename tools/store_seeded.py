#!/usr/bin/env python3
"""store_seeded.py <outdir-id> <n> <target-name> <property> "<needs>"  -- copies /tmp/mut/<outdir-id>_out/m<n>.* into
seeded/<target-name>/ with a meta.json (confirmation log from confirm_m<n>.log, detection from /tmp/mut/try/<outdir-id>_m<n>.log
if present: that first run is against the checks as they were BEFORE the change was seen)"""
import json, os, re, shutil, sys
oid, n, target, prop, needs = sys.argv[1:6]
V = os.path.dirname(os.path.dirname(os.path.abspath(__file__)))
o = "/tmp/mut/%s_out" % oid
d = os.path.join(V, "seeded", target)
os.makedirs(d, exist_ok=True)
shutil.copy(o + "/m%s.diff" % n, d + "/patch.diff")
for f in os.listdir(o):
    if re.match(r"m%s_(demo|notes)" % n, f):
        shutil.copy(o + "/" + f, d + "/" + f)
log = [l.strip() for l in open(o + "/confirm_m%s.log" % n) if l.startswith("CONFIRM")]
meta = {"property": prop,
        "author": "independent sub-agent given only the property record and a scratch worktree of /repo HEAD (incl. the fix: commits made so far)",
        "needs_to_manifest": needs,
        "independent_confirmation": {"how": "tools/confirm_mutant.sh %s %s in a scratch worktree (apply, build, demo must fail, make -k check must equal baseline, revert, demo must pass)" % (oid, n), "log": log},
        "detection": {"status": "pending", "by": "", "how_run": "tools/try_mutant.sh /verif/seeded/%s/patch.diff %s" % (target, prop)}}
t = "/tmp/mut/try/%s_m%s.log" % (oid, n)
if os.path.exists(t):
    txt = open(t).read()
    viol = re.findall(r"harness=(\S+) failed=\[([^\]]*)\]", txt)
    if viol:
        h, l = viol[0]
        meta["first_run"] = "caught unseen"
        meta["detection"].update(status="caught", by="%s quick: %s '%s'" % (prop, h, l.split(';')[0][:140]))
    elif "try_mutant rc=0" in txt:
        meta["first_run"] = "missed unseen"
        meta["detection"].update(status="missed", by="first run against the checks as they were: no alarm")
json.dump(meta, open(d + "/meta.json", "w"), indent=1)
print(target, meta["detection"]["status"])
